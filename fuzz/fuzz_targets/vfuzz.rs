#![no_main]
//! One libFuzzer target for every property with an in-process stage; the property is chosen by
//! VPROP_FUZZ_PROP. The bytes are the choice vector of that property's generator (see
//! harness/vprop/src/fuzz.rs); the oracle runs inside the target and aborts on a failure.
use libfuzzer_sys::fuzz_target;
fuzz_target!(|data: &[u8]| {
  vprop::fuzz::entry(data);
});
