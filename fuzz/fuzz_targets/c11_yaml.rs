#![no_main]
// C11 coverage-guided target: the byte string is decoded into (role, YAML document) by the same
// decoder family as the proptest generators (structured documents / seed mutations / raw bytes);
// the oracle is inside the target: loading returns Ok or Err, accepted rules scan without panic.
use libfuzzer_sys::fuzz_target;

fuzz_target!(|data: &[u8]| {
  vprop::c11::fuzz_one(data);
});
