#!/bin/bash
# development tool: run every thorough check once (sequentially), keep the logs, distil fuzz packs
cd "$(dirname "$0")/.."
./check --setup || exit 2
mkdir -p .work/thorough
for id in "$@"; do
  start=$(date +%s)
  VPROP_FUZZ_SAVE=1 ./check $id --tier thorough > .work/thorough/$id.log 2>&1
  code=$?
  echo "$id exit=$code wall=$(( $(date +%s) - start ))s $(grep -c '^VIOLATION' .work/thorough/$id.log) violation line(s)"
  cp evidence/$id.json .work/thorough/$id.evidence.json 2>/dev/null
done
