#!/usr/bin/env python3
"""Regenerates /verif/MANIFEST.json from the table below (keeps it valid at all times)."""
import json, os, subprocess
HERE = os.path.dirname(os.path.dirname(os.path.abspath(__file__)))
ids = [json.loads(l)["id"] for l in open(os.path.join(HERE, "properties.jsonl"))]

# id -> (technique, level text, level note, design ref)
CLAIMED = {
 "C01": ("proptest: differential of every accelerated search path (find_all, kind caches, CombinedScan, non-reentrant Visitor/replace_all, CLI run/scan with file prefilter and injected documents) against brute-force per-node matching and the O-eval reference model",
         "Randomised exploration: 10^4-10^5 generated (source, matcher set) cases per run in the library stage (all languages, all strictness levels, ERROR-rooted and contextual patterns, rule trees with utilities, 1-5 rules scanned together) plus hundreds to thousands of real CLI invocations over generated file trees; accelerated results must equal the brute-force list in document order.",
         "Trusted: Pattern::match_node on a single node as the per-node reference for patterns (C02/C03 decide it); O-eval for rules; serde_json for CLI output.", "DESIGN.md §5 C01"),
 "C02": ("proptest: patterns cut from generated code (holes/trailing runs) with an independent shape precondition; oracle = exact expected bindings by construction (round-trip of abstraction)",
         "Randomised exploration over all 23 languages and 5 strictness levels: tens of thousands of (node, hole set, trailing run) cases per run whose pattern re-parses to the shape of the code; each must match its origin and bind every hole to exactly the replaced span.",
         "Trusted: tree-sitter parse of pattern and code; the shape precondition is evaluated by the harness's own tree comparison; cases failing it are discarded and counted.", "DESIGN.md §5 C02"),
 "C03": ("proptest: near-miss candidates (same-kind nodes, scoped tree mutations) vs. O-align, an independent existential legal-alignment relation (reference model), at all strictness levels",
         "Randomised exploration: hundreds of thousands of (pattern, candidate, strictness) triples per run; every reported match must have a legal alignment under the documented strictness table, and the reported match length must stay inside the node and on a token boundary.",
         "Trusted: the pattern tree as parsed by ast-grep (matching is independent); O-align is deliberately at least as permissive as documentation + documented tests, so only soundness is claimed.", "DESIGN.md §5 C03"),
 "C04": ("proptest: variable-sharing rule trees (random + dictionary scenarios with generated candidate order) vs. a clean-attempt reference evaluator (differential), plus an independent alignment check of reported bindings (O-align with environment)",
         "Randomised exploration: ~2x10^4 (quick) to 6x10^5 (thorough) rules sharing the variable pool {A,B,C} across all/any/not/relational/matches/nthChild.ofRule/constraints and global utilities, evaluated on every node; verdict and exposed bindings must equal the reference in which every alternative is attempted on a copy of the environment; each pattern leaf of the winning derivation must admit an alignment consistent with the reported bindings.",
         "Trusted: Pattern matching of a single leaf given an explicit environment (rebuilt through the public MetaVarEnv API); structural identity is judged by an at-least-as-permissive relation; variables only beneath `not` are compared through the verdict only.", "DESIGN.md §5 C04"),
 "C05": ("proptest: generated rule trees x generated sources, evaluated on every node by the implementation and by O-eval, an independent reference evaluator over raw tree-sitter nodes (differential against a reference model)",
         "Randomised exploration: ~10^4 (quick) to 3x10^5 (thorough) generated rule trees over all operators, stopBy kinds, field, An+B/reverse/ofRule, utilities and multi-key objects, each compared with the reference on every node of a small source; disagreements are localised to the smallest disagreeing sub-rule.",
         "Trusted: pattern leaves (delegated to Pattern, decided by C02/C03), regex crate, tree-sitter navigation primitives parent/child(i)/next_sibling/child_by_field_name.", "DESIGN.md §5 C05"),
 "C06": ("proptest: generated (matcher, fix string/object with expansions, rewrite transforms with rewriters) x sources; validity predicates over every proposed edit + O-splice model + reference sibling search for expansion boundaries + reference splice for rewrite",
         "Randomised exploration: 10^4 (quick) to 4x10^5 (thorough) cases in all languages incl. multi-byte, CRLF and syntax errors; every edit must be in bounds, on char boundaries, valid UTF-8, local to the match or exactly the expansion the rule reference gives; overlap-free edit lists must be ordered/disjoint and applying them must equal the splice model; rewrite results must equal the reference splice/join.",
         "Trusted: the matcher itself (C01-C05 decide matching); rewriter sub-rules evaluated through the public Matcher API; zero-width sibling lists excluded from the exact expansion-boundary clause.", "DESIGN.md §5 C06"),
 "C07": ("proptest: templates (identity, wrapping, random token mixes) over real captures at generated site indentations vs. O-template, an independent reference of the template language and the indentation arithmetic (reference model + identity round-trip)",
         "Randomised exploration: 2x10^4 (quick) to 5x10^5 (thorough) (template, capture, site) cases in all languages; replacement must equal the reference byte for byte when captures are well indented, verbatim modulo leading spaces otherwise; rewriting a node to its own pattern must be a no-op.",
         "Trusted: bindings come from the construction of the pattern (C02 decides that the implementation binds the same spans); spaces-only indentation, lines within the 512-byte look-behind.", "DESIGN.md §5 C07"),
 "C08": ("proptest: generated (fixable rule, text) pairs through CLI JSON (reference), sg test -U snapshots, the library replace calls and LSP quick-fix / fix-all actions (differential across front ends)",
         "Randomised exploration through the real binaries and the library: 300 (quick) to 4x10^3 (thorough) cases over 9 fix shapes (expansions, trimmed punctuation, transformed variables, multi-line, object form); each front end's edit (byte range + text) must equal the one `sg scan --json` announces.",
         "Trusted: the JSON output as reference (C16/C06 check it); harness LSP client; the file written by scan -U is compared with the same edits spliced by the harness.", "DESIGN.md §5 C08"),
 "C09": ("proptest: generated projects and LSP notification histories (model-based: URI -> highest version/text) through the real CLI, test runner and language server; oracle = equality of normalised finding multisets across front ends + history invariant on the last publication",
         "Randomised exploration through the real binaries: 120 (quick) to 2x10^3 (thorough) projects, each compared across 7 front ends (3 JSON styles, stdin, GitHub format, sg test verdicts both ways, LSP didOpen) plus an LSP history of up to 17 notifications (sequential and burst delivery) checked against the model's highest version.",
         "Trusted: the JSON stream output as the reference multiset (C16 checks it against the bytes); harness-side LSP client; burst delivery explores, but does not enumerate, handler interleavings.", "DESIGN.md §5 C09"),
 "C10": ("proptest: generated edit histories vs. fresh-parse reference + independent raw tree-sitter incremental chain (differential), shrinking to replay files",
         "Randomised exploration: thousands of generated edit histories per run over all 23 languages; after every step the document text must equal the O-splice model and, when the text parses error-free, the tree must equal a fresh parse (a divergence that an independent, correctly driven tree-sitter incremental chain reproduces exactly is the listed tree-sitter known finding). No absence claim.",
         "Trusted: tree-sitter's fresh parse as reference; the harness's own InputEdit chain; the property is only asserted at error-free steps.", "DESIGN.md §5 C10"),
 "C11": ("proptest structured/mutational YAML generators with every case executed in a child process (panic, abort, stack overflow and hang attributed to one case, shrunk by proptest) + coverage-guided libFuzzer target over the same decoder in the thorough tier; oracle = load returns Ok/Err and accepted rules scan without panic",
         "Randomised + coverage-guided exploration: 5x10^3 (quick) to 1.5x10^5 (thorough) documents from structured adversarial generators (all rule keys, extreme numbers, invalid regexes, deep nesting, 10 cycle shapes), seed mutation and raw bytes, each loaded and, when accepted, scanned over 7 sources in both scan modes with messages and fixes generated; ~5% through the real CLI with a watchdog; thorough adds a libFuzzer campaign. Absence of crashes is not established.",
         "Trusted: the OS reports crashes of the child faithfully; a hang is only reported after three attempts; fuzzing never proves absence.", "DESIGN.md §5 C11"),
 "C12": ("proptest: rule documents assembled from valid parts with one generated perturbation; oracle = independent static analysis of the document model (accept => consistent) + O-template/reference transforms for accepted documents; cyclic documents loaded in a child process",
         "Randomised exploration: 10^4 (quick) to 3x10^5 (thorough) documents over 8 perturbation classes (undefined variable in fix / transform / constraints, unresolved matches / rewriter, cyclic transforms, same-node utility cycles through 9 operator shapes, no kind-determining key); every violating document must be rejected, every accepted document must expand each fix variable (string and object form, transformed variables) to the reference value and match only kinds of its kind set.",
         "Trusted: regex crate for `replace`; the construction of the pattern for the reference bindings (C02); only accept => consistent is claimed.", "DESIGN.md §5 C12"),
 "C20": ("bounded-exhaustive enumeration (complete in the thorough tier, seed-sampled beyond length 4 in quick) of sigil spellings x 23 languages, An+B strings x 40 indices, substring arguments and fix templates against independent reference classifiers / parsers / Python-slice model",
         "Exhaustive up to the stated bounds: all 55 986 strings over {$,A,B,a,1,_} of length <= 6 in every language, all 597 870 An+B candidates over {n,N,+,-,0-3,space} of length <= 6 on 40 sibling indices, all 23 716 substring cases, all 55 986 template strings; beyond the bounds nothing is claimed.",
         "Trusted: the reference classifier/An+B parser/slice model written from the documentation; one leaf context per language; whitespace inside An+B is ignored as the implementation documents.", "DESIGN.md §5 C20"),
 "C13": ("proptest + metamorphic relation: generated projects with inter-dependent maps, key/document/file-name permutations by generated seeds, K relaunches per variant in fresh processes; oracle = equality of normalised outputs and snapshot file digests",
         "Randomised exploration through the real binary: 160 (quick) to 1.5x10^3 (thorough) projects x 4-7 permuted variants x 4-8 launches each (10^3-10^5 process launches); any disagreement between launches or variants is a violation.",
         "Trusted: nothing about hash seeds can be chosen or replayed from a seed; a non-determinism that needs a rarer seed than the launches sample is missed; replay re-launches 20 times per variant.", "DESIGN.md §5 C13"),
 "C14": ("proptest: generated single-line statements x suppression comment placements/id lists in 8 languages; oracle O-suppress computed from the text (line arithmetic + id lists) over the unsuppressed findings; library (both separate_fix modes) and CLI drivers",
         "Randomised exploration: 2x10^4 (quick) to 3x10^5 (thorough) generated files through CombinedScan::scan plus hundreds to thousands through `sg scan --json` in a project with all rules enabled; reported findings and unused-suppression entries must equal the model exactly.",
         "Trusted: each rule's unsuppressed findings come from find_all of that rule alone (C01); comment placements limited to the two the property covers.", "DESIGN.md §5 C14"),
 "C15": ("proptest: generated projects (languageGlobs, files/ignores globs, severities, CLI overrides, --filter) through the real CLI; oracle = O-glob (globset's documented syntax translated to regexes) + O-severity precedence model + extension table",
         "Randomised exploration through the real binary: 10^3 (quick) to 1.5x10^4 (thorough) project scans; the set of (file, rule, severity) findings and the exit status must equal the model exactly.",
         "Trusted: the documented globset syntax (literal_separator off); every file carries a trigger by construction so applied <=> finding present; conflicting override flags are not generated.", "DESIGN.md §5 C15"),
 "C16": ("proptest: generated file sets (multi-byte, CRLF, long lines, EOF/BOF matches) x query x context x JSON style through the real CLI; oracle = recomputation of every printed field from the file bytes (O-pos, whole-line slicing)",
         "Randomised exploration through the real binary: 1.5x10^3 (quick) to 3x10^4 (thorough) invocations producing 10^4-10^6 JSON records and plain-report lines, each recomputed from the bytes on disk; JSON must parse as one array / one object per line for 1-29 files.",
         "Trusted: serde_json as JSON parser; the files written by the harness; JavaScript sources only (the printers are language independent).", "DESIGN.md §5 C16"),
 "C17": ("proptest + fault injection + schedule perturbation: generated directory trees with fault files, thread counts and producer-delay seeds (cfg(ast_grep_verif) hook) through the real CLI; oracle = union of single-file single-thread runs (differential) + file accounting invariant",
         "Randomised stress exploration: 120 (quick) to 1.5x10^3 (thorough) trees x 6-12 runs over -j 1..16 with steered producer completion orders; every run must be well-formed, equal to the reference multiset without loss or duplicate, exit as the reference says and account for every eligible file exactly once.",
         "Trusted: single-file -j1 runs as reference; the harness perturbs but does not own the OS scheduler (no enumeration of interleavings); unreadable files need setpriv.", "DESIGN.md §5 C17"),
 "C18": ("proptest: generated projects (overlapping fixable rules, html hosts, repeated invocations) through the real CLI; oracle O-update = the edits announced by the same command under --json ordered as visited, overlaps dropped, spliced with O-splice (model-based differential)",
         "Randomised exploration through the real binary: hundreds (quick) to thousands (thorough) of `-U` invocations (run and scan, 1-3 repetitions each); every file must equal the spliced model byte for byte, untouched files must be unchanged and `Applied N changes` must equal the number of accepted edits.",
         "Trusted: the JSON output as the announcement (C16 checks it against the bytes); the visiting order model (node start, outer first, rule id).", "DESIGN.md §5 C18"),
 "C19": ("proptest: generated sources (all languages, syntax errors, multi-byte) x start nodes; navigation API vs. plain recursion over raw tree-sitter child(i) (reference model)",
         "Randomised exploration of navigation invariants on every node of generated trees; traversals from generated start nodes against recursive reference orders; positions against O-pos recomputation.",
         "Trusted: tree-sitter child(i)/parent as ground truth; node identity = (id, byte range); zero-width parents excluded from the sibling clause as the property states.", "DESIGN.md §5 C19"),
}
REASON_PENDING = "check under construction in this round; see DESIGN.md section 5"

# additions of the later build rounds (DESIGN.md section 12)
FUZZABLE = ["C01", "C02", "C03", "C04", "C05", "C06", "C07", "C10", "C11", "C12", "C14", "C19"]
FUZZ_TECH = "; coverage-guided libFuzzer stage (cargo-fuzz target /verif/fuzz `vfuzz`) over the same generator and the same oracle: the byte string is the choice vector (thorough tier runs 16 seeded campaigns and decides every artifact with the strict check; every tier replays the committed distilled corpus)"
EXTRA_NOTE = {
 "C04": " Three generated stages: random rule trees, dictionary scenarios, and rule families built directly (a candidate binds a variable, is rejected, and the next candidate needs another binding; negation as the candidate test; one variable on near-identical code).",
 "C05": " A second stage re-uses the C04 rule families under this property's oracle.",
 "C06": " A third stage (`update-all`) runs C18's projects and O-update oracle for the property's last observation point (file bytes after --update-all).",
 "C07": " TAB-indented sources (TABs are not indentation for the replacer) and captures that begin with white space (comment / string content) are generated on purpose.",
 "C11": " Documents concentrate the adversarial content in one section at a time (rule / utils / constraints / transform / rewriters / fix / top level) so that loading reaches it; sgconfig.yml and test files have their own generators; the harness is built with overflow checks on.",
 "C12": " Rewriter fixes that use variables of the enclosing rule and cycles that close through a composite key beside a harmless `matches` key are generated on purpose; `rewrite` results are modelled by the reference splice of C06.",
 "C13": " Generated utility graphs (references only inside any/all/not), overlapping fixable rules with id order different from file order, and the bytes written by `scan -U` are compared across launches and permuted projects.",
 "C14": " Rule ids in a proper-prefix relation and rules with `fix` (both separate_fix modes must agree) are generated on purpose.",
 "C15": " HTML hosts with embedded css/js documents are part of the projects (exit status with findings in an earlier document).",
 "C16": " Matches that include the CR of a CRLF ending and lines with bare CRs are generated on purpose.",
 "C17": " One run of some trees stalls about one file in eight for 1.2 s through the second hook (slow files).",
 "C08": " `scan -U` is one of the front ends (the written file must equal the text with the announced edits); sources may start with blank lines, a BOM or a comment.",
 "C09": " Rules with a fix and nested matches (overlapping replaced ranges) are part of the projects.",
 "C20": " The quick tier is exhaustive to length 5 for spellings and An+B formulas.",
 "C02": " The shape precondition is judged independently of the implementation (own sigil substitution + raw tree-sitter parse) whenever the converted pattern tree disagrees; candidates with rare textual features are boosted.",
 "C01": " `kind: ERROR` is in the kind pool of the generated rules.",
 "C03": " Candidates include copies of the origin with the abstracted parts deleted; the length clause is asserted at token granularity (DESIGN 12.8).",
 "C18": " Projects include three-document HTML files (html + css + js fixes) and used / unused suppression comments.",
}
for i in FUZZABLE:
    t = CLAIMED[i]
    CLAIMED[i] = (t[0] + FUZZ_TECH, t[1], t[2], t[3])
for i, extra in EXTRA_NOTE.items():
    t = CLAIMED[i]
    CLAIMED[i] = (t[0], t[1], t[2] + extra, t[3] + ", §12")

commits = subprocess.run(["git", "-C", "/repo", "log", "--format=%h %s", "f27334e..HEAD"], capture_output=True, text=True).stdout.strip().splitlines()
hook_commits = [c.split()[0] for c in commits if " hook:" in c or c.split(" ",1)[1].startswith("verif hook")]

checks = []
for i in ids:
    if i not in CLAIMED: continue
    tech, text, note, ref = CLAIMED[i]
    checks.append({
        "property_id": i,
        "quick_cmd": f"./check {i} --tier quick",
        "thorough_cmd": f"./check {i} --tier thorough",
        "evidence_file": f"evidence/{i}.json",
        "replay_cmd_template": f"./check {i} --replay {{path}}",
        "engine": "vprop",
        "level_claimed": {"category": "exploration", "text": text, "design_ref": ref},
        "level_note": note,
        "technique": tech,
    })
m = {
 "version": 1,
 "setup_cmd": "./check --setup",
 "hooks": {"guard": "--cfg ast_grep_verif",
           "enable": "build.rustflags = [\"--cfg\",\"ast_grep_verif\"] in /verif/harness/.cargo/config.toml (the harness workspace path-depends on /repo/crates/*, so every check rebuilds /repo's working tree with the cfg on)",
           "baseline_off_cmd": "cd /repo && cargo test --workspace --no-fail-fast --offline",
           "source_commits": hook_commits, "add_only": True},
 "engines": [{"name": "vprop", "path": "harness/vprop", "serves_properties": sorted(CLAIMED),
              "kind_free_text": "proptest-driven generators (choice vectors interpreted against a seed corpus + synthetic grammars) with explicit reference oracles; in-process library driver and CLI/LSP black-box driver (sgv = the real CLI built from /repo); failures shrink to JSON replay files"}],
 "checks": checks,
 "notes": "Exit codes: 0 held / 1 VIOLATION / 2 inconclusive (infrastructure). known_findings.json lists genuine defects (known) and repaired ones (fixed, with the fix: commit).",
 "not_applicable": [{"property_id": i, "reason": REASON_PENDING} for i in ids if i not in CLAIMED],
}
json.dump(m, open(os.path.join(HERE, "MANIFEST.json"), "w"), indent=1)
print("claimed:", sorted(CLAIMED), "pending:", len(m["not_applicable"]))
