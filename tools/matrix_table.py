#!/usr/bin/env python3
"""Markdown table of the latest result of every seeded change against its own property
(seeded/RESULTS.jsonl; development tool)."""
import json, os, collections

ROOT = os.path.dirname(os.path.dirname(os.path.abspath(__file__)))
rows = [json.loads(l) for l in open(os.path.join(ROOT, "seeded", "RESULTS.jsonl"))]
first, last, cross = {}, {}, collections.defaultdict(set)
for r in rows:
    m = r["mutant"]
    own = m.split("/")[1]
    if r["property_checked"] == own:
        first.setdefault(m, r)
        last[m] = r
    elif r["detected"]:
        cross[m].add(r["property_checked"])


def group(m):
    name = m.split("/")[2]
    return "reverts" if name.startswith("rev-") else "round 3" if name.startswith("r3") else "round 2" if name.startswith("r2") else "round 1"


print("| change | what it does (from its meta.json) | first run | latest run | signature of the latest detection | also reported by |")
print("|---|---|---|---|---|---|")
for m in sorted(last):
    meta = {}
    try:
        meta = json.load(open(os.path.join(ROOT, m, "meta.json")))
    except Exception:
        pass
    what = (meta.get("summary") or "").replace("\n", " ").replace("|", "/")
    what = what[:110] + ("…" if len(what) > 110 else "")
    f, l = first[m], last[m]
    sig = (l["signatures"] or [""])[0].replace("|", "/")[:70]
    print(f"| {m.replace('seeded/', '')} | {what} | {'detected' if f['detected'] else 'missed'} | {'detected' if l['detected'] else 'missed'} | `{sig}` | {', '.join(sorted(cross[m]))} |")
tot = collections.Counter()
det_first = collections.Counter()
det_last = collections.Counter()
for m in last:
    g = group(m)
    tot[g] += 1
    det_first[g] += first[m]["detected"]
    det_last[g] += last[m]["detected"]
print()
for g in sorted(tot):
    print(f"* {g}: first run {det_first[g]}/{tot[g]}, latest run {det_last[g]}/{tot[g]}")
