#!/usr/bin/env python3
"""Run checks against seeded property-breaking changes (development tool, not a registered check).

usage: tools/killmatrix.py [--tier quick|thorough] [--props own|all|C01,C05] [--seed N] seeded/C01/m1 ...

For every mutant directory: /repo must be clean; the patch is applied with `git apply`, the chosen
checks run (they rebuild from /repo's working tree), the tree is restored with
`git checkout -- . && git clean -fdq crates`, and one record is appended to seeded/RESULTS.jsonl.
"""
import json, os, subprocess, sys, time, re

ROOT = os.path.dirname(os.path.dirname(os.path.abspath(__file__)))
REPO = "/repo"
ALL = ["C%02d" % i for i in range(1, 21)]


def sh(cmd, **kw):
    return subprocess.run(cmd, shell=True, capture_output=True, text=True, **kw)


def main():
    args = sys.argv[1:]
    tier, props, seed = "quick", "own", "1"
    muts = []
    i = 0
    while i < len(args):
        if args[i] == "--tier":
            tier = args[i + 1]; i += 2
        elif args[i] == "--props":
            props = args[i + 1]; i += 2
        elif args[i] == "--seed":
            seed = args[i + 1]; i += 2
        elif args[i] == "--no-witness":
            os.environ["VPROP_NO_WITNESS"] = "1"; i += 1
        else:
            muts.append(args[i].rstrip("/")); i += 1
    for m in muts:
        own = m.split("/")[-2]
        patch = os.path.join(ROOT, m, "patch.diff")
        if sh(f"git -C {REPO} status --porcelain").stdout.strip():
            print("refusing: /repo is not clean"); sys.exit(2)
        r = sh(f"git -C {REPO} apply {patch}")
        if r.returncode != 0:
            print(f"{m}: patch does not apply: {r.stderr.strip()[:300]}")
            continue
        try:
            which = [own] if props == "own" else ALL if props == "all" else props.split(",")
            for p in which:
                t0 = time.time()
                env = dict(os.environ, VERIF_SEED=seed, VERIF_TIER=tier)
                r = subprocess.run([os.path.join(ROOT, "check"), p, "--tier", tier], capture_output=True, text=True, env=env, cwd=ROOT)
                out = r.stdout + r.stderr
                sigs = re.findall(r"^\s+signature: (.*)$", out, re.M)
                rec = {"mutant": m, "property_checked": p, "tier": tier, "seed": int(seed), "exit": r.returncode,
                       "detected": r.returncode == 1 and "VIOLATION property=" in out,
                       "signatures": sigs[:6], "witnesses": "VPROP_NO_WITNESS" not in os.environ, "wall_s": round(time.time() - t0, 1)}
                if r.returncode not in (0, 1):
                    rec["tail"] = out[-600:]
                print(json.dumps(rec))
                with open(os.path.join(ROOT, "seeded", "RESULTS.jsonl"), "a") as f:
                    f.write(json.dumps(rec) + "\n")
                with open(os.path.join(ROOT, m, f"result.{p}.{tier}.txt"), "w") as f:
                    f.write(out[-6000:])
        finally:
            sh(f"git -C {REPO} checkout -- . && git -C {REPO} clean -fdq crates")
            # replays written while a mutant was applied are not findings of the real tree
            sh(f"rm -f {ROOT}/replays/new/*")
    sh(f"cd {ROOT} && git checkout -- evidence")


if __name__ == "__main__":
    main()
