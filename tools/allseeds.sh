#!/bin/bash
# run every quick check under several seeds; print only non-zero exits and VIOLATION lines
cd "$(dirname "$0")/.."
./check --setup || exit 2
rc=0
for seed in "$@"; do
  for id in $(python3 -c "import json;print(' '.join(c['property_id'] for c in json.load(open('MANIFEST.json'))['checks']))"); do
    out=$(VERIF_SEED=$seed ./check $id --tier quick 2>&1); code=$?
    if [ $code -ne 0 ] || echo "$out" | grep -q "^VIOLATION"; then
      echo "== seed=$seed $id exit=$code"; echo "$out" | grep -E "VIOLATION|signature|INCONCL|warning" | head -5; rc=1
    fi
  done
  echo "seed $seed done"
done
exit $rc
