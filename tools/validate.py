#!/opt/veriftools/pyvenv/bin/python
import json, jsonschema, sys, glob
jsonschema.validate(json.load(open('/verif/MANIFEST.json')), json.load(open('/root/.vp/MANIFEST.schema.json')))
es=json.load(open('/root/.vp/EVIDENCE.schema.json'))
for c in json.load(open('/verif/MANIFEST.json'))['checks']:
    p='/verif/'+c['evidence_file']
    try:
        jsonschema.validate(json.load(open(p)), es)
    except Exception as e:
        print("EVIDENCE INVALID", p, str(e)[:300]); sys.exit(1)
print("manifest + evidence valid")
