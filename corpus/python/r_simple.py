from ast_grep_py import SgRoot, Rule

source = """
function test() {
  let a = 123
  let b = 456
  let c = 789
}
""".strip()
sg = SgRoot(source, "javascript")
root = sg.root()

def test_is_leaf():
    node = root.find(pattern="let $A = $B")
    assert node
    assert not node.is_leaf()
    node = root.find(pattern="123")
    assert node
    assert node.is_leaf()

def test_is_named():
    node = root.find(pattern="let $A = $B")
    assert node
    assert node.is_named()
    node = root.find(pattern="123")
    assert node
    assert node.is_named()

def test_kind():
    node = root.find(pattern="let $A = $B")
    assert node
    assert node.kind() == "lexical_declaration"
    node = root.find(pattern="123")
    assert node
    assert node.kind() == "number"

def test_text():
    node = root.find(pattern="let $A = $B")
    assert node
    assert node.text() == "let a = 123"
    node = root.find(kind="number")
    assert node
    assert node.text() == "123"

def test_matches():
    node = root.find(pattern="let $A = $B")
    assert node
    assert node.matches(kind="lexical_declaration")
    assert not node.matches(kind="number")
    assert node.matches(pattern="let a = 123")
    assert not node.matches(pattern="let b = 456")
    assert node.matches(has=Rule(
        kind="variable_declarator",
        has=Rule(
            kind="number",
            pattern="123"
        )
    ))

def test_inside():
    node = root.find(pattern="let $A = $B")
    assert node
    assert node.inside(kind="function_declaration")
    assert not node.inside(kind="function_expression")

def test_has():
    node = root.find(pattern="let $A = $B")
    assert node
    assert node.has(pattern="123")
    assert node.has(kind="number")
    assert not node.has(kind="function_expression")

def test_precedes():
    node = root.find(pattern="let $A = $B\n")
    assert node
    assert node.precedes(pattern="let b = 456\n")
    assert node.precedes(pattern="let c = 789\n")
    assert not node.precedes(pattern="notExist")

def test_follows():
    node = root.find(pattern="let b = 456\n")
    assert node
    assert node.follows(pattern="let a = 123\n")
    assert not node.follows(pattern="let c = 789\n")

def test_get_match():
    node = root.find(pattern="let $A = $B")
    assert node
    a = node.get_match("A")
    assert a is not None
    assert a.text() == "a"
    rng = a.range()
    assert rng.start.line == 1
    assert rng.start.column == 6

def test_must_get_match():
    node = root.find(pattern="let $A = $B")
    assert node
    a = node["A"]
    assert a is not None
    assert a.text() == "a"
    rng = a.range()
    assert rng.start.line == 1
    assert rng.start.column == 6


def test_get_multi_match():
    node = root.find(pattern="function test() { $$$STMT }")
    assert node
    stmts = node.get_multiple_matches("STMT")
    assert len(stmts) == 3
    assert stmts[0] == root.find(pattern="let a = 123")

def test_hash():
    node1 = root.find(pattern="let $A = $B")
    node2 = root.find(pattern="let $A = 123")
    assert hash(node1) == hash(node2)

def test_eq():
    node1 = root.find(pattern="let $A = $B")
    node2 = root.find(pattern="let $A = 123")
    assert node1 == node2

def test_str():
    node1 = root.find(pattern="let $A = $B")
    assert str(node1) == "lexical_declaration@(1,2)-(1,13)"

def test_repr_short():
    node1 = root.find(pattern="let $A = $B")
    assert repr(node1) == "SgNode(`let a...`, kind=lexical_declaration, range=(1,2)-(1,13))"

def test_repr_long():
    node1 = root.find(pattern="123")
    assert repr(node1) == "SgNode(`123`, kind=number, range=(1,10)-(1,13))"