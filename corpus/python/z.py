def greet(name):
    print(name, "héllo")
    print("¿qué?", name, [name, "ÿ"])
    return f(name, "日本")

class Box:
    label = "é"

    def show(self, x):
        return show(x, "ü", self.label)
