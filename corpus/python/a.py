# line comment at the top
"""module docstring"""
import os
from sys import argv, path


def foo(a, b, c):
    x = a + b
    y = b * c
    return x + y


def bar(x):
    return x * 2


def baz():
    return 0


a = 1
b = 2.5
c = 0x1F
x = foo(a, a, a)
y = bar(x) + bar(x)
z = foo(bar(1), baz(), foo(1, 2, 3))

# calls with zero, one, two, three arguments
baz()
bar(a)
foo(a, b, c)
foo(a, a, a)  # trailing comment
foo(
    a,  # first
    b,
    c,
)
foo(a, b, c=3)
foo(*[a, b, c])

items = [1, 2, 3]
items2 = [a, a, b, b,]
nested = [[1, 2], [1, 2], [a, [b, [c]]]]
empty = []
d = {"a": 1, "b": 2, "c": 3}
d2 = {"a": a, "b": a, "foo": bar(x),}
t = (a, b, c)
t2 = (a,)
s = {a, b, c}
s1 = "hello\n\tworld \"quoted\""
s2 = 'single \'quoted\' \\ backslash'
s3 = r"raw\d+"

if a < b:
    x = a
    y = b
elif a == b:
    x = b
else:
    x = c
    y = c

for i in range(10):
    x = x + i
    bar(x)

while x > 0:
    x = x - 1
    # inside loop
    y = y + bar(x) + bar(x)

fn = lambda a, b: a - b
x = a + b * c - (a + b) / c
y = a and b or not c
x += 1
y = a if x else b
squares = [bar(x) for x in items if x > 1]
a, b = b, a
print(x, y, sep=", ", end="\n")
