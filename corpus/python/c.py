# deeply nested multi-line constructs
def foo(a, b):
    if a > b:
        for x in range(a):
            while b < x:
                if x == 1:
                    bar(x, x)
                else:
                    baz(x)
                b = b + 1
    return a


obj = {
    "a": {
        "b": {
            "c": [
                1,
                2,
                [
                    3,
                    4,
                ],
            ],
            "x": "x",
        },
        "y": foo(1, 2),
    },
}

foo(
    bar(
        baz(
            1,
            2,
        ),
        baz(
            1,
            2,
        ),
    ),
    [
        a,
        b,
    ],
)


class Bar:
    class Inner:
        def foo(self, a):
            if a:
                try:
                    baz(a, a)
                except Exception as e:
                    # nested comment
                    baz(e)
            return a

    def bar(self, x):
        def inner(y):
            def innermost(z):
                return x + y + z

            return innermost

        return inner


x = [
    [
        bar(a) + bar(a)
        for a in b
    ]
    for b in c
]
