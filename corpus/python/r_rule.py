from ast_grep_py import SgRoot, Rule, Config, Relation, Pattern

source = """
function test() {
  let a = 123
}
""".strip()

sg = SgRoot(source, "javascript")
root = sg.root()

def test_simple():
    node = root.find(pattern="let $A = $B")
    assert node is not None

def test_config():
    node = root.find(
        Config(
            rule={"pattern": "let a = 123"},
        )
    )
    assert node is not None

def test_config_literal():
    node = root.find({
        "rule": {"pattern": "let a = 123"},
    })
    assert node is not None

def test_rule():
    rule = Rule(pattern = "let $A = $B")
    node = root.find(**rule)
    assert node is not None

def test_dict_literal():
    # pyright is not smart to infer dict.
    # We have to annotate Rule here
    rule: Rule = {"pattern": "let $A = $B"}
    node = root.find(**rule)
    assert node is not None

def test_not_rule():
    rule = {"pattern": "let $A = $B", "not": Rule(pattern="let a = 123")}
    node = root.find(**rule)
    assert not node
    rule = {"pattern": "let $A = $B", "not": Rule(pattern="let b = 123")}
    node = root.find(**rule)
    assert node

def test_relational_dict():
    relation: Relation = {"kind": "function_declaration", "stopBy": "end"}
    node = root.find(
        pattern="let a = 123\n",
        inside=relation,
    )
    assert node
    node = root.find(
        pattern="let a = 123\n",
        inside={"kind": "function_declaration", "stopBy": "end"},
    )
    assert node

def test_relational_rule():
    node = root.find(
        pattern="let a = 123\n",
        inside=Relation(kind="function_declaration", stopBy="end"),
    )
    assert node

def test_complex_config_dict():
    node = root.find({
        "rule": {
            "pattern": "let $A = $B",
            "regex": "123",
            "not": {
                "regex": "456"
            },
        },
        "constraints": {
            "A": {
                "pattern": "a"
            }
        },
        "transform": {
            "C": {
                "substring": {
                    "source": "$B",
                    "startChar": 1,
                    "endChar": -1,
                }
            }
        }
    })
    assert node
    assert node.get_transformed("C") == "2"

def test_complex_config_dict_not_found():
    node = root.find({
        "rule": {
            "pattern": "let $A = $B",
            "regex": "123",
            "not": {
                "regex": "456"
            },
        },
        "constraints": {
            "A": {
                "pattern": "a"
            },
            "B": {
                "regex": "222"
            },
        },
        "transform": {
            "C": {
                "substring": {
                    "source": "$B",
                    "startChar": 1,
                    "endChar": -1,
                }
            }
        }
    })
    assert not node

def test_complex_config():
    node = root.find(Config(
        rule=Rule(pattern="let $A = $B", regex="123"),
        constraints=dict(A=Rule(pattern="a")),
        transform=dict(C={
            "substring": {
                "source": "$B",
                "startChar": 1,
            }
        })
    ))
    assert node
    assert node.text() == "let a = 123"
    assert node.get_transformed("C") == "23"

def test_pattern():
    node = root.find(pattern={
        "context": "let a = 123",
        "selector": "variable_declarator"
    })
    assert node
    assert node.text() == "a = 123"
    node2 = root.find(pattern=Pattern(
        context="let a = 123",
        selector="variable_declarator",
    ))
    assert node == node2

def test_range_rule():
    node = root.find(range={
        "start": {"line": 0, "column": 9},
        "end": {"line": 0, "column": 13},
    })
    assert node
    assert node.text() == "test"
    node = root.find(range={
        "start": {"line": 0, "column": 9},
        "end": {"line": 0, "column": 12},
    })
    assert not node

def test_strictness():
    node = root.find(pattern={
        "context": "let b = 456",
        "strictness": "signature",
    })