# commentaire: café, naïve, 日本語 😀
"""docstring: héllo wörld"""
café = "héllo wörld"
naïve = '日本語'
x = "😀"
y = "mixed ascii and ünïcödé é \n"


def foo(café, naïve):
    # ünïcödé comment inside a function
    return café + naïve


def bar(a, b=2, *c, **kw):
    x = a + b
    return [x, x, c]


class Baz:
    """class docstring é"""

    a = 1

    def __init__(self, a, b):
        self.a = a
        self.b = b

    def foo(self, x):
        return self.a + x

    @staticmethod
    def bar(x, y):
        return Baz(x, y)


foo(café, café)
foo(naïve, "日本語")
bar(1) + bar(1)
foo(bar(1), bar(2, 3))
foo(bar("é"), bar("é"))

obj = {
    "café": 1,
    "naïve": 2,
    "foo": [1, 2, 3,],
    "bar": {"a": "日本語", "b": "日本語"},
}

items = ["é", "é", "ü", "😀", "😀",]
a, b = 1, 2
c, *rest = items

for x in items:
    foo(x, x)  # trailing: ünïcödé

for k, v in obj.items():
    bar(k, v)

try:
    foo(a, b)
except ValueError as e:
    bar(e)
except (TypeError, KeyError):
    pass
finally:
    bar(c)

with open("é.txt") as f:
    bar(f)

baz = Baz(1, 2)
baz.foo(1)
Baz.bar(a, a).foo(b)
assert a == 1, "é"
d = {k: v for k, v in obj.items()}
g = (bar(x) for x in items)
print(f"plain f-string é")
