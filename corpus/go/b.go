// commentaire: café, naïve, 日本語 😀
/* block: héllo wörld */
package qux

import "errors"

type Café interface {
    Foo(x int) int
}

type Baz struct {
    a, b  int
    naïve string
}

const (
    café  = "héllo wörld"
    naïve = "日本語"
)

var x, y = 0, 0

func (z *Baz) Foo(x int) int {
    return z.a + x
}

func bar(x, y int) *Baz {
    return &Baz{a: x, b: y, naïve: "é"}
}

func id(café string, c ...int) (string, error) {
    // ünïcödé comment inside a function
    if len(c) == 0 {
        return "", errors.New("é")
    }
    return café, nil
}

func run(a, b int) {
    s := "😀"
    t := "mixed ascii and ünïcödé é \n"
    c := 3

    id(café, 1, 1)
    id(naïve, 1, 2 /* 😀 */, 3, 3)
    bar(a, a).Foo(b)
    bar(bar(1, 1).Foo(1), bar(1, 1).Foo(1))

    list := []string{"é", "é", "ü", "😀", "😀"}
    obj := map[string][]int{
        "café":  {1, 2, 3},
        "naïve": {1, 2, 3},
    }

    for i, x := range list {
        id(x, i) // trailing: ünïcödé
    }

    for k, v := range obj {
        id(k, v...)
    }

    switch a {
    case 1:
        bar(a, a)
    case 2, 3:
        bar(b, b)
    default:
        bar(c, c)
    }

    defer bar(c, c)
    go bar(a, b)

    if r, err := id(s, 1); err != nil {
        id(r, 1)
    }

    var iface interface{} = t
    if v, ok := iface.(string); ok {
        id(v, 1)
    }
    ch := make(chan int, 1)
    ch <- a
    b = <-ch
}
