// line comment at the top
/* block comment at the top */
package main

import (
    "fmt"
    "os"
)

func foo(a int, b int, c int) int {
    x := a + b
    y := b * c
    return x + y
}

func bar(x int) int {
    return x * 2
}

func baz() int {
    return 0
}

type point struct {
    x int
    y int
}

func main() {
    a := 1
    b := 2.5
    c := 0x1f
    x := foo(a, a, a)
    y := bar(x) + bar(x)
    var z int = foo(bar(1), baz(), foo(1, 2, 3))

    // calls with zero, one, two, three arguments
    baz()
    bar(a)
    foo(a, a, c)
    foo(a, a, a) // trailing comment
    foo(
        a, // first
        /* second */ a,
        c,
    )

    list := []int{1, 2, 3}
    list2 := []int{a, a, c, c}
    nested := [][]int{{1, 2}, {1, 2}, {}}
    m := map[string]int{"a": 1, "b": 1}
    p := point{x: 1, y: 1}
    q := point{a, a}
    s1 := "hello\n\tworld \"quoted\""
    s2 := `raw \ string`
    ch := '\n'

    if a < c {
        x = a
        y = c
    } else if a == c {
        x = c
    } else {
        x = c
        y = c
    }

    for i := 0; i < 10; i++ {
        x = x + i
        bar(x)
    }

    for x > 0 {
        x = x - 1
        /* inside loop */
        y = y + bar(x) + bar(x)
    }

    fn := func(a int, b int) int {
        return a - b
    }
    x = a + c*c - (a+c)/c
    ok := a > 0 && c > 0 || !(x > 0)
    x += 1
    fmt.Println(x, y, z, b, list, list2, nested, m, p, q, s1, s2, ch, fn, ok)
    os.Exit(0)
}
