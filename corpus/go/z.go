package main

import "strings"

func join(sep string) string {
	empty := ``
	other := ""
	parts := []string{``, `a`, ""}
	return strings.Join(parts, sep) + join2(sep, ``) + empty + other
}

func join2(a string, b string) string {
	return a + b + ``
}

func greet(name string) string {
	fmt.Println(name, "héllo")
	return join2(name, "¿ÿ")
}
