package main

import "strings"

func join(sep string) string {
	empty := ``
	other := ""
	parts := []string{``, `a`, ""}
	return strings.Join(parts, sep) + join2(sep, ``) + empty + other
}

func join2(a string, b string) string {
	return a + b + ``
}
