// deeply nested multi-line constructs
package foo

func run(a int, b int) int {
    if a > b {
        for x := 0; x < a; x++ {
            for b < x {
                if x == 1 {
                    qux(x, x)
                } else {
                    qux(x, 0)
                }
                b = b + 1
            }
        }
    }
    return a
}

func qux(a int, b int) int {
    return run(
        qux(
            run(
                1,
                2,
            ),
            run(
                1,
                2,
            ),
        ),
        qux(
            a,
            b,
        ),
    )
}

var obj = map[string]map[string][][]int{
    "a": {
        "b": {
            {
                1,
                2,
            },
            {
                1,
                2,
            },
        },
    },
}

var f = func(a int) func(int) func(int) int {
    return func(b int) func(int) int {
        return func(c int) int {
            /* nested block comment */
            return a + b + c
        }
    }
}

type outer struct {
    m struct {
        c struct {
            a int
            b int
        }
        x int
    }
    y int
}

func nested(a int) {
    switch a {
    case 1:
        select {
        default:
            if a > 0 {
                // nested line comment
                qux(a, a)
            }
        }
    }
}
