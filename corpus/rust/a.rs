// line comment at the top
/* block comment at the top */
use std::collections::HashMap;
use std::fmt::{self, Display};

fn foo(a: i32, b: i32, c: i32) -> i32 {
    let x = a + b;
    let y = b * c;
    return x + y;
}

fn bar(x: i32) -> i32 {
    x * 2
}

fn baz() -> i32 {
    0
}

struct Point {
    x: i32,
    y: i32,
}

enum Color { Red, Green, Blue, }

fn main() {
    let a = 1;
    let b = 2.5;
    let c = 0x1f;
    let mut x = foo(a, a, a);
    let mut y = bar(x) + bar(x);
    let z: i32 = foo(bar(1), baz(), foo(1, 2, 3));

    // calls with zero, one, two, three arguments
    baz();
    bar(a);
    foo(a, a, c);
    foo(a, a, a); // trailing comment
    foo(
        a, // first
        /* second */ a,
        c,
    );

    let list = [1, 2, 3];
    let list2 = vec![a, a, c, c,];
    let nested = [[1, 2], [1, 2]];
    let t = (a, a, c);
    let p = Point { x: 1, y: 1 };
    let q = Point { x: a, y: a, };
    let s1 = "hello\n\tworld \"quoted\"";
    let s2 = r"raw \ string";
    let ch = '\n';

    if a < c {
        x = a;
        y = c;
    } else if a == c {
        x = c;
    } else {
        x = c;
        y = c;
    }

    for i in 0..10 {
        x = x + i;
        bar(x);
    }

    while x > 0 {
        x = x - 1;
        /* inside loop */
        y = y + bar(x) + bar(x);
    }

    let fn1 = |a: i32, b: i32| a - b;
    let fn2 = |a: i32| -> i32 {
        return foo(a, a, a);
    };
    x = a + c * c - (a + c) / c;
    let ok = a > 0 && c > 0 || !(x > 0);
    x += 1;
    y = if x > 0 { a } else { c };
    println!("{} {}", x, y);
}
