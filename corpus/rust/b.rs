// commentaire: café, naïve, 日本語 😀
/* block: héllo wörld /* nested block */ */
//! inner doc comment: ünïcödé
/// outer doc comment: ünïcödé
pub trait Café {
    fn foo(&self, x: i32) -> i32;
}

#[derive(Debug, Clone)]
pub struct Baz {
    a: i32,
    b: i32,
    naïve: String,
}

impl Café for Baz {
    fn foo(&self, x: i32) -> i32 {
        self.a + x
    }
}

impl Baz {
    pub fn bar(x: i32, y: i32) -> Baz {
        Baz { a: x, b: y, naïve: String::from("é") }
    }
}

fn id<T: Clone, U>(café: T, c: &[U]) -> Result<T, String> {
    // ünïcödé comment inside a function
    if c.is_empty() {
        return Err(String::from("é"));
    }
    Ok(café.clone())
}

fn run(a: i32, b: i32) -> Option<i32> {
    let café = "héllo wörld";
    let naïve = "日本語";
    let s = "😀";
    let c = 3;
    let mut n = a;

    id(café, &[1, 1]);
    id(naïve, &[1, 2, /* 😀 */ 3, 3,]);
    Baz::bar(a, a).foo(b);
    Baz::bar(Baz::bar(1, 1).foo(1), Baz::bar(1, 1).foo(1));

    let list = vec!["é", "é", "ü", "😀", "😀",];
    let r: Vec<String> = list.iter().map(|x| x.to_string()).collect();

    for x in list.iter() {
        id(x, &[1]); // trailing: ünïcödé
    }

    match a {
        1 => Baz::bar(a, a),
        2 | 3 => Baz::bar(b, b),
        _ => {
            Baz::bar(c, c)
        }
    };

    loop {
        n = n + 1;
        if n > 10 {
            break;
        }
    }

    if let Ok(v) = id(s, &[1]) {
        id(v, &[1]);
    }

    let o: Option<&str> = None;
    let len = o.map(|x| x.len()).unwrap_or(0);
    let v = id(a, &[len])?;
    let (p, q) = (v, v);
    Some(p + q)
}
