use super::Matcher;
use crate::meta_var::MetaVarEnv;
use crate::{Doc, Language, Node};

use bit_set::BitSet;
use regex::{Error as RegexError, Regex};
use thiserror::Error;

use std::borrow::Cow;
use std::marker::PhantomData;

#[derive(Debug, Error)]
pub enum RegexMatcherError {
  #[error("Parsing text matcher fails.")]
  Regex(#[from] RegexError),
}

#[derive(Clone)]
pub struct RegexMatcher<L: Language> {
  regex: Regex,
  lang: PhantomData<L>,
}

impl<L: Language> RegexMatcher<L> {
  pub fn try_new(text: &str) -> Result<Self, RegexMatcherError> {
    Ok(RegexMatcher {
      regex: Regex::new(text)?,
      lang: PhantomData,
    })
  }
}

impl<L: Language> Matcher<L> for RegexMatcher<L> {
  fn match_node_with_env<'tree, D: Doc<Lang = L>>(
    &self,
    node: Node<'tree, D>,
    _env: &mut Cow<MetaVarEnv<'tree, D>>,
  ) -> Option<Node<'tree, D>> {
    self.regex.is_match(&node.text()).then_some(node)
  }

  fn potential_kinds(&self) -> Option<BitSet> {
    None
  }
}
