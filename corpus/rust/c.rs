// deeply nested multi-line constructs
fn run(a: i32, b: i32) -> i32 {
    let mut n = b;
    if a > n {
        for x in 0..a {
            while n < x {
                if x == 1 {
                    qux(x, x);
                } else {
                    qux(x, 0);
                }
                n = n + 1;
            }
        }
    }
    return a;
}

fn qux(a: i32, b: i32) -> i32 {
    run(
        qux(
            run(
                1,
                2,
            ),
            run(
                1,
                2,
            ),
        ),
        qux(
            a,
            b,
        ),
    )
}

fn grid() -> Vec<Vec<Vec<i32>>> {
    vec![
        vec![
            vec![
                1,
                2,
            ],
            vec![
                1,
                2,
            ],
        ],
    ]
}

fn f(a: i32) -> impl Fn(i32) -> Box<dyn Fn(i32) -> i32> {
    move |b| {
        Box::new(move |c| {
            /* nested block comment */
            a + b + c
        })
    }
}

mod bar {
    pub mod baz {
        pub struct Baz;

        impl Baz {
            pub fn foo(&self, a: i32) -> i32 {
                match a {
                    1 => {
                        if a > 0 {
                            // nested line comment
                            a + a
                        } else {
                            a
                        }
                    }
                    _ => 0,
                }
            }
        }
    }
}
