use super::OverwriteArgs;
use crate::lang::SgLang;
use crate::utils::ErrorContext as EC;

use anyhow::Result;
use ast_grep_config::{RuleConfig, Severity};
use ast_grep_core::Language;
use regex::Regex;

use std::collections::HashMap;

#[derive(Default)]
pub struct RuleOverwrite {
  default_severity: Option<Severity>,
  by_rule_id: HashMap<String, Severity>,
  rule_filter: Option<Regex>,
}

fn read_severity(
  severity: Severity,
  ids: &Option<Vec<String>>,
  by_rule_id: &mut HashMap<String, Severity>,
  default_severity: &mut Option<Severity>,
) {
  let Some(ids) = ids.as_ref() else { return };
  if ids.is_empty() {
    *default_severity = Some(severity);
    return;
  }
  for id in ids {
    by_rule_id.insert(id.clone(), severity.clone());
  }
}

impl RuleOverwrite {
  pub fn new(cli: &OverwriteArgs) -> Result<Self> {
    let mut default_severity = None;
    let mut by_rule_id = HashMap::new();
    read_severity(
      Severity::Error,
      &cli.error,
      &mut by_rule_id,
      &mut default_severity,
    );
    read_severity(
      Severity::Warning,
      &cli.warning,
      &mut by_rule_id,
      &mut default_severity,
    );
    read_severity(
      Severity::Info,
      &cli.info,
      &mut by_rule_id,
      &mut default_severity,
    );
    read_severity(
      Severity::Hint,
      &cli.hint,
      &mut by_rule_id,
      &mut default_severity,
    );
    read_severity(
      Severity::Off,
      &cli.off,
      &mut by_rule_id,
      &mut default_severity,
    );
    Ok(Self {
      default_severity,
      by_rule_id,
      rule_filter: cli.filter.clone(),
    })
  }

  pub fn process_configs(
    &self,
    configs: Vec<RuleConfig<SgLang>>,
  ) -> Result<Vec<RuleConfig<SgLang>>> {
    let mut configs = if let Some(filter) = &self.rule_filter {
      filter_rule_by_regex(configs, filter)?
    } else {
      configs
    };
    for config in &mut configs {
      let overwrite = self.find(&config.id);
      overwrite.overwrite(config);
    }
    Ok(configs)
  }

  pub fn find(&self, id: &str) -> OverwriteResult {
    let severity = self
      .by_rule_id
      .get(id)
      .cloned()
      .or_else(|| self.default_severity.clone());
    OverwriteResult { severity }
  }
}

fn filter_rule_by_regex(
  configs: Vec<RuleConfig<SgLang>>,
  filter: &Regex,
) -> Result<Vec<RuleConfig<SgLang>>> {
  let selected: Vec<_> = configs
    .into_iter()
    .filter(|c| filter.is_match(&c.id))
    .collect();

  if selected.is_empty() {
    Err(anyhow::anyhow!(EC::RuleNotFound(filter.to_string())))
  } else {
    Ok(selected)
  }
}

pub struct OverwriteResult {
  pub severity: Option<Severity>,
}

impl OverwriteResult {
  fn overwrite<L>(&self, rule: &mut RuleConfig<L>)
  where
    L: Language,
  {
    if let Some(severity) = &self.severity {
      rule.severity = severity.clone();
    }
  }
}
