fn main() {
    let a = r#""#;
    let b = "";
    let c = r"";
    println!("{}{}{}", a, b, c);
    f(r#""#, 1);
}

fn f(_s: &str, _n: i32) {}

/// Adds one.
/// Second line of the doc comment: é
pub fn add_one(x: i32) -> i32 {
    //! inner doc
    x + 1
}

/** block doc */
pub struct Unit;
