fn main() {
    let a = r#""#;
    let b = "";
    let c = r"";
    println!("{}{}{}", a, b, c);
    f(r#""#, 1);
}

fn f(_s: &str, _n: i32) {}
