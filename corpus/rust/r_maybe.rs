use schemars::{gen::SchemaGenerator, schema::Schema, JsonSchema};
use serde::{de, ser, Deserialize, Serialize};
use std::borrow::Cow;

#[derive(Clone, PartialEq, Eq, Debug, Copy, Default)]
pub enum Maybe<T> {
  #[default]
  Absent,
  Present(T),
}

impl<T> Maybe<T> {
  pub fn is_present(&self) -> bool {
    matches!(self, Maybe::Present(_))
  }
  pub fn is_absent(&self) -> bool {
    matches!(self, Maybe::Absent)
  }
  pub fn unwrap(self) -> T {
    match self {
      Maybe::Absent => panic!("called `Maybe::unwrap()` on an `Absent` value"),
      Maybe::Present(t) => t,
    }
  }
}

impl<T> From<Maybe<T>> for Option<T> {
  fn from(maybe: Maybe<T>) -> Self {
    match maybe {
      Maybe::Present(v) => Some(v),
      Maybe::Absent => None,
    }
  }
}

impl<T> From<Option<T>> for Maybe<T> {
  fn from(opt: Option<T>) -> Maybe<T> {
    match opt {
      Some(v) => Maybe::Present(v),
      None => Maybe::Absent,
    }
  }
}

const ERROR_STR: &str = r#"Maybe fields need to be annotated with:
  #[serde(default, skip_serializing_if = "Maybe::is_absent")]"#;

impl<T: Serialize> Serialize for Maybe<T> {
  fn serialize<S>(&self, serializer: S) -> Result<S::Ok, S::Error>
  where
    S: serde::Serializer,
  {
    match self {
      Maybe::Absent => Err(ser::Error::custom(ERROR_STR)),
      Maybe::Present(t) => T::serialize(t, serializer),
    }
  }
}

impl<'de, T: Deserialize<'de>> Deserialize<'de> for Maybe<T> {
  fn deserialize<D>(deserializer: D) -> Result<Self, D::Error>
  where
    D: serde::Deserializer<'de>,
  {
    match Option::deserialize(deserializer)? {
      Some(t) => Ok(Maybe::Present(t)),
      None => Err(de::Error::custom("Maybe field cannot be null.")),
    }
  }
}

impl<T: JsonSchema> JsonSchema for Maybe<T> {
  fn schema_name() -> String {
    format!("Maybe_{}", T::schema_name())
  }
  fn schema_id() -> Cow<'static, str> {
    Cow::Owned(format!("Maybe<{}>", T::schema_id()))
  }
  fn json_schema(gen: &mut SchemaGenerator) -> Schema {
    gen.subschema_for::<T>()
  }

  fn _schemars_private_non_optional_json_schema(gen: &mut SchemaGenerator) -> Schema {
    T::_schemars_private_non_optional_json_schema(gen)
  }

  fn _schemars_private_is_option() -> bool {
    true
  }
}

#[cfg(test)]
mod test {
  use super::*;
  use crate::from_str;

  #[derive(Serialize, Deserialize, Debug)]
  struct Correct {
    #[serde(default, skip_serializing_if = "Maybe::is_absent")]
    a: Maybe<i32>,
  }
  #[derive(Serialize, Deserialize, Debug)]
  struct Wrong {
    #[serde(skip_serializing_if = "Maybe::is_absent")]
    a: Maybe<i32>,
  }

  #[test]
  fn test_de_correct_ok() {
    let correct: Correct = from_str("a: 123").expect("should ok");
    assert!(matches!(correct.a, Maybe::Present(123)));
    let correct: Correct = from_str("").expect("should ok");
    assert!(matches!(correct.a, Maybe::Absent));
  }
  #[test]
  fn test_de_correct_err() {
    let ret: Result<Correct, _> = from_str("a:");
    assert!(ret.is_err());
    let err = ret.unwrap_err().to_string();
    assert!(err.contains("cannot be null"));
  }
  #[test]
  fn test_de_wrong_err() {
    let wrong: Wrong = from_str("a: 123").expect("should ok");
    assert!(matches!(wrong.a, Maybe::Present(123)));
    let wrong: Result<Wrong, _> = from_str("a:");
    assert!(wrong.is_err());
    let wrong: Result<Wrong, _> = from_str("");
    assert!(wrong.is_err());
  }

  #[test]
  #[should_panic]
  fn test_unwrap_absent() {
    let nothing: Maybe<()> = Maybe::Absent;
    nothing.unwrap();
  }

  #[test]
  fn test_from_optio() {
    let mut maybe = Maybe::from(None);
    assert!(maybe.is_absent());
    maybe = Maybe::from(Some(123));
    assert!(maybe.is_present());
  }
}
