# commentaire: café, naïve, 日本語 😀
defmodule Qux.Cafe do
  @callback foo(integer) :: integer
end

defmodule Qux.Baz do
  @moduledoc """
  heredoc doc: héllo wörld
  """
  @behaviour Qux.Cafe
  defstruct a: 0, b: 0, naïve: "日本語"

  alias Qux.Baz
  import Enum, only: [map: 2, filter: 2]
  require Logger

  @impl true
  def foo(x), do: x + 1

  def bar(x, y) do
    %Baz{a: x, b: y}
  end

  @spec id(any, list) :: any
  def id(café, c \\ []) when is_list(c) do
    # ünïcödé comment inside a function
    café
  end

  def run(a \\ 1, b \\ 2) do
    café = "héllo wörld"
    naïve = "日本語"
    s = "😀"
    c = 3

    id(café, [1, 1])
    id(naïve, [1, 2, 3, 3])
    bar(a, a).a
    bar(foo(foo(1)), foo(foo(1)))

    list = ["é", "é", "ü", "😀", "😀",]
    obj = %{
      "café" => 1,
      "naïve" => 2,
      foo: [1, 2, 3],
      bar: %{a: "日本語", b: "日本語"},
    }

    for x <- list do
      id(x, [1]) # trailing: ünïcödé
    end

    case a do
      1 -> bar(a, a)
      n when n in [2, 3] -> bar(b, b)
      _ -> bar(c, c)
    end

    try do
      bar(a, b)
    rescue
      e in RuntimeError -> Logger.error(e.message)
    after
      bar(c, c)
    end

    with {:ok, v} <- Map.fetch(obj, "café"),
         {:ok, w} <- Map.fetch(obj, "naïve") do
      v + w
    else
      :error -> 0
    end

    r = list |> filter(fn x -> x == "é" end) |> map(fn x -> x <> x end)
    msg = "interp #{café} #{s}"
    unless a > 10, do: id(msg)
    %Baz{a: x} = bar(1, 2)
    {r, x}
  end
end
