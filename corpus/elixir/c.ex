# deeply nested multi-line constructs
defmodule Foo do
  defmodule Bar do
    defmodule Baz do
      def foo(a) do
        if a > 0 do
          try do
            bar(a, a)
          rescue
            e ->
              # nested comment
              bar(e, 0)
          end
        end
      end

      def bar(a, b), do: a + b
    end
  end

  def run(a, b) do
    if a > b do
      for x <- 0..a do
        case x do
          1 ->
            if b < x do
              qux(x, x)
            else
              qux(x, 0)
            end

          _ ->
            qux(0, 0)
        end
      end
    end

    a
  end

  def qux(a, b) do
    run(
      qux(
        run(
          1,
          2
        ),
        run(
          1,
          2
        )
      ),
      qux(
        a,
        b
      )
    )
  end

  def obj() do
    %{
      a: %{
        b: %{
          c: [
            1,
            2,
            [
              3,
              4,
            ],
          ],
          x: "x"
        },
        y: run(1, 2)
      }
    }
  end

  def f() do
    fn a ->
      fn b ->
        fn c ->
          a + b + c
        end
      end
    end
  end
end
