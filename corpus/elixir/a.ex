# line comment at the top
defmodule A do
  @moduledoc "module doc"
  @max 10

  def foo(a, b, c) do
    x = a + b
    y = b * c
    x + y
  end

  def bar(x) do
    x * 2
  end

  def baz(), do: 0

  defp qux(a, b \\ 2), do: a - b

  def main() do
    a = 1
    b = 2.5
    c = 0x1F
    x = foo(a, a, a)
    y = bar(x) + bar(x)
    z = foo(bar(1), baz(), foo(1, 2, 3))

    # calls with zero, one, two, three arguments
    baz()
    bar(a)
    foo(a, a, c)
    foo(a, a, a) # trailing comment
    foo(
      a, # first
      a,
      c
    )
    IO.puts "no parens"
    IO.inspect(x, label: "x")

    list = [1, 2, 3]
    list2 = [a, a, c, c,]
    nested = [[1, 2], [1, 2], [a, [b, [c]]]]
    empty = []
    t = {a, a, c,}
    m = %{"a" => 1, "b" => 2, "c" => 3}
    m2 = %{a: a, b: a, foo: bar(x),}
    kw = [a: 1, b: 1]
    atom = :foo
    s1 = "hello\n\tworld \"quoted\""
    s2 = 'char list'
    [h | rest] = list

    x =
      if a < c do
        a
      else
        c
      end

    y =
      cond do
        a < c -> a
        a == c -> c
        true -> x
      end

    for i <- 0..9 do
      bar(i)
      bar(i)
    end

    Enum.each(list, fn v -> bar(v) end)
    Enum.map(list, &bar/1)
    Enum.reduce(list, 0, fn v, acc -> v + acc end)

    fn1 = fn a, b -> a - b end
    fn1.(a, a)
    w = a + c * c - div(a + c, c)
    ok = (a > 0 and c > 0) or not (x > 0)
    s = s1 <> "tail"
    list |> Enum.map(&bar/1) |> Enum.sum()
    {x, y, z, w, ok, s, h, rest, t, m, m2, kw, atom, s2, b, list2, nested, empty}
  end
end
