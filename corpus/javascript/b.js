// commentaire: café, naïve, 日本語
/* block: héllo wörld 😀 */
const café = "héllo wörld";
const naïve = '日本語';
let x = "😀";
let y = "mixed ascii and ünïcödé é \n";

function foo(café, naïve) {
  // ünïcödé comment inside a function
  return café + naïve;
}

function bar(a, b = 2, ...c) {
  let x = a + b;
  return [x, x, c];
}

class Baz {
  constructor(a, b) {
    this.a = a;
    this.b = b;
  }

  foo(x) {
    return this.a + x;
  }

  static bar(x, y) {
    return new Baz(x, y);
  }
}

foo(café, café);
foo(naïve, "日本語");
bar(x) + bar(x);
foo(bar(1), bar(2, 3));
foo(bar("é"), bar("é"), /* 😀 */ bar("é"));

const obj = {
  café: 1,
  "naïve": 2,
  foo: [1, 2, 3,],
  bar: { a: "日本語", b: "日本語" },
};

const list = ["é", "é", "ü", "😀", "😀",];
const { a, b } = obj;
const [c, ...rest] = list;

for (const x of list) {
  foo(x, x); // trailing: ünïcödé
}

for (const y in obj) {
  bar(y);
}

switch (x) {
  case "😀":
    foo(a, a);
    break;
  case "é":
    bar(a);
    break;
  default:
    bar(b);
}

try {
  foo(a, b);
} catch (e) {
  bar(e);
} finally {
  bar(c);
}

do {
  x = x + "é";
} while (x.length < 10);

const baz = new Baz(1, 2);
baz.foo(1);
Baz.bar(a, a).foo(b);
