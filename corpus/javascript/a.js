// line comment at the top
/* block comment at the top */
function foo(a, b, c) {
  var x = a + b;
  var y = b * c;
  return x + y;
}

function bar(x) {
  return x * 2;
}

function baz() {
  return 0;
}

var a = 1;
var b = 2.5;
var c = 0x1f;
let x = foo(a, a, a);
let y = bar(x) + bar(x);
const z = foo(bar(1), baz(2, 3), baz());

// call with zero, one, two, three arguments
baz();
bar(a);
foo(a, b);
foo(a, b, c);
foo(a, b, c, x, y);
foo(a, a); // trailing comment
foo(
  a, // first
  /* second */ b,
  c,
);

var list = [1, 2, 3];
var list2 = [a, a, b, b,];
var nested = [[1, 2], [1, 2], [a, [b, [c]]]];
var empty = [];
var obj = { a: 1, b: 2, c: 3 };
var obj2 = { a: a, b: a, foo: bar(x), };
var obj3 = {};
var s1 = "hello\n\tworld \"quoted\"";
var s2 = 'single \'quoted\' \\ backslash';
var s3 = `template text`;

if (a < b) {
  x = a;
  y = b;
} else if (a === b) {
  x = b;
} else {
  x = c;
  y = c;
}

for (var i = 0; i < 10; i++) {
  x = x + i;
  bar(x);
}

while (x > 0) {
  x = x - 1;
  /* inside loop */
  y = y + bar(x) + bar(x);
}

var fn = function (a, b) {
  return a - b;
};
var arrow = (a, b) => a + b;
var arrow2 = (x) => {
  return foo(x, x, x);
};
x = a + b * c - (a + b) / c;
y = a && b || !c;
x += 1;
y = x ? a : b;
