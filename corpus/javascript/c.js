// deeply nested multi-line constructs
function foo(a, b) {
  if (a > b) {
    for (let x = 0; x < a; x++) {
      while (b < x) {
        if (x === 1) {
          bar(x, x);
        } else {
          baz(x);
        }
        b = b + 1;
      }
    }
  }
  return a;
}

const obj = {
  a: {
    b: {
      c: [
        1,
        2,
        [
          3,
          4,
        ],
      ],
      x: "x",
    },
    y: foo(1, 2),
  },
  foo: function (a) {
    return {
      bar: [
        a,
        a,
      ],
    };
  },
};

foo(
  bar(
    baz(
      1,
      2,
    ),
    baz(
      1,
      2,
    ),
  ),
  [
    a,
    b,
  ],
);

const x = bar((a) => {
  return baz((b) => {
    return foo((c) => {
      return a + b + c;
    }, 1);
  }, 2);
}, 3);

class Bar {
  foo(a) {
    if (a) {
      try {
        baz(a, a);
      } catch (e) {
        /* nested block comment */
        baz(e);
      }
    }
  }
}
