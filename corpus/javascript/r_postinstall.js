let fs = require('fs');
let path = require('path');

let parts = [process.platform, process.arch];
if (process.platform === 'linux') {
  const {MUSL, family} = require('detect-libc');
  if (family === MUSL) {
    parts.push('musl');
  } else if (process.arch === 'arm') {
    parts.push('gnueabihf');
  } else {
    parts.push('gnu');
  }
} else if (process.platform === 'win32') {
  parts.push('msvc');
}

let binary = process.platform === 'win32' ? 'ast-grep.exe' : 'ast-grep';
let alternative = process.platform === 'win32' ? 'sg.exe' : 'sg';

let pkgPath;
try {
  pkgPath = path.dirname(require.resolve(`@ast-grep/cli-${parts.join('-')}/package.json`));
} catch (err) {
  pkgPath = path.join(__dirname, '..', 'target', 'release');
  if (!fs.existsSync(path.join(pkgPath, binary))) {
    pkgPath = path.join(__dirname, '..', 'target', 'debug');
  }
}

try {
  fs.linkSync(path.join(pkgPath, binary), path.join(__dirname, binary));
  fs.linkSync(path.join(pkgPath, binary), path.join(__dirname, alternative));
} catch (err) {
  try {
    fs.copyFileSync(path.join(pkgPath, binary), path.join(__dirname, binary));
    fs.copyFileSync(path.join(pkgPath, binary), path.join(__dirname, alternative));
  } catch (err) {
    console.error('Failed to move @ast-grep/cli binary into place.');
    process.exit(1);
  }
}

if (process.platform === 'win32') {
  try {
    fs.unlinkSync(path.join(__dirname, 'sg'));
    fs.unlinkSync(path.join(__dirname, 'ast-grep'));
  } catch (err) {}
}