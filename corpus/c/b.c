// commentaire: café, naïve, 日本語 😀
/* block: héllo wörld */
#include <stdlib.h>
#include <string.h>

typedef struct node {
  int a;
  int b;
  struct node *next;
} node_t;

typedef int (*fn_t)(int, int);

static const char *café = "héllo wörld";
static const char *naïve = "日本語";
static int x = 0, y = 0;

static int foo(int a, int b) {
  // ünïcödé comment inside a function
  return a + b;
}

static int bar(int a, ...) {
  int x = a + 2;
  return x;
}

node_t *baz(int a, int b) {
  node_t *n = malloc(sizeof(node_t));
  n->a = a;
  n->b = b;
  n->next = NULL;
  return n;
}

void qux(void) {
  const char *s = "😀";
  const char *t = "mixed ascii and ünïcödé é \n";
  int a = 1, b = 2, c = 3;
  fn_t f = foo;

  foo(a, a);
  foo(b, strlen("日本語"));
  bar(1) + bar(1);
  foo(foo(1, 1), foo(1, 1));
  bar(1, 2, /* 😀 */ 3, 3);
  f(a, a);
  (*f)(b, b);

  const char *list[] = {"é", "é", "ü", "😀", "😀",};
  int m[2][3] = {{1, 2, 3}, {1, 2, 3}};

  switch (a) {
    case 1:
      foo(a, a);
      break;
    case 2:
    case 3:
      bar(a);
      break;
    default:
      bar(b); // trailing: ünïcödé
  }

  do {
    a = a + 1;
  } while (a < 10);

  for (;;) {
    if (a > c) break;
    a++;
    continue;
  }

  node_t *n = baz(1, 2);
  n->a = n->a + n->b;
  int *p = &a;
  *p = (int)sizeof(list) / sizeof(list[0]);
  free(n);
  goto done;
done:
  return;
}
