// line comment at the top
/* block comment at the top */
#include <stdio.h>
#include "foo.h"
#define MAX 10

int foo(int a, int b, int c) {
  int x = a + b;
  int y = b * c;
  return x + y;
}

int bar(int x) {
  return x * 2;
}

int baz(void) {
  return 0;
}

struct point {
  int x;
  int y;
};

enum color { RED, GREEN, BLUE, };

int main(int argc, char **argv) {
  int a = 1;
  double b = 2.5;
  int c = 0x1f;
  int x = foo(a, a, a);
  int y = bar(x) + bar(x);
  int z = foo(bar(1), baz(), foo(1, 2, 3));

  // calls with zero, one, two, three arguments
  baz();
  bar(a);
  foo(a, a, c);
  foo(a, a, a); // trailing comment
  foo(
    a, // first
    /* second */ a,
    c
  );

  int list[] = {1, 2, 3};
  int list2[4] = {a, a, c, c,};
  int nested[2][2] = {{1, 2}, {1, 2}};
  struct point p = { .x = 1, .y = 1 };
  struct point q = {a, a};
  const char *s1 = "hello\n\tworld \"quoted\"";
  char ch = '\n';
  char ch2 = 'a';

  if (a < c) {
    x = a;
    y = c;
  } else if (a == c) {
    x = c;
  } else {
    x = c;
    y = c;
  }

  for (int i = 0; i < MAX; i++) {
    x = x + i;
    bar(x);
  }

  while (x > 0) {
    x = x - 1;
    /* inside loop */
    y = y + bar(x) + bar(x);
  }

  x = a + c * c - (a + c) / c;
  y = a && c || !c;
  x += 1;
  y = x ? a : c;
  p.x = q.x + q.y;
  printf("%d %d\n", x, y);
  return 0;
}
