// deeply nested multi-line constructs
int bar(int a, int b);
int baz(int a);

int foo(int a, int b) {
  if (a > b) {
    for (int x = 0; x < a; x++) {
      while (b < x) {
        if (x == 1) {
          bar(x, x);
        } else {
          baz(x);
        }
        b = b + 1;
      }
    }
  }
  return a;
}

struct outer {
  struct middle {
    struct inner {
      int a;
      int b;
    } c;
    int x;
  } m;
  int y;
};

struct outer obj = {
  .m = {
    .c = {
      .a = 1,
      .b = 2,
    },
    .x = 3,
  },
  .y = 4,
};

int grid[2][2][2] = {
  {
    {
      1,
      2,
    },
    {
      1,
      2,
    },
  },
  {
    {3, 4},
    {3, 4},
  },
};

int qux(int a, int b) {
  return foo(
    bar(
      baz(
        1
      ),
      baz(
        1
      )
    ),
    bar(
      a,
      b
    )
  );
}

void nested(int a) {
  switch (a) {
    case 1: {
      do {
        if (a) {
          /* nested block comment */
          baz(a);
        }
      } while (0);
      break;
    }
  }
}
