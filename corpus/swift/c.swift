// deeply nested multi-line constructs
func run(_ a: Int, _ b: Int) -> Int {
    var n = b
    if a > n {
        for x in 0..<a {
            while n < x {
                if x == 1 {
                    qux(x, x)
                } else {
                    qux(x, 0)
                }
                n = n + 1
            }
        }
    }
    return a
}

func qux(_ a: Int, _ b: Int) -> Int {
    return run(
        qux(
            run(
                1,
                2
            ),
            run(
                1,
                2
            )
        ),
        qux(
            a,
            b
        )
    )
}

let obj = [
    "a": [
        "b": [
            [
                1,
                2,
            ],
            [
                1,
                2,
            ],
        ],
    ],
]

let f = { (a: Int) in
    return { (b: Int) in
        return { (c: Int) in
            /* nested block comment */
            return a + b + c
        }
    }
}

struct Bar {
    struct Baz {
        func foo(_ a: Int) {
            if a > 0 {
                do {
                    try bar(a)
                } catch {
                    // nested line comment
                    print(a)
                }
            }
        }

        func bar(_ a: Int) throws {
        }
    }
}
