// line comment at the top
/* block comment at the top */
import Foundation

func foo(_ a: Int, _ b: Int, _ c: Int) -> Int {
    let x = a + b
    let y = b * c
    return x + y
}

func bar(_ x: Int) -> Int {
    return x * 2
}

func baz() -> Int {
    return 0
}

struct Point {
    var x: Int
    var y: Int
}

enum Color {
    case red, green, blue
}

let a = 1
let b = 2.5
let c = 0x1f
var x = foo(a, a, a)
var y = bar(x) + bar(x)
let z: Int = foo(bar(1), baz(), foo(1, 2, 3))

// calls with zero, one, two, three arguments
baz()
bar(a)
foo(a, a, c)
foo(a, a, a) // trailing comment
foo(
    a, // first
    /* second */ a,
    c
)

let list = [1, 2, 3]
let list2 = [a, a, c, c,]
let nested = [[1, 2], [1, 2], []]
let d = ["a": 1, "b": 1]
let d2 = ["a": a, "b": a,]
let t = (a, a, c)
let p = Point(x: 1, y: 1)
let q = Point(x: a, y: a)
let s1 = "hello\n\tworld \"quoted\""

if a < c {
    x = a
    y = c
} else if a == c {
    x = c
} else {
    x = c
    y = c
}

for i in 0..<10 {
    x = x + i
    bar(x)
}

for v in list {
    bar(v)
}

while x > 0 {
    x = x - 1
    /* inside loop */
    y = y + bar(x) + bar(x)
}

let fn1 = { (a: Int, b: Int) -> Int in
    return a - b
}
x = a + c * c - (a + c) / c
let ok = a > 0 && c > 0 || !(x > 0)
x += 1
y = x > 0 ? a : c
print(x, y)
