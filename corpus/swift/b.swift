// commentaire: café, naïve, 日本語 😀
/* block: héllo wörld /* nested block */ */
/// doc comment: ünïcödé
protocol Café {
    func foo(x: Int) -> Int
}

class Base {
    let a: Int
    init(a: Int) {
        self.a = a
    }
}

class Baz: Base, Café {
    var b: Int
    let naïve: String = "日本語"

    init(a: Int, b: Int) {
        self.b = b
        super.init(a: a)
    }

    func foo(x: Int) -> Int {
        return a + x
    }

    static func bar(_ x: Int, _ y: Int) -> Baz {
        return Baz(a: x, b: y)
    }
}

func id<T>(_ café: T, _ c: Int...) -> T {
    // ünïcödé comment inside a function
    return café
}

func run(a: Int = 1, b: Int = 2) throws {
    let café = "héllo wörld"
    let naïve = "日本語"
    let s = "😀"
    let c = 3
    var n = a

    id(café, 1, 1)
    id(naïve, 1, 2, /* 😀 */ 3, 3)
    Baz.bar(a, a).foo(x: b)
    Baz.bar(Baz.bar(1, 1).foo(x: 1), Baz.bar(1, 1).foo(x: 1))

    let list = ["é", "é", "ü", "😀", "😀",]
    let r = list.filter { x in x == "é" }.map { x in x + x }

    for x in list {
        id(x, 1) // trailing: ünïcödé
    }

    switch a {
    case 1:
        Baz.bar(a, a)
    case 2, 3:
        Baz.bar(b, b)
    default:
        Baz.bar(c, c)
    }

    do {
        try run(a: a, b: b)
    } catch {
        print(error)
    }

    repeat {
        n = n + 1
    } while n < 10

    let o: String? = nil
    let len = o?.count ?? 0
    if let v = o {
        id(v, len)
    }
    guard n > 0 else {
        return
    }
    print("interp \(café) \(s)")
}
