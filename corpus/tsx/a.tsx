// line comment
/* block comment */
import React from "react";

interface Props {
  a: number;
  b: string;
  c?: boolean;
}

function foo(a: number, b: number, c: number): number {
  const x = a + b;
  const y = b * c;
  return x + y;
}

function bar(x: number): number {
  return x * 2;
}

function baz(): number {
  return 0;
}

let a = 1;
let b = 2.5;
let c = 3;
let x = foo(a, a, a);
let y = bar(x) + bar(x);
const z = foo(bar(1), bar(2), foo(1, 2, 3));

baz();
bar(a);
foo(a, b, c);
foo(a, a, a); // trailing comment
foo(
  a, // first
  /* second */ b,
  c,
);

const list = [1, 2, 3];
const list2 = [a, a, b, b,];
const obj = { a: 1, b: "two", c: true };
const obj2 = { x: a, y: a, };
const s1 = "hello\n\tworld \"quoted\"";

function Foo(props: Props) {
  if (props.c) {
    return <span>{props.b}</span>;
  } else {
    return <span className="foo">{props.a}</span>;
  }
}

function Bar(props: Props) {
  return (
    <div className="bar" id="bar">
      <Foo a={1} b="x" />
      <Foo a={1} b="x" />
      <Foo a={a} b="y" c={true} />
      {/* jsx comment */}
      <ul>
        <li>one</li>
        <li>one</li>
        <li>{bar(x) + bar(x)}</li>
      </ul>
    </div>
  );
}

for (let i = 0; i < 10; i++) {
  x = x + i;
  bar(x);
}

while (x > 0) {
  x = x - 1;
  y = y + bar(x);
}

const arrow = (a: number, b: number): number => a + b;
const el = <Bar a={1} b="b" />;
export default Bar;
