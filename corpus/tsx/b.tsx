// commentaire: café, naïve, 日本語
/* block: héllo wörld 😀 */
import React, { useState } from "react";

const café: string = "héllo wörld";
const naïve: string = '日本語';
let x: string = "😀";

type Props = {
  café: string,
  naïve?: number,
};

function foo(café: string, naïve: string): string {
  // ünïcödé comment
  return café + naïve;
}

function bar(a: number, b: number = 2, ...c: number[]): number[] {
  const x = a + b;
  return [x, x, ...c];
}

const Baz = (props: Props) => {
  const [a, setA] = useState(0);
  const [b, setB] = useState(0);
  return (
    <div title="héllo wörld">
      <p>日本語 text é</p>
      <p>日本語 text é</p>
      <button onClick={() => setA(a + 1)}>😀</button>
      <button onClick={() => setB(b + 1)}>😀</button>
      {foo(café, café)}
      {props.café}
    </div>
  );
};

foo(café, café);
foo(naïve, "日本語");
bar(1) + bar(1);
foo(foo("é", "é"), foo("é", "é"));
bar(1, 2, /* 😀 */ 3, 3,);

const obj = {
  café: 1,
  "naïve": 2,
  foo: [1, 2, 3,],
  bar: { a: "日本語", b: "日本語" },
};

const list: string[] = ["é", "é", "ü", "😀", "😀",];
const items = list.map((x) => <li key={x}>{x}</li>);
const frag = (
  <>
    <Baz café="é" />
    <Baz café="é" naïve={1} />
  </>
);

for (const x of list) {
  foo(x, x); // trailing: ünïcödé
}

switch (x) {
  case "😀":
    foo(x, x);
    break;
  default:
    bar(1);
}

try {
  foo(x, x);
} catch (e) {
  bar(2);
}

export { Baz, items, frag };
