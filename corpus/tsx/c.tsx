// deeply nested multi-line constructs
function foo(a: number, b: number): number {
  if (a > b) {
    for (let x = 0; x < a; x++) {
      while (b < x) {
        if (x === 1) {
          bar(x, x);
        } else {
          baz(x);
        }
        b = b + 1;
      }
    }
  }
  return a;
}

const obj = {
  a: {
    b: {
      c: [
        1,
        2,
        3,
      ],
      x: "x",
    },
    y: foo(1, 2),
  },
};

function Foo(props: { a: number[], b: string }) {
  return (
    <div className="a">
      <section>
        <ul>
          {props.a.map((x) => (
            <li key={x}>
              <span>
                {x}
              </span>
            </li>
          ))}
        </ul>
        <ul>
          <li>
            <a href="x">
              {props.b}
            </a>
          </li>
        </ul>
      </section>
    </div>
  );
}

foo(
  bar(
    baz(
      1,
    ),
    baz(
      1,
    ),
  ),
  2,
);

const el = (
  <Foo
    a={[
      1,
      2,
    ]}
    b="b"
  />
);

declare function bar(a: any, b?: any): any;
declare function baz(a: any, b?: any): any;
