-- line comment at the top
{- block comment at the top -}
module A (foo, bar, baz, main) where

import Data.List (sort, nub)
import qualified Data.Map as Map

foo :: Int -> Int -> Int -> Int
foo a b c = x + y
  where
    x = a + b
    y = b * c

bar :: Int -> Int
bar x = x * 2

baz :: Int
baz = 0

data Point = Point { px :: Int, py :: Int } deriving (Show, Eq)

data Color = Red | Green | Blue deriving (Show)

a, c :: Int
a = 1
c = 0x1f

b :: Double
b = 2.5

x1 :: Int
x1 = foo a a a

y1 :: Int
y1 = bar x1 + bar x1

z1 :: Int
z1 = foo (bar 1) baz (foo 1 2 3)

-- list, tuple and record literals
list1 :: [Int]
list1 = [1, 2, 3]

list2 :: [Int]
list2 = [a, a, c, c]

nested :: [[Int]]
nested = [[1, 2], [1, 2], []]

t :: (Int, Int, Int)
t = (a, a, c)

p :: Point
p = Point { px = 1, py = 1 }

q :: Point
q = Point a a

s1 :: String
s1 = "hello\n\tworld \"quoted\""

pick :: Int -> Int -> Int
pick m n =
  if m < n
    then m
    else n -- trailing comment

classify :: Int -> String
classify n
  | n < 0 = "neg"
  | n == 0 = "zero"
  | otherwise = "pos"

fn1 :: Int -> Int -> Int
fn1 = \m n -> m - n

w :: Int
w = a + c * c - (a + c) `div` c

ok :: Bool
ok = a > 0 && c > 0 || not (x1 > 0)

main :: IO ()
main = do
  let v = foo a a c
  {- inside do -}
  print v
  print (bar v + bar v)
  mapM_ print (map bar list1)
  putStrLn (s1 ++ "tail")
