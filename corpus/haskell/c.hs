-- deeply nested multi-line constructs
module Foo where

run :: Int -> Int -> Int
run a b =
  if a > b
    then
      case a of
        1 ->
          if b < a
            then qux a a
            else qux a 0
        _ ->
          let x = a + b
              y = a + b
           in x + y
    else a

qux :: Int -> Int -> Int
qux a b =
  run
    ( qux
        ( run
            1
            2
        )
        ( run
            1
            2
        )
    )
    ( qux
        a
        b
    )

grid :: [[[Int]]]
grid =
  [ [ [ 1
      , 2
      ]
    , [ 1
      , 2
      ]
    ]
  , [ [ 3
      , 4
      ]
    ]
  ]

f :: Int -> Int -> Int -> Int
f =
  \a ->
    \b ->
      \c ->
        {- nested block comment -}
        a + b + c

nested :: Int -> IO ()
nested a = do
  print a
  if a > 0
    then do
      print a
      case a of
        1 -> do
          -- nested line comment
          print (qux a a)
          print (qux a a)
        _ -> return ()
    else return ()
  where
    bar x = baz x + baz x
      where
        baz y = y + inner y
          where
            inner z = z
