-- commentaire: café, naïve, 日本語 😀
{- block: héllo wörld {- nested block -} -}
-- | haddock comment: ünïcödé
module Qux where

import Data.Maybe (fromMaybe)
import qualified Data.Map as Map

class Café f where
  foo :: f -> Int -> Int

data Baz = Baz
  { bazA :: Int
  , bazB :: Int
  , naïve :: String
  }

instance Café Baz where
  foo z x = bazA z + x

newtype Wrap a = Wrap a

type Name = String

café :: String
café = "héllo wörld"

smile :: String
smile = "😀"

bar :: Int -> Int -> Baz
bar x y = Baz { bazA = x, bazB = y, naïve = "日本語" }

ident :: a -> [Int] -> a
ident v _ = v -- ünïcödé trailing comment

items :: [String]
items = ["é", "é", "ü", "😀", "😀"]

obj :: Map.Map String [Int]
obj = Map.fromList [("café", [1, 2, 3]), ("naïve", [1, 2, 3])]

color :: Int -> String
color n = case n of
  1 -> "é"
  2 -> "ü"
  _ -> "日本語"

len :: Maybe String -> Int
len o = fromMaybe 0 (fmap length o)

pairs :: [(Int, Int)]
pairs = [(x, y) | x <- [1, 2, 3], y <- [1, 2, 3], x == y]

total :: [Int] -> Int
total [] = 0
total (x : xs) = x + total xs

run :: Int -> Int -> IO ()
run a b = do
  let c = 3
      s = ident café [1, 1]
  putStrLn s
  putStrLn (ident smile [1, 2, {- 😀 -} 3, 3])
  print (foo (bar a a) b)
  print (foo (bar 1 1) 1 + foo (bar 1 1) 1)
  mapM_ (\x -> putStrLn (x ++ x)) items
  r <- return (a + b + c)
  if r > 0
    then print r
    else print 0
  let (m, n) = (r, r)
  print (m, n)
