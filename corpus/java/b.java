// commentaire: café, naïve, 日本語 😀
/* block: héllo wörld */
/** javadoc: ünïcödé */
package qux;

import java.util.ArrayList;
import java.util.List;
import java.util.function.Function;

interface Café {
  int foo(int x);
}

enum Color { RED, GREEN, BLUE, }

public class B implements Café {
  private final int a;
  private int b;
  static final String naïve = "日本語";

  public B(int a, int b) {
    this.a = a;
    this.b = b;
  }

  @Override
  public int foo(int x) {
    return a + x;
  }

  public static B bar(int x, int y) {
    return new B(x, y);
  }

  static <T> T id(T café, int... c) {
    // ünïcödé comment inside a method
    return café;
  }

  static void run(int a, int b) throws Exception {
    String café = "héllo wörld";
    String s = "😀";
    int c = 3;

    id(café, 1, 1);
    id(naïve, 1, 2, /* 😀 */ 3, 3);
    bar(a, a).foo(b);
    bar(bar(1, 1).foo(1), bar(1, 1).foo(1));

    String[] list = {"é", "é", "ü", "😀", "😀",};
    List<String> l = new ArrayList<>();
    Function<Integer, Integer> f = (x) -> x + x;
    Function<Integer, Integer> g = x -> {
      return x * x;
    };

    for (String x : list) {
      id(x, 1); // trailing: ünïcödé
    }

    switch (a) {
      case 1:
        bar(a, a);
        break;
      case 2:
      case 3:
        bar(b, b);
        break;
      default:
        bar(c, c);
    }

    try {
      bar(a, b);
    } catch (RuntimeException e) {
      System.out.println(e.getMessage());
    } finally {
      bar(c, c);
    }

    do {
      a = a + 1;
    } while (a < 10);
  }
}
