// line comment at the top
/* block comment at the top */
package corpus;

import java.util.List;
import java.util.Arrays;

public class A {
  static int foo(int a, int b, int c) {
    int x = a + b;
    int y = b * c;
    return x + y;
  }

  static int bar(int x) {
    return x * 2;
  }

  static int baz() {
    return 0;
  }

  public static void main(String[] args) {
    int a = 1;
    double b = 2.5;
    int c = 0x1f;
    int x = foo(a, a, a);
    int y = bar(x) + bar(x);
    int z = foo(bar(1), baz(), foo(1, 2, 3));

    // calls with zero, one, two, three arguments
    baz();
    bar(a);
    foo(a, a, c);
    foo(a, a, a); // trailing comment
    foo(
      a, // first
      /* second */ a,
      c
    );

    int[] list = {1, 2, 3};
    int[] list2 = new int[] {a, a, c, c,};
    int[][] nested = {{1, 2}, {1, 2}, {}};
    List<Integer> l = Arrays.asList(1, 2, 3);
    String s1 = "hello\n\tworld \"quoted\"";
    char ch = '\n';
    long n = 100L;
    boolean t = true;

    if (a < c) {
      x = a;
      y = c;
    } else if (a == c) {
      x = c;
    } else {
      x = c;
      y = c;
    }

    for (int i = 0; i < 10; i++) {
      x = x + i;
      bar(x);
    }

    for (int v : list) {
      bar(v);
    }

    while (x > 0) {
      x = x - 1;
      /* inside loop */
      y = y + bar(x) + bar(x);
    }

    x = a + c * c - (a + c) / c;
    t = a > 0 && c > 0 || !t;
    x += 1;
    y = x > 0 ? a : c;
    System.out.println(x + " " + y);
  }
}
