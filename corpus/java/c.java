// deeply nested multi-line constructs
package foo;

import java.util.function.Function;

public class C {
  int run(int a, int b) {
    if (a > b) {
      for (int x = 0; x < a; x++) {
        while (b < x) {
          if (x == 1) {
            qux(x, x);
          } else {
            qux(x, 0);
          }
          b = b + 1;
        }
      }
    }
    return a;
  }

  int qux(int a, int b) {
    return run(
      qux(
        run(
          1,
          2
        ),
        run(
          1,
          2
        )
      ),
      qux(
        a,
        b
      )
    );
  }

  int[][][] grid = {
    {
      {
        1,
        2,
      },
      {
        1,
        2,
      },
    },
  };

  Function<Integer, Function<Integer, Function<Integer, Integer>>> f = a -> {
    return b -> {
      return c -> {
        /* nested block comment */
        return a + b + c;
      };
    };
  };

  static class Bar {
    static class Baz {
      void foo(int a) {
        if (a > 0) {
          try {
            bar(a);
          } catch (Exception e) {
            // nested line comment
            bar(0);
          }
        }
      }

      void bar(int a) {
      }
    }
  }
}
