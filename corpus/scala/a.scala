// line comment at the top
/* block comment at the top */
package corpus

import scala.collection.mutable
import scala.math.{max, min}

object A {
  def foo(a: Int, b: Int, c: Int): Int = {
    val x = a + b
    val y = b * c
    return x + y
  }

  def bar(x: Int): Int = {
    x * 2
  }

  def baz(): Int = 0

  def main(args: Array[String]): Unit = {
    val a = 1
    val b = 2.5
    val c = 0x1f
    var x = foo(a, a, a)
    var y = bar(x) + bar(x)
    val z = foo(bar(1), baz(), foo(1, 2, 3))

    // calls with zero, one, two, three arguments
    baz()
    bar(a)
    foo(a, a, c)
    foo(a, a, a) // trailing comment
    foo(
      a, // first
      /* second */ a,
      c,
    )
    foo(a = 1, b = 1, c = 2)

    val list = List(1, 2, 3)
    val list2 = List(a, a, c, c)
    val nested = List(List(1, 2), List(1, 2), List())
    val m = Map("a" -> 1, "b" -> 1)
    val t = (a, a, c)
    val arr = Array(1, 2, 3)
    val s1 = "hello\n\tworld \"quoted\""
    val ch = '\n'
    val n = 100L

    if (a < c) {
      x = a
      y = c
    } else if (a == c) {
      x = c
    } else {
      x = c
      y = c
    }

    for (i <- 0 until 10) {
      x = x + i
      bar(x)
    }

    for (v <- list) {
      bar(v)
    }

    while (x > 0) {
      x = x - 1
      /* inside loop */
      y = y + bar(x) + bar(x)
    }

    val fn = (p: Int, q: Int) => p - q
    x = a + c * c - (a + c) / c
    val ok = a > 0 && c > 0 || !(x > 0)
    x += 1
    y = if (x > 0) a else c
    println(x)
    println(max(x, y))
  }
}
