// deeply nested multi-line constructs
package foo

object C {
  def run(a: Int, b: Int): Int = {
    var n = b
    if (a > n) {
      for (x <- 0 to a) {
        while (n < x) {
          if (x == 1) {
            qux(x, x)
          } else {
            qux(x, 0)
          }
          n = n + 1
        }
      }
    }
    return a
  }

  def qux(a: Int, b: Int): Int = {
    run(
      qux(
        run(
          1,
          2
        ),
        run(
          1,
          2
        )
      ),
      qux(
        a,
        b
      )
    )
  }

  val obj = Map(
    "a" -> Map(
      "b" -> List(
        List(
          1,
          2,
        ),
        List(
          1,
          2,
        ),
      ),
    ),
  )

  val f = (a: Int) => {
    (b: Int) => {
      (c: Int) => {
        /* nested block comment */
        a + b + c
      }
    }
  }

  object Bar {
    class Baz {
      def foo(a: Int): Unit = {
        if (a > 0) {
          try {
            bar(a)
          } catch {
            case e: Exception =>
              // nested line comment
              bar(0)
          }
        }
      }

      def bar(a: Int): Unit = {
      }
    }
  }
}
