// commentaire: café, naïve, 日本語 😀
/* block: héllo wörld */
/** scaladoc: ünïcödé */
package qux

trait Café {
  def foo(x: Int): Int
}

case class Point(x: Int, y: Int)

sealed trait Shape
case object Empty extends Shape
case class Circle(r: Int) extends Shape

class Base(val a: Int)

class Baz(a: Int, var b: Int) extends Base(a) with Café {
  val naïve: String = "日本語"

  override def foo(x: Int): Int = {
    a + x
  }
}

object Baz {
  def bar(x: Int, y: Int): Baz = {
    new Baz(x, y)
  }

  def id[T](café: T, c: Int*): T = {
    // ünïcödé comment inside a method
    café
  }

  def run(a: Int = 1, b: Int = 2): Unit = {
    val café = "héllo wörld"
    val naïve = "日本語"
    val s = "😀"
    val c = 3
    var n = a

    id(café, 1, 1)
    id(naïve, 1, 2, /* 😀 */ 3, 3)
    bar(a, a).foo(b)
    bar(bar(1, 1).foo(1), bar(1, 1).foo(1))

    val list = List("é", "é", "ü", "😀", "😀")
    val p = Point(1, 1)
    val q = p.copy(x = 2)
    val r = list.filter(_ == "é").map(x => x + x)
    val r2 = list.map { x =>
      id(x, 1)
    }

    for (x <- list) {
      id(x, 1) // trailing: ünïcödé
    }

    a match {
      case 1 => bar(a, a)
      case 2 | 3 => bar(b, b)
      case _ => bar(c, c)
    }

    try {
      bar(a, b)
    } catch {
      case e: Exception => println(e.getMessage)
    } finally {
      bar(c, c)
    }

    do {
      n = n + 1
    } while (n < 10)

    val o: Option[String] = None
    val len = o.map(_.length).getOrElse(0)
    val ys = for (x <- list if x == "é") yield x + x
  }
}
