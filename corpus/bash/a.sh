#!/bin/bash
# line comment at the top
set -e

foo() {
  local a="$1"
  local b="$2"
  echo "$a $b"
  return 0
}

function bar {
  local x="$1"
  echo "$x" "$x"
}

baz() {
  echo baz
}

a=1
b=2
c="three"
x=$(foo "$a" "$a")
y="$(bar "$x") $(bar "$x")"
z=$((a + b * 2))

# calls with zero, one, two, three arguments
baz
bar a
foo a b
foo a a a # trailing comment
foo "$a" "$a" \
  "$b" \
  "$c"
foo "$(bar 1)" "$(bar 2)"

list=(1 2 3)
list2=(a a b b)
declare -A map=([a]=1 [b]=2)
s1="hello\n\tworld \"quoted\""
s2='single quoted \ backslash'
echo "${list[0]}" "${list[@]}"
echo "${#list[@]}"

if [ "$a" -lt "$b" ]; then
  x=$a
  y=$b
elif [ "$a" -eq "$b" ]; then
  x=$b
else
  x=$c
  y=$c
fi

for i in 1 2 3; do
  x="$x$i"
  bar "$x"
done

for ((i = 0; i < 10; i++)); do
  bar "$i"
done

while [ "$a" -lt 10 ]; do
  a=$((a + 1))
  # inside loop
  bar "$a"
done

case "$c" in
  three)
    foo a a
    ;;
  four | five)
    bar a
    ;;
  *)
    baz
    ;;
esac

[[ -n "$x" && -n "$y" ]] && echo ok || echo no
foo a b | bar c > /dev/null 2>&1
echo "$z" >> /tmp/out.txt
