#!/bin/bash
cat <<EOT
EOT
cat <<EOT
line
EOT
x=""
echo "$x" ''
run() {
  cat <<END
END
}
