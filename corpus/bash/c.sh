#!/bin/bash
# deeply nested multi-line constructs
foo() {
  local a="$1"
  local b="$2"
  if [ "$a" -gt "$b" ]; then
    for x in 1 2 3; do
      while [ "$b" -lt "$x" ]; do
        if [ "$x" -eq 1 ]; then
          bar "$x" "$x"
        else
          baz "$x"
        fi
        b=$((b + 1))
      done
    done
  fi
  return 0
}

bar() {
  case "$1" in
    a)
      case "$2" in
        a)
          if [ -n "$3" ]; then
            # nested comment
            echo "$1" "$2" "$3"
          fi
          ;;
        *)
          echo "$1"
          ;;
      esac
      ;;
    *)
      echo other
      ;;
  esac
}

baz() {
  (
    {
      for a in 1 2; do
        for b in 1 2; do
          echo "$a" "$b"
        done
      done
    } | sort
  )
}

x=$(
  foo "$(
    bar "$(
      baz 1
    )" "$(
      baz 1
    )"
  )" 2
)

list=(
  a
  a
  b
  b
)

foo \
  a \
  b
