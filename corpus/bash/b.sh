#!/usr/bin/env bash
# commentaire: café, naïve, 日本語 😀
cafe="héllo wörld"
naive='日本語'
x="😀"
y="mixed ascii and ünïcödé é \n"

foo() {
  # ünïcödé comment inside a function
  local a="$1" b="$2"
  printf '%s %s\n' "$a" "$b"
}

bar() {
  local x="${1:-default}"
  local y="${2:-é}"
  echo "$x" "$y" "$@"
}

foo "$cafe" "$cafe"
foo "$naive" "日本語"
foo "$(bar "é")" "$(bar "é")"
bar é é ü 😀 😀 # trailing: ünïcödé
echo "$x$x" "$y"

list=("é" "é" "ü" "😀" "😀")
for x in "${list[@]}"; do
  foo "$x" "$x"
done

cat <<EOF
héllo wörld
value: $cafe
EOF

cat <<'EOF'
raw 日本語 $cafe
EOF

until [ "${#x}" -gt 3 ]; do
  x="${x}é"
done

if [[ "$x" == é* ]]; then
  bar "$x"
elif [[ "$x" =~ ^[0-9]+$ ]]; then
  bar 1
fi

{
  foo a b
  foo a b
} > /dev/null

(
  cd /tmp
  bar a
)

a=1
b=$((a + 1))
c=$((a * b + a))
export A="$a" B="$b"
readonly C="$c"
unset x y
test -f /tmp/é.txt && echo "exists" || echo "missing"
bar "$a" "$b" &
wait
exit 0
