<?php
// line comment at the top
# hash comment at the top
/* block comment at the top */

function foo($a, $b, $c) {
    $x = $a + $b;
    $y = $b * $c;
    return $x + $y;
}

function bar($x) {
    return $x * 2;
}

function baz() {
    return 0;
}

$a = 1;
$b = 2.5;
$c = 0x1f;
$x = foo($a, $a, $a);
$y = bar($x) + bar($x);
$z = foo(bar(1), baz(), foo(1, 2, 3));

// calls with zero, one, two, three arguments
baz();
bar($a);
foo($a, $a, $c);
foo($a, $a, $a); // trailing comment
foo(
    $a, // first
    /* second */ $a,
    $c
);

$list = [1, 2, 3];
$list2 = [$a, $a, $c, $c,];
$nested = [[1, 2], [1, 2], [$a, [$b, [$c]]]];
$empty = [];
$old = array(1, 2, 3);
$map = ["a" => 1, "b" => 2, "c" => 3];
$map2 = ["a" => $a, "b" => $a, "foo" => bar($x),];
$s1 = "hello\n\tworld \"quoted\"";
$s2 = 'single \'quoted\' \\ backslash';

if ($a < $c) {
    $x = $a;
    $y = $c;
} elseif ($a == $c) {
    $x = $c;
} else {
    $x = $c;
    $y = $c;
}

for ($i = 0; $i < 10; $i++) {
    $x = $x + $i;
    bar($x);
}

foreach ($list as $v) {
    bar($v);
}

foreach ($map as $k => $v) {
    foo($k, $v, $v);
}

while ($x > 0) {
    $x = $x - 1;
    /* inside loop */
    $y = $y + bar($x) + bar($x);
}

$fn = function ($a, $b) {
    return $a - $b;
};
$x = $a + $c * $c - ($a + $c) / $c;
$ok = $a > 0 && $c > 0 || !($x > 0);
$x += 1;
$y = $x > 0 ? $a : $c;
$s = $s1 . $s2;
echo $x, $y, "\n";
