<?php
// commentaire: café, naïve, 日本語 😀
# hash: ünïcödé
/* block: héllo wörld */
/** docblock: ünïcödé */
namespace Qux;

use Exception;

interface Café
{
    public function foo($x);
}

class Baz implements Café
{
    private $a;
    public $b = 2;
    const NAÏVE = "日本語";

    public function __construct($a, $b)
    {
        $this->a = $a;
        $this->b = $b;
    }

    public function foo($x)
    {
        return $this->a + $x;
    }

    public static function bar($x, $y)
    {
        return new Baz($x, $y);
    }
}

function id($café, ...$c)
{
    // ünïcödé comment inside a function
    return $café;
}

function run($a = 1, $b = 2)
{
    $café = "héllo wörld";
    $naïve = '日本語';
    $s = "😀";
    $c = 3;

    id($café, 1, 1);
    id($naïve, 1, 2, /* 😀 */ 3, 3);
    Baz::bar($a, $a)->foo($b);
    Baz::bar(Baz::bar(1, 1)->foo(1), Baz::bar(1, 1)->foo(1));

    $list = ["é", "é", "ü", "😀", "😀",];
    $obj = [
        "café" => 1,
        "naïve" => 2,
        "foo" => [1, 2, 3,],
        "bar" => ["a" => "日本語", "b" => "日本語"],
    ];

    foreach ($list as $x) {
        id($x, 1); // trailing: ünïcödé
    }

    switch ($a) {
        case 1:
            Baz::bar($a, $a);
            break;
        default:
            Baz::bar($c, $c);
    }

    try {
        Baz::bar($a, $b);
    } catch (Exception $e) {
        echo $e->getMessage();
    } finally {
        Baz::bar($c, $c);
    }

    do {
        $a = $a + 1;
    } while ($a < 10);

    echo "interp $café {$s}\n";
    return $obj["foo"][0] ?? null;
}
