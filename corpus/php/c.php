<?php
// deeply nested multi-line constructs
namespace Foo;

function run($a, $b)
{
    if ($a > $b) {
        for ($x = 0; $x < $a; $x++) {
            while ($b < $x) {
                if ($x == 1) {
                    qux($x, $x);
                } else {
                    qux($x, 0);
                }
                $b = $b + 1;
            }
        }
    }
    return $a;
}

function qux($a, $b)
{
    return run(
        qux(
            run(
                1,
                2
            ),
            run(
                1,
                2
            )
        ),
        qux(
            $a,
            $b,
        ),
    );
}

$obj = [
    "a" => [
        "b" => [
            "c" => [
                1,
                2,
                [
                    3,
                    4,
                ],
            ],
            "x" => "x",
        ],
        "y" => run(1, 2),
    ],
];

$f = function ($a) {
    return function ($b) use ($a) {
        return function ($c) use ($a, $b) {
            /* nested block comment */
            return $a + $b + $c;
        };
    };
};

class Bar
{
    public function foo($a)
    {
        if ($a > 0) {
            try {
                qux($a, $a);
            } catch (\Exception $e) {
                // nested line comment
                qux(0, 0);
            }
        }
    }
}
