import test from 'ava'

import {
  registerDynamicLanguage,
  parse,
  findInFiles,
} from '../index'

const { platform, arch } = process

const isAppleSilicon = platform === 'darwin' && arch === 'arm64'
const isX64Linux = platform === 'linux' && arch === 'x64'
const canTestDynamicLang = isAppleSilicon || isX64Linux

if (isAppleSilicon) {
  registerDynamicLanguage({
    json: {
      libraryPath: "../../benches/fixtures/json-mac.so",
      languageSymbol: "tree_sitter_json",
      extensions: ["json"],
    }
  })
} else if (isX64Linux) {
  registerDynamicLanguage({
    json: {
      libraryPath: "../../benches/fixtures/json-linux.so",
      languageSymbol: "tree_sitter_json",
      extensions: ["json"],
    }
  })
}

test('test load custom lang', t => {
  if (!canTestDynamicLang) {
    t.pass('This test is not available on this platform')
    return
  }
  const sg = parse('json', '{"test": 123}')
  const root = sg.root()
  const node = root.find("123")!
  t.truthy(node)
  t.is(node.kind(), 'number')
  const no = root.find("456")
  t.falsy(no)
})

test('discover file', async t => {
  if (!canTestDynamicLang) {
    t.pass('This test is not available on this platform')
    return
  }
  await findInFiles('json', {
    paths: ['../'],
    matcher: {
      rule: {
        kind: 'string'
      }
    }
  }, (error, nodes) => {
    t.falsy(error)
    t.truthy(nodes)
    t.is(nodes[0].kind(), 'string')
    const file = nodes[0].getRoot().filename()
    t.assert(file.endsWith('.json'))
  })
})