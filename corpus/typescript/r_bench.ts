import b from 'benny'
import fs from 'fs'

import { ts as sg } from '@ast-grep/napi'
import * as babel from '@babel/core'
import oxc from '@oxidation-compiler/napi'
import * as swc from '@swc/core'
import * as ts from 'typescript'
import Parser from 'tree-sitter'
// because tree-sitter-typescript does not have d.ts
const tresSitterTS = require('tree-sitter-typescript').typescript

const treeSitter = new Parser()
treeSitter.setLanguage(tresSitterTS)

function prepareCases() {
  const tsEntry = fs.readFileSync('./fixtures/tsc.ts.fixture', 'utf8')
  const vueRef = fs.readFileSync('./fixtures/ref.ts.fixture', 'utf8')
  const tsChecker = fs.readFileSync('./fixtures/checker.ts.fixture', 'utf8')
  return [
    ['Parse One Line', 'let a = 123'],
    ['Parse Small File', tsEntry],
    ['Parse Medium File', vueRef],
    ['Parse Huge File', tsChecker],
  ]
}

const CONCURRENCY = 5
function concurrent(f: () => unknown) {
  return () => {
    const tasks = Array(CONCURRENCY).fill(undefined).map(() => f())
    return Promise.all(tasks)
  }
}


export function parseSyncBench(source: string) {
  const tasks = {
    'ast-grep sync parse': () => {
      sg.parse(source)
    },
    'tree-sitter sync parse': () => {
      treeSitter.parse(source)
    },
    'babel sync parse': () => {
      babel.parseSync(source, {
        plugins: ['@babel/plugin-syntax-typescript'],
        sourceType: 'module',
      })
    },
    'oxc sync parse': () => {
      JSON.parse(
        oxc.parseSync(source, {
          sourceType: 'module',
          sourceFilename: 'test.ts',
        }).program,
      )
    },
    'swc sync parse': () => {
      swc.parseSync(source, {
        syntax: 'typescript',
      })
    },
    'TypeScript sync parse': () => {
      ts.createSourceFile('benchmark.ts', source, ts.ScriptTarget.Latest)
    },
  }
  const newTasks = Object.entries(tasks).map(([n, f]) => [n, concurrent(f)])
  return Object.fromEntries(newTasks)
}

function parseAsyncBench(source: string) {
  const tasks = {
    'ast-grep async parse': () => sg.parseAsync(source),
    'tree-sitter parse(not async)': async () => {
      treeSitter.parse(source)
    },
    'babel async parse': () =>
      babel.parseAsync(source, {
        plugins: ['@babel/plugin-syntax-typescript'],
        sourceType: 'module',
      }),
    'oxc async parse': async () => {
      const src = await oxc.parseAsync(source, {
        sourceType: 'module',
        sourceFilename: 'test.ts',
      })
      JSON.parse(src.program)
    },
    'swc async parse': () =>
      swc.parse(source, {
        syntax: 'typescript',
      }),
    'TypeScript parse(not async)': async () => {
      ts.createSourceFile('benchmark.ts', source, ts.ScriptTarget.Latest)
    },
  }

  const newTasks = Object.entries(tasks).map(([n, f]) => [n, concurrent(f)])
  return Object.fromEntries(newTasks)
}

async function run(benchGenerator: (s: string) => Record<string, () => unknown>) {
  const cases = prepareCases()
  for (const [title, source] of cases) {
    const benches = benchGenerator(source)
    await b.suite(
      `${benchGenerator.name}: ${title}`,
      ...Object.entries(benches).map(([runnerName, runner]) =>
        b.add(runnerName, runner),
      ),
      b.cycle(),
      b.complete(),
    )
  }
}

async function benchmark() {
  await run(parseSyncBench).catch((e) => {
    console.error(e)
  })

  await run(parseAsyncBench).catch((e) => {
    console.error(e)
  })
}

benchmark()