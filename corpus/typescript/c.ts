// deeply nested multi-line constructs
function foo(a: number, b: number): number {
  if (a > b) {
    for (let x = 0; x < a; x++) {
      while (b < x) {
        if (x === 1) {
          bar(x, x);
        } else {
          baz(x);
        }
        b = b + 1;
      }
    }
  }
  return a;
}

interface Deep {
  a: {
    b: {
      c: number[];
      x: string;
    };
    y: number;
  };
}

const obj: Deep = {
  a: {
    b: {
      c: [
        1,
        2,
        3,
      ],
      x: "x",
    },
    y: foo(1, 2),
  },
};

foo(
  bar(
    baz(
      1,
    ),
    baz(
      1,
    ),
  ),
  2,
);

const x = bar((a: number) => {
  return baz((b: number) => {
    return foo((c: number) => {
      return a + b + c;
    }, 1);
  }, 2);
}, 3);

namespace Foo {
  export class Bar {
    foo(a: number): void {
      if (a) {
        try {
          baz(a);
        } catch (e) {
          /* nested block comment */
          baz(0);
        }
      }
    }
  }
}

declare function bar(a: any, b?: any): any;
declare function baz(a: any, b?: any): any;
