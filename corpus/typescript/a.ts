// line comment
/* block comment */
interface Foo {
  a: number;
  b: string;
  c?: boolean;
}

type Bar = { x: number, y: number, };
type Baz = number | string | null;

function foo(a: number, b: number, c: number): number {
  const x: number = a + b;
  const y: number = b * c;
  return x + y;
}

function bar(x: number): number {
  return x * 2;
}

function baz(): void {
  return;
}

let a: number = 1;
let b: number = 2.5;
let c: number = 0xff;
let x = foo(a, a, a);
let y = bar(x) + bar(x);
const z = foo(bar(1), bar(2), foo(1, 2, 3));

baz();
bar(a);
foo(a, b, c);
foo(a, a, a); // trailing comment
foo(
  a, // first
  /* second */ b,
  c,
);

const list: number[] = [1, 2, 3];
const list2: Array<number> = [a, a, b, b,];
const nested: number[][] = [[1, 2], [1, 2], []];
const obj: Foo = { a: 1, b: "two", c: true };
const obj2: Bar = { x: a, y: a, };
const s1: string = "hello\n\tworld \"quoted\"";
const s2: string = 'single \'quoted\' \\';
const tuple: [number, string, number] = [1, "a", 1];

if (a < b) {
  x = a;
  y = b;
} else if (a === b) {
  x = b;
} else {
  x = c;
}

for (let i = 0; i < 10; i++) {
  x = x + i;
  bar(x);
}

while (x > 0) {
  x = x - 1;
  /* inside loop */
  y = y + bar(x) + bar(x);
}

const fn = function (a: number, b: number): number {
  return a - b;
};
const arrow = (a: number, b: number): number => a + b;
function id<T>(x: T): T {
  return x;
}
id<number>(a);
x = a + b * c - (a + b) / c;
y = x ? a : b;
enum Color { Red, Green, Blue, }
