import { Lang } from '..'

export const languagesCrateNames: Record<Lang, string> = {
  [Lang.JavaScript]: 'tree-sitter-javascript',
  [Lang.TypeScript]: 'tree-sitter-typescript',
  [Lang.Tsx]: 'tree-sitter-typescript',
  [Lang.Html]: 'tree-sitter-html',
  [Lang.Css]: 'tree-sitter-css',
}

export const languagesNodeTypesUrls = {
  [Lang.JavaScript]:
    'https://raw.githubusercontent.com/tree-sitter/tree-sitter-javascript/refs/tags/{{TAG}}/src/node-types.json',
  [Lang.TypeScript]:
    'https://raw.githubusercontent.com/tree-sitter/tree-sitter-typescript/refs/tags/{{TAG}}/typescript/src/node-types.json',
  [Lang.Tsx]:
    'https://raw.githubusercontent.com/tree-sitter/tree-sitter-typescript/refs/tags/{{TAG}}/tsx/src/node-types.json',
  [Lang.Html]:
    'https://raw.githubusercontent.com/tree-sitter/tree-sitter-html/refs/tags/{{TAG}}/src/node-types.json',
  [Lang.Css]:
    'https://raw.githubusercontent.com/tree-sitter/tree-sitter-css/refs/tags/{{TAG}}/src/node-types.json',
}