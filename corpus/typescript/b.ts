// commentaire: café, naïve, 日本語
/* block: héllo wörld 😀 */
const café: string = "héllo wörld";
const naïve: string = '日本語';
let x: string = "😀";

interface Café {
  naïve: string;
  foo(a: number, b: number): number;
}

function foo(café: string, naïve: string): string {
  // ünïcödé comment
  return café + naïve;
}

function bar(a: number, b: number = 2, ...c: number[]): number[] {
  const x = a + b;
  return [x, x, ...c];
}

abstract class Base {
  abstract foo(x: number): number;
}

class Baz extends Base implements Café {
  naïve: string = "é";
  private a: number;
  readonly b: number;

  constructor(a: number, b: number) {
    super();
    this.a = a;
    this.b = b;
  }

  foo(x: number): number {
    return this.a + x;
  }

  static bar(x: number, y: number): Baz {
    return new Baz(x, y);
  }
}

foo(café, café);
foo(naïve, "日本語");
bar(1) + bar(1);
foo(foo("é", "é"), foo("é", "é"));
bar(1, 2, /* 😀 */ 3, 3,);

const obj = {
  café: 1,
  "naïve": 2,
  foo: [1, 2, 3,],
  bar: { a: "日本語", b: "日本語" },
};

const list: string[] = ["é", "é", "ü", "😀", "😀",];
const m: Map<string, number> = new Map<string, number>();
const y = x as unknown as number;

for (const x of list) {
  foo(x, x); // trailing: ünïcödé
}

switch (x) {
  case "😀":
    foo(x, x);
    break;
  default:
    bar(1);
}

try {
  foo(x, x);
} catch (e) {
  bar(2);
} finally {
  bar(3);
}

export function qux<T, U>(a: T, b: U): [T, U] {
  return [a, b];
}
