import type { SgNode, SgRoot } from './sgnode'
import type { NapiConfig, FindConfig, FileOption } from './config'
import type { NapiLang } from './lang'
import type { NamedKinds, TypesMap } from './staticTypes'

export declare function parseFiles<M extends TypesMap>(
  paths: Array<string> | FileOption,
  callback: (err: null | Error, result: SgRoot<M>) => void,
): Promise<number>
/** Parse a string to an ast-grep instance */
export declare function parse<M extends TypesMap>(
  lang: NapiLang,
  src: string,
): SgRoot<M>
/**
 * Parse a string to an ast-grep instance asynchronously in threads.
 * It utilize multiple CPU cores when **concurrent processing sources**.
 * However, spawning excessive many threads may backfire.
 * Please refer to libuv doc, nodejs' underlying runtime
 * for its default behavior and performance tuning tricks.
 */
export declare function parseAsync<M extends TypesMap>(
  lang: NapiLang,
  src: string,
): Promise<SgRoot<M>>
/** Get the `kind` number from its string name. */
export declare function kind<M extends TypesMap>(
  lang: NapiLang,
  kindName: NamedKinds<M>,
): number
/** Compile a string to ast-grep Pattern. */
export declare function pattern<M extends TypesMap>(
  lang: NapiLang,
  pattern: string,
): NapiConfig<M>
/**
 * Discover and parse multiple files in Rust.
 * `lang` specifies the language.
 * `config` specifies the file path and matcher.
 * `callback` will receive matching nodes found in a file.
 */
export declare function findInFiles<M extends TypesMap>(
  lang: NapiLang,
  config: FindConfig<M>,
  callback: (err: null | Error, result: SgNode<M>[]) => void,
): Promise<number>