local a = 1
--
local b = ""
--[[]]
local c = [[]]
print(a, b, c, "")
