-- commentaire: café, naïve, 日本語 😀
--[[ block: héllo wörld ]]
--[==[ level-2 block: ünïcödé ]==]
local cafe = "héllo wörld"
local naive = '日本語'
local x = "😀"
local y = "mixed ascii and ünïcödé é \n"

local function foo(a, b)
  -- ünïcödé comment inside a function
  return a .. b
end

local function bar(a, b, ...)
  local x = a + (b or 2)
  return {x, x, ...}
end

local Baz = {}
Baz.__index = Baz

function Baz.new(a, b)
  local self = setmetatable({}, Baz)
  self.a = a
  self.b = b
  return self
end

function Baz:foo(x)
  return self.a + x
end

foo(cafe, cafe)
foo(naive, "日本語")
foo(foo("é", "é"), foo("é", "é"))
bar(1, 2, --[[ 😀 ]] 3, 3)

local obj = {
  cafe = 1,
  ["naïve"] = 2,
  foo = {1, 2, 3,},
  bar = { a = "日本語", b = "日本語" },
}

local list = {"é", "é", "ü", "😀", "😀",}
local a, b = 1, 2
local c = list[1]

for i, x in ipairs(list) do
  foo(x, x) -- trailing: ünïcödé
end

for k, v in pairs(obj) do
  bar(k, v)
end

repeat
  a = a + 1
until a > 10

do
  local x = 1
  local y = 2
  bar(x, y)
end

local ok, err = pcall(function()
  foo(a, b)
end)

goto done
::done::

local baz = Baz.new(1, 2)
baz:foo(1)
Baz.new(a, a):foo(b)
baz.a = baz.a + 1
return baz
