-- deeply nested multi-line constructs
local function foo(a, b)
  if a > b then
    for x = 0, a do
      while b < x do
        if x == 1 then
          bar(x, x)
        else
          baz(x)
        end
        b = b + 1
      end
    end
  end
  return a
end

local obj = {
  a = {
    b = {
      c = {
        1,
        2,
        {
          3,
          4,
        },
      },
      x = "x",
    },
    y = foo(1, 2),
  },
  foo = function(a)
    return {
      bar = {
        a,
        a,
      },
    }
  end,
}

foo(
  bar(
    baz(
      1,
      2
    ),
    baz(
      1,
      2
    )
  ),
  {
    a,
    b,
  }
)

local x = bar(function(a)
  return baz(function(b)
    return foo(function(c)
      return a + b + c
    end, 1)
  end, 2)
end, 3)

local Bar = {}
function Bar.foo(a)
  if a then
    repeat
      do
        --[[ nested block comment ]]
        baz(a, a)
      end
    until true
  end
end
