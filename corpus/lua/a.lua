-- line comment at the top
--[[ block comment
spanning lines ]]
local function foo(a, b, c)
  local x = a + b
  local y = b * c
  return x + y
end

local function bar(x)
  return x * 2
end

function baz()
  return 0
end

local a = 1
local b = 2.5
local c = 0x1f
local x = foo(a, a, a)
local y = bar(x) + bar(x)
local z = foo(bar(1), baz(), foo(1, 2, 3))

-- calls with zero, one, two, three arguments
baz()
bar(a)
foo(a, b, c)
foo(a, a, a) -- trailing comment
foo(
  a, -- first
  --[[ second ]] b,
  c
)
print "x"
print(a, b)

local list = {1, 2, 3}
local list2 = {a, a, b, b,}
local nested = {{1, 2}, {1, 2}, {a, {b, {c}}}}
local empty = {}
local t = { a = 1, b = 2, c = 3 }
local t2 = { a = a, b = a, foo = bar(x), }
local t3 = { ["a"] = 1; ["b"] = 2; 3 }
local s1 = "hello\n\tworld \"quoted\""
local s2 = 'single \'quoted\' \\ backslash'
local s3 = [[long
string]]

if a < b then
  x = a
  y = b
elseif a == b then
  x = b
else
  x = c
  y = c
end

for i = 0, 9 do
  x = x + i
  bar(x)
end

for i = 10, 1, -1 do
  bar(i)
end

while x > 0 do
  x = x - 1
  --[[ inside loop ]]
  y = y + bar(x) + bar(x)
end

local fn = function(a, b)
  return a - b
end
x = a + b * c - (a + b) / c
y = a and b or not c
x, y = y, x
local n = #list
local s = s1 .. s2
