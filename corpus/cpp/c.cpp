// deeply nested multi-line constructs
#include <vector>
#include <map>

int bar(int a, int b);
int baz(int a);

int foo(int a, int b) {
  if (a > b) {
    for (int x = 0; x < a; x++) {
      while (b < x) {
        if (x == 1) {
          bar(x, x);
        } else {
          baz(x);
        }
        b = b + 1;
      }
    }
  }
  return a;
}

std::map<int, std::vector<std::vector<int>>> obj = {
  {
    1,
    {
      {
        1,
        2,
      },
      {
        1,
        2,
      },
    },
  },
};

int qux(int a, int b) {
  return foo(
    bar(
      baz(
        1
      ),
      baz(
        1
      )
    ),
    bar(
      a,
      b
    )
  );
}

namespace foo_ns {
  namespace bar_ns {
    class Bar {
     public:
      void foo(int a) {
        if (a) {
          try {
            baz(a);
          } catch (...) {
            /* nested block comment */
            baz(0);
          }
        }
      }
    };
  }
}

auto x = [](int a) {
  return [a](int b) {
    return [a, b](int c) {
      return a + b + c;
    };
  };
};
