// commentaire: café, naïve, 日本語 😀
/* block: héllo wörld */
#include <string>
#include <vector>
#include <memory>

namespace qux {

const std::string café = "héllo wörld";
const std::string naïve = "日本語";

template <typename T, typename U>
T foo(T a, U b) {
  // ünïcödé comment inside a function
  return a + b;
}

template <typename... Args>
int bar(int a, Args... c) {
  int x = a + 2;
  return x;
}

class Base {
 public:
  virtual ~Base() {}
  virtual int foo(int x) const = 0;
};

class Baz : public Base {
 public:
  Baz(int a, int b) : a_(a), b_(b) {}

  int foo(int x) const override {
    return a_ + x;
  }

  static std::unique_ptr<Baz> bar(int x, int y) {
    return std::make_unique<Baz>(x, y);
  }

 private:
  int a_;
  int b_;
};

}  // namespace qux

using namespace qux;

void run() {
  std::string s = "😀";
  std::string t = "mixed ascii and ünïcödé é \n";
  int a = 1, b = 2, c = 3;

  foo(a, a);
  foo(café, café);
  foo(naïve, std::string("日本語"));
  bar(1) + bar(1);
  foo(foo(1, 1), foo(1, 1));
  bar(1, 2, /* 😀 */ 3, 3);
  foo<int, int>(a, b);

  std::vector<std::string> list = {"é", "é", "ü", "😀", "😀",};

  for (const auto &x : list) {
    foo(x, x); // trailing: ünïcödé
  }

  switch (a) {
    case 1:
      foo(a, a);
      break;
    default:
      bar(b);
  }

  try {
    foo(a, b);
  } catch (const std::exception &e) {
    bar(c);
  } catch (...) {
    throw;
  }

  Baz baz(1, 2);
  baz.foo(1);
  Baz::bar(a, a)->foo(b);
}
