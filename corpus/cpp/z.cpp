#include <string>

void emit(std::string out, const char* s);

int main() {
  std::string out;
  emit(out, R"()");
  emit(out, R"(x)");
  emit(out, "");
  const char* e = R"()";
  emit(out, e);
  return 0;
}
