// line comment at the top
/* block comment at the top */
#include <iostream>
#include <vector>
#include <map>
#include <string>

int foo(int a, int b, int c) {
  int x = a + b;
  int y = b * c;
  return x + y;
}

int bar(int x) {
  return x * 2;
}

int baz() {
  return 0;
}

struct Point {
  int x;
  int y;
};

enum class Color { Red, Green, Blue, };

int main(int argc, char **argv) {
  int a = 1;
  double b = 2.5;
  int c = 0x1f;
  auto x = foo(a, a, a);
  auto y = bar(x) + bar(x);
  int z = foo(bar(1), baz(), foo(1, 2, 3));

  // calls with zero, one, two, three arguments
  baz();
  bar(a);
  foo(a, a, c);
  foo(a, a, a); // trailing comment
  foo(
    a, // first
    /* second */ a,
    c
  );

  std::vector<int> list = {1, 2, 3};
  std::vector<int> list2{a, a, c, c,};
  std::vector<std::vector<int>> nested = {{1, 2}, {1, 2}, {}};
  std::map<std::string, int> m = {{"a", 1}, {"b", 1}};
  Point p{1, 1};
  Point q = {a, a};
  std::string s1 = "hello\n\tworld \"quoted\"";
  char ch = '\n';

  if (a < c) {
    x = a;
    y = c;
  } else if (a == c) {
    x = c;
  } else {
    x = c;
    y = c;
  }

  for (int i = 0; i < 10; i++) {
    x = x + i;
    bar(x);
  }

  for (auto v : list) {
    bar(v);
  }

  while (x > 0) {
    x = x - 1;
    /* inside loop */
    y = y + bar(x) + bar(x);
  }

  auto fn = [](int a, int b) { return a - b; };
  auto fn2 = [&x, y](int a) -> int { return foo(a, x, y); };
  x = a + c * c - (a + c) / c;
  y = x ? a : c;
  std::cout << x << " " << y << std::endl;
  return 0;
}
