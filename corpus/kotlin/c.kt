// deeply nested multi-line constructs
package foo

fun run(a: Int, b: Int): Int {
    var n = b
    if (a > n) {
        for (x in 0..a) {
            while (n < x) {
                if (x == 1) {
                    qux(x, x)
                } else {
                    qux(x, 0)
                }
                n = n + 1
            }
        }
    }
    return a
}

fun qux(a: Int, b: Int): Int {
    return run(
        qux(
            run(
                1,
                2
            ),
            run(
                1,
                2
            )
        ),
        qux(
            a,
            b
        )
    )
}

val obj = mapOf(
    "a" to mapOf(
        "b" to listOf(
            listOf(
                1,
                2,
            ),
            listOf(
                1,
                2,
            ),
        ),
    ),
)

val f = { a: Int ->
    { b: Int ->
        { c: Int ->
            /* nested block comment */
            a + b + c
        }
    }
}

class Bar {
    class Baz {
        fun foo(a: Int) {
            if (a > 0) {
                try {
                    bar(a)
                } catch (e: Exception) {
                    // nested line comment
                    bar(0)
                }
            }
        }

        fun bar(a: Int) {
        }
    }
}
