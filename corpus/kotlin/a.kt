// line comment at the top
/* block comment at the top */
package corpus

import kotlin.math.max

fun foo(a: Int, b: Int, c: Int): Int {
    val x = a + b
    val y = b * c
    return x + y
}

fun bar(x: Int): Int {
    return x * 2
}

fun baz(): Int = 0

fun main() {
    val a = 1
    val b = 2.5
    val c = 0x1f
    var x = foo(a, a, a)
    var y = bar(x) + bar(x)
    val z = foo(bar(1), baz(), foo(1, 2, 3))

    // calls with zero, one, two, three arguments
    baz()
    bar(a)
    foo(a, a, c)
    foo(a, a, a) // trailing comment
    foo(
        a, // first
        /* second */ a,
        c,
    )
    foo(a = 1, b = 1, c = 2)

    val list = listOf(1, 2, 3)
    val list2 = listOf(a, a, c, c,)
    val nested = listOf(listOf(1, 2), listOf(1, 2), listOf())
    val m = mapOf("a" to 1, "b" to 1)
    val arr = arrayOf(1, 2, 3)
    val s1 = "hello\n\tworld \"quoted\""
    val ch = '\n'
    val n = 100L

    if (a < c) {
        x = a
        y = c
    } else if (a == c) {
        x = c
    } else {
        x = c
        y = c
    }

    for (i in 0..9) {
        x = x + i
        bar(x)
    }

    for (v in list) {
        bar(v)
    }

    while (x > 0) {
        x = x - 1
        /* inside loop */
        y = y + bar(x) + bar(x)
    }

    val fn = { p: Int, q: Int -> p - q }
    val fn2 = fun(p: Int, q: Int): Int {
        return p + q
    }
    x = a + c * c - (a + c) / c
    val t = a > 0 && c > 0 || !(x > 0)
    x += 1
    y = if (x > 0) a else c
    println(x)
    println(max(x, y))
}
