// commentaire: café, naïve, 日本語 😀
/* block: héllo wörld */
/** kdoc: ünïcödé */
package qux

interface Café {
    fun foo(x: Int): Int
}

enum class Color { RED, GREEN, BLUE }

data class Point(val x: Int, val y: Int)

open class Base(val a: Int)

class Baz(a: Int, var b: Int) : Base(a), Café {
    val naïve: String = "日本語"

    override fun foo(x: Int): Int {
        return a + x
    }

    companion object {
        fun bar(x: Int, y: Int): Baz {
            return Baz(x, y)
        }
    }
}

fun <T> id(café: T, vararg c: Int): T {
    // ünïcödé comment inside a function
    return café
}

fun run(a: Int = 1, b: Int = 2) {
    val café = "héllo wörld"
    val naïve = "日本語"
    val s = "😀"
    val c = 3
    var n = a

    id(café, 1, 1)
    id(naïve, 1, 2, /* 😀 */ 3, 3)
    Baz.bar(a, a).foo(b)
    Baz.bar(Baz.bar(1, 1).foo(1), Baz.bar(1, 1).foo(1))

    val list = listOf("é", "é", "ü", "😀", "😀")
    val p = Point(1, 1)
    val q = p.copy(x = 2)
    val r = list.filter { it == "é" }.map { x -> x + x }

    for (x in list) {
        id(x, 1) // trailing: ünïcödé
    }

    when (a) {
        1 -> Baz.bar(a, a)
        2, 3 -> Baz.bar(b, b)
        else -> Baz.bar(c, c)
    }

    try {
        Baz.bar(a, b)
    } catch (e: Exception) {
        println(e.message)
    } finally {
        Baz.bar(c, c)
    }

    do {
        n = n + 1
    } while (n < 10)

    val o: String? = null
    val len = o?.length ?: 0
    list.forEach { x ->
        id(x, 1)
        id(x, 1)
    }
}
