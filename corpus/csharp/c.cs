// deeply nested multi-line constructs
using System;
using System.Collections.Generic;

namespace Foo
{
    namespace Bar
    {
        class Baz
        {
            int Run(int a, int b)
            {
                if (a > b)
                {
                    for (int x = 0; x < a; x++)
                    {
                        while (b < x)
                        {
                            if (x == 1)
                            {
                                Qux(x, x);
                            }
                            else
                            {
                                Qux(x, 0);
                            }
                            b = b + 1;
                        }
                    }
                }
                return a;
            }

            int Qux(int a, int b)
            {
                return Run(
                    Qux(
                        Run(
                            1,
                            2
                        ),
                        Run(
                            1,
                            2
                        )
                    ),
                    Qux(
                        a,
                        b
                    )
                );
            }

            Dictionary<string, List<int[]>> obj = new Dictionary<string, List<int[]>>
            {
                {
                    "a",
                    new List<int[]>
                    {
                        new int[]
                        {
                            1,
                            2,
                        },
                        new int[]
                        {
                            1,
                            2,
                        },
                    }
                },
            };

            Func<int, Func<int, Func<int, int>>> f = a =>
            {
                return b =>
                {
                    return c =>
                    {
                        /* nested block comment */
                        return a + b + c;
                    };
                };
            };
        }
    }
}
