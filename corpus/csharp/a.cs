// line comment at the top
/* block comment at the top */
using System;
using System.Collections.Generic;

namespace Corpus
{
    class Program
    {
        static int Foo(int a, int b, int c)
        {
            int x = a + b;
            int y = b * c;
            return x + y;
        }

        static int Bar(int x)
        {
            return x * 2;
        }

        static int Baz()
        {
            return 0;
        }

        static void Main(string[] args)
        {
            int a = 1;
            double b = 2.5;
            int c = 0x1f;
            var x = Foo(a, a, a);
            var y = Bar(x) + Bar(x);
            int z = Foo(Bar(1), Baz(), Foo(1, 2, 3));

            // calls with zero, one, two, three arguments
            Baz();
            Bar(a);
            Foo(a, a, c);
            Foo(a, a, a); // trailing comment
            Foo(
                a, // first
                /* second */ a,
                c
            );

            int[] list = { 1, 2, 3 };
            int[] list2 = new int[] { a, a, c, c, };
            var nested = new int[][] { new int[] { 1, 2 }, new int[] { 1, 2 } };
            var d = new Dictionary<string, int> { { "a", 1 }, { "b", 1 }, };
            var l = new List<int> { 1, 2, 3 };
            string s1 = "hello\n\tworld \"quoted\"";
            string s2 = @"verbatim \ string";
            char ch = '\n';

            if (a < c)
            {
                x = a;
                y = c;
            }
            else if (a == c)
            {
                x = c;
            }
            else
            {
                x = c;
                y = c;
            }

            for (int i = 0; i < 10; i++)
            {
                x = x + i;
                Bar(x);
            }

            while (x > 0)
            {
                x = x - 1;
                /* inside loop */
                y = y + Bar(x) + Bar(x);
            }

            Func<int, int, int> fn = (p, q) => p - q;
            x = a + c * c - (a + c) / c;
            y = x > 0 ? a : c;
            Console.WriteLine("{0} {1}", x, y);
        }
    }
}
