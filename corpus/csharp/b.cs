// commentaire: café, naïve, 日本語 😀
/* block: héllo wörld */
/// <summary>doc comment: ünïcödé</summary>
using System;
using System.Linq;
using System.Collections.Generic;

namespace Qux
{
    interface ICafé
    {
        int Foo(int x);
    }

    enum Color { Red, Green, Blue, }

    class Baz : ICafé
    {
        private readonly int a;
        public int B { get; set; }
        public string Naïve { get; } = "日本語";

        public Baz(int a, int b)
        {
            this.a = a;
            this.B = b;
        }

        public int Foo(int x)
        {
            return a + x;
        }

        public static Baz Bar(int x, int y)
        {
            return new Baz(x, y);
        }

        static T Id<T>(T café, params int[] c) where T : class
        {
            // ünïcödé comment inside a method
            return café;
        }

        static void Run(int a = 1, int b = 2)
        {
            string café = "héllo wörld";
            string naïve = "日本語";
            string s = "😀";
            int c = 3;

            Id(café, 1, 1);
            Id(naïve, 1, 2, /* 😀 */ 3, 3);
            Bar(a, a).Foo(b);
            Bar(Bar(1, 1).Foo(1), Bar(1, 1).Foo(1));

            var list = new List<string> { "é", "é", "ü", "😀", "😀", };
            var obj = new { A = "日本語", B = "日本語" };
            var q = list.Where(x => x == "é").Select(x => x + x).ToList();

            foreach (var x in list)
            {
                Id(x, 1); // trailing: ünïcödé
            }

            switch (a)
            {
                case 1:
                    Bar(a, a);
                    break;
                default:
                    Bar(b, b);
                    break;
            }

            try
            {
                Bar(a, b);
            }
            catch (Exception e)
            {
                Console.WriteLine(e.Message);
            }
            finally
            {
                Bar(c, c);
            }
        }
    }
}
