# line comment at the top
=begin
block comment
=end
require "set"

def foo(a, b, c)
  x = a + b
  y = b * c
  return x + y
end

def bar(x)
  x * 2
end

def baz
  0
end

a = 1
b = 2.5
c = 0x1f
x = foo(a, a, a)
y = bar(x) + bar(x)
z = foo(bar(1), baz(), foo(1, 2, 3))

# calls with zero, one, two, three arguments
baz()
bar(a)
foo(a, b, c)
foo(a, a, a) # trailing comment
foo(
  a, # first
  b,
  c,
)
puts a, b
puts "x"

list = [1, 2, 3]
list2 = [a, a, b, b,]
nested = [[1, 2], [1, 2], [a, [b, [c]]]]
empty = []
h = { "a" => 1, "b" => 2, "c" => 3 }
h2 = { a: a, b: a, foo: bar(x), }
sym = :foo
s1 = "hello\n\tworld \"quoted\""
s2 = 'single \'quoted\' \\ backslash'
r = (1..10)

if a < b
  x = a
  y = b
elsif a == b
  x = b
else
  x = c
  y = c
end

for i in 0..9 do
  x = x + i
  bar(x)
end

while x > 0
  x = x - 1
  # inside loop
  y = y + bar(x) + bar(x)
end

fn = lambda { |a, b| a - b }
pr = proc do |a, b|
  a + b
end
list.each { |x| bar(x) }
list.map do |x|
  foo(x, x, x)
end
x = a + b * c - (a + b) / c
y = a && b || !c
x += 1
y = x ? a : b
bar(x) unless x.nil?
bar(y) if y
