# deeply nested multi-line constructs
def foo(a, b)
  if a > b
    (0..a).each do |x|
      while b < x
        if x == 1
          bar(x, x)
        else
          baz(x)
        end
        b = b + 1
      end
    end
  end
  return a
end

obj = {
  a: {
    b: {
      c: [
        1,
        2,
        [
          3,
          4,
        ],
      ],
      x: "x",
    },
    y: foo(1, 2),
  },
}

foo(
  bar(
    baz(
      1,
      2,
    ),
    baz(
      1,
      2,
    ),
  ),
  [
    a,
    b,
  ],
)

module Foo
  module Bar
    class Baz
      def foo(a)
        if a
          begin
            baz(a, a)
          rescue StandardError => e
            # nested comment
            baz(e)
          end
        end
      end
    end
  end
end

x = bar do |a|
  baz do |b|
    foo do |c|
      a + b + c
    end
  end
end
