# commentaire: café, naïve, 日本語 😀
=begin
block: héllo wörld
=end
café = "héllo wörld"
naïve = '日本語'
x = "😀"
y = "mixed ascii and ünïcödé é \n"

def foo(café, naïve)
  # ünïcödé comment inside a method
  café + naïve
end

def bar(a, b = 2, *c, d: 4, **kw, &blk)
  x = a + b
  [x, x, c]
end

module Qux
  class Baz
    attr_reader :a, :b

    def initialize(a, b)
      @a = a
      @b = b
    end

    def foo(x)
      @a + x
    end

    def self.bar(x, y)
      Baz.new(x, y)
    end
  end
end

foo(café, café)
foo(naïve, "日本語")
bar(1) + bar(1)
foo(bar(1), bar(2, 3))
foo(bar("é"), bar("é"))

obj = {
  "café" => 1,
  naïve: 2,
  foo: [1, 2, 3,],
  bar: { a: "日本語", b: "日本語" },
}

list = ["é", "é", "ü", "😀", "😀",]
a, b = 1, 2
c, *rest = list
w = %w[foo bar baz]

list.each do |x|
  foo(x, x) # trailing: ünïcödé
end

obj.each_pair { |k, v| bar(k, v) }

case x
when "😀"
  foo(a, a)
when "é", "ü"
  bar(a)
else
  bar(b)
end

begin
  foo(a, b)
rescue ArgumentError => e
  bar(e)
ensure
  bar(c)
end

until a > 10
  a += 1
end

baz = Qux::Baz.new(1, 2)
baz.foo(1)
Qux::Baz.bar(a, a).foo(b)
