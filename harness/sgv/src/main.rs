// The real ast-grep CLI, built from /repo/crates/cli inside the verification
// workspace so that it is recompiled from /repo's working tree with the hook cfg on.
fn main() -> anyhow::Result<()> {
  ast_grep::execute_main()
}
