//! C06 — rewrites touch only what was matched: edits are well-formed and local.
use crate::engine::*;
use crate::fail;
use crate::gen::{self, Corpus, SrcChoice, SrcOpts};
use crate::langs;
use crate::pat::{self, PatSpec};
use crate::rules::*;
use crate::tsutil::{self, parse};
use ast_grep_config::{from_yaml_string, GlobalRules, RuleConfig};
use ast_grep_core::matcher::MatcherExt;
use ast_grep_core::meta_var::MetaVarEnv;
use ast_grep_core::source::Edit;
use ast_grep_core::{Matcher, NodeMatch, StrDoc};
use ast_grep_language::SupportLang;
use proptest::prelude::*;
use proptest::sample::Index;
use serde::{Deserialize, Serialize};
use serde_json::json;
use std::borrow::Cow;
use tree_sitter::Node as TsNode;

#[derive(Clone, Debug, Serialize, Deserialize)]
pub struct Expand {
  pub rule: GRule,
  pub stop: Stop,
}

#[derive(Clone, Debug, Serialize, Deserialize)]
pub struct Rewriter {
  pub id: String,
  pub rule: GRule,
  pub fix: String,
  /// (variable of the enclosing rule used in `fix`, its single-line text): the reference
  /// substitutes the text itself, the real rewriter has to look the variable up
  #[serde(default)]
  pub outer: Option<(String, String)>,
  /// optional expansion of the rewriter's own fix (object form)
  #[serde(default)]
  pub expand_start: Option<Expand>,
  #[serde(default)]
  pub expand_end: Option<Expand>,
}

#[derive(Clone, Debug, Serialize, Deserialize)]
pub struct RewriteSpec {
  /// `$V0` or `$$$W`
  pub source: String,
  pub rewriters: Vec<Rewriter>,
  pub join_by: Option<String>,
}

#[derive(Clone, Debug, Serialize, Deserialize)]
pub struct Case {
  pub lang: String,
  pub source: String,
  /// the matcher: a pattern cut from the source (string / contextual form)
  pub spec: PatSpec,
  pub template: String,
  pub object_form: bool,
  pub expand_start: Option<Expand>,
  pub expand_end: Option<Expand>,
  pub rewrite: Option<RewriteSpec>,
}

#[derive(Clone, Debug)]
pub struct ExpandC {
  rule: u8,
  kind: Index,
  stop: u8,
  stop_kind: Index,
}

#[derive(Clone, Debug)]
pub struct Choice {
  src: SrcChoice,
  node: Index,
  holes: Vec<Index>,
  run: Option<(Index, Index)>,
  tpl: u8,
  object_form: bool,
  expand_start: Option<ExpandC>,
  expand_end: Option<ExpandC>,
  rewrite: Option<(Vec<(Index, u8)>, Option<u8>, bool)>,
}

pub fn strategy(opts: &SrcOpts) -> BoxedStrategy<Choice> {
  let expand = || {
    (0u8..6, any::<Index>(), 0u8..4, any::<Index>()).prop_map(|(rule, kind, stop, stop_kind)| ExpandC {
      rule,
      kind,
      stop,
      stop_kind,
    })
  };
  (
    gen::src_choice(opts),
    any::<Index>(),
    prop::collection::vec(any::<Index>(), 0..=2),
    prop::option::weighted(0.3, (any::<Index>(), any::<Index>())),
    0u8..8,
    any::<bool>(),
    prop::option::weighted(0.3, expand()),
    prop::option::weighted(0.4, expand()),
    prop::option::weighted(
      0.35,
      (
        prop::collection::vec((any::<Index>(), 0u8..6), 1..=3),
        prop::option::weighted(0.4, 0u8..3),
        any::<bool>(),
      ),
    ),
  )
    .prop_map(|(src, node, holes, run, tpl, object_form, expand_start, expand_end, rewrite)| Choice {
      src,
      node,
      holes,
      run,
      tpl,
      object_form,
      expand_start,
      expand_end,
      rewrite,
    })
    .boxed()
}

const SEP_REGEX: &[&str] = &["^,$", "^;$", "^\\)$", ".", "^[,;]$"];

pub fn interpret(corpus: &Corpus, opts: &SrcOpts, ch: &Choice, st: &mut Stats) -> Option<Case> {
  let built = gen::build_source(corpus, &ch.src, opts);
  let lang = built.lang;
  let text = built.text.clone();
  let sg = parse(lang, &text);
  let cands = pat::cut_candidates(&text, sg.root().get_ts_node(), 200);
  if cands.is_empty() {
    return None;
  }
  let n = &cands[ch.node.index(cands.len())];
  let mut spec = pat::cut_pattern(&text, n, &ch.holes, ch.run);
  let plain_ok = pat::build(&spec, lang).is_some();
  if !plain_ok {
    spec.selector = Some(spec.kind.clone());
    if catch(|| pat::build(&spec, lang)).ok().flatten().is_none() {
      st.discard("pattern does not parse");
      return None;
    }
  }
  let ctx = RuleCtx::new(lang, &text, &sg);
  let v0 = spec.holes.first().map(|h| format!("${}", h.name));
  let w = spec.run.as_ref().map(|r| format!("$$${}", r.name));
  let var = v0.clone().or(w.clone()).unwrap_or_else(|| "x".into());
  let mk_expand = |e: &ExpandC| -> Expand {
    let rule = match e.rule {
      0..=3 => GRule::Regex(SEP_REGEX[e.rule as usize % SEP_REGEX.len()].to_string()),
      _ => {
        if ctx.kinds.is_empty() {
          GRule::Regex(".".into())
        } else {
          GRule::Kind(ctx.kinds[e.kind.index(ctx.kinds.len())].clone())
        }
      }
    };
    let stop = match e.stop {
      0 | 1 => Stop::Neighbor,
      2 => Stop::End,
      _ => {
        if ctx.kinds.is_empty() {
          Stop::End
        } else {
          Stop::Rule(Box::new(GRule::Kind(ctx.kinds[e.stop_kind.index(ctx.kinds.len())].clone())))
        }
      }
    };
    Expand { rule, stop }
  };
  let rewrite = ch.rewrite.as_ref().and_then(|(rws, join, on_run)| {
    let source = if *on_run { w.clone().or(v0.clone()) } else { v0.clone().or(w.clone()) }?;
    // rewriters match small nodes inside the capture
    let small: Vec<TsNode> = ctx.named.iter().filter(|x| x.end_byte() - x.start_byte() <= 40).cloned().collect();
    if small.is_empty() {
      return None;
    }
    let rewriters: Vec<Rewriter> = rws
      .iter()
      .enumerate()
      .map(|(i, (pick, form))| {
        let node = &small[pick.index(small.len())];
        let rule = match form % 3 {
          0 => GRule::Kind(node.kind().to_string()),
          1 => {
            let t = tsutil::text(&text, node);
            if !t.contains('$') && ast_grep_core::Pattern::try_new(t, lang).is_ok() {
              GRule::Pattern(PatLeaf {
                text: t.to_string(),
                selector: None,
                strictness: None,
                singles: vec![],
                multis: vec![],
              })
            } else {
              GRule::Kind(node.kind().to_string())
            }
          }
          _ => GRule::Obj(vec![GRule::Kind(node.kind().to_string()), GRule::Regex("^.{1,6}$".into())]),
        };
        let mut fix = ["R", "<é>", "", "f(x)\n  y"][*form as usize % 4].to_string();
        // a fix that uses a variable of the enclosing rule (single-line captures only)
        let mut outer = None;
        if form % 2 == 1 {
          let singles: Vec<_> = spec.holes.iter().filter(|h| !text[h.start..h.end].contains('\n') && !text[h.start..h.end].contains('$')).collect();
          if !singles.is_empty() {
            let h = singles[pick.index(singles.len())];
            fix = format!("{fix}[${}]", h.name);
            outer = Some((h.name.clone(), text[h.start..h.end].to_string()));
          }
        }
        let sep = |k: u8| Expand {
          rule: GRule::Regex(SEP_REGEX[k as usize % SEP_REGEX.len()].to_string()),
          stop: Stop::Neighbor,
        };
        Rewriter {
          id: format!("rw{i}"),
          rule,
          fix,
          outer,
          expand_start: (*form == 4).then(|| sep(3)),
          expand_end: (*form == 5).then(|| sep(0)),
        }
      })
      .collect();
    Some(RewriteSpec {
      source,
      rewriters,
      join_by: join.map(|j| [", ", "", "\n"][j as usize % 3].to_string()),
    })
  });
  let tvar = if rewrite.is_some() { "$NEW".to_string() } else { var.clone() };
  let template = match ch.tpl {
    0 => tvar.clone(),
    1 => format!("wrap({tvar})"),
    2 => String::new(),
    3 => format!("é{tvar}日本"),
    4 => format!("{tvar}\n{tvar}"),
    5 => "x".to_string(),
    _ => format!("({tvar}, {})", w.clone().unwrap_or_else(|| "1".into())),
  };
  for l in &built.labels {
    st.label(l);
  }
  Some(Case {
    lang: langs::name(lang),
    source: text,
    spec,
    template,
    // a rule with a `rewrite` transform uses the string form of `fix` here (object form with
    // transformed variables is C12's subject)
    object_form: rewrite.is_none() && (ch.object_form || ch.expand_start.is_some() || ch.expand_end.is_some()),
    expand_start: if rewrite.is_some() { None } else { ch.expand_start.as_ref().map(mk_expand) },
    expand_end: if rewrite.is_some() { None } else { ch.expand_end.as_ref().map(mk_expand) },
    rewrite,
  })
}

fn ys(s: &str) -> serde_yaml::Value {
  serde_yaml::Value::String(s.to_string())
}

fn pattern_rule(spec: &PatSpec) -> GRule {
  GRule::Pattern(PatLeaf {
    text: spec.text.clone(),
    selector: spec.selector.clone(),
    strictness: None,
    singles: spec.holes.iter().map(|h| h.name.clone()).collect(),
    multis: spec.run.iter().map(|r| r.name.clone()).collect(),
  })
}

pub fn config_yaml(case: &Case) -> String {
  let mut m = serde_yaml::Mapping::new();
  m.insert(ys("id"), ys("main"));
  m.insert(ys("language"), ys(&case.lang));
  m.insert(ys("rule"), pattern_rule(&case.spec).to_yaml());
  if let Some(rw) = &case.rewrite {
    let mut r = serde_yaml::Mapping::new();
    r.insert(ys("source"), ys(&rw.source));
    r.insert(
      ys("rewriters"),
      serde_yaml::Value::Sequence(rw.rewriters.iter().map(|x| ys(&x.id)).collect()),
    );
    if let Some(j) = &rw.join_by {
      r.insert(ys("joinBy"), ys(j));
    }
    let mut t = serde_yaml::Mapping::new();
    t.insert(ys("rewrite"), serde_yaml::Value::Mapping(r));
    let mut tm = serde_yaml::Mapping::new();
    tm.insert(ys("NEW"), serde_yaml::Value::Mapping(t));
    m.insert(ys("transform"), serde_yaml::Value::Mapping(tm));
    let seq: Vec<serde_yaml::Value> = rw
      .rewriters
      .iter()
      .map(|x| {
        let mut rm = serde_yaml::Mapping::new();
        rm.insert(ys("id"), ys(&x.id));
        rm.insert(ys("rule"), x.rule.to_yaml());
        rm.insert(ys("fix"), rewriter_fix_yaml(x));
        serde_yaml::Value::Mapping(rm)
      })
      .collect();
    m.insert(ys("rewriters"), serde_yaml::Value::Sequence(seq));
  }
  let expand = |e: &Expand| {
    let mut o = serde_yaml::Mapping::new();
    if let serde_yaml::Value::Mapping(rm) = e.rule.to_yaml() {
      for (k, v) in rm {
        o.insert(k, v);
      }
    }
    match &e.stop {
      Stop::Neighbor => {}
      Stop::End => {
        o.insert(ys("stopBy"), ys("end"));
      }
      Stop::Rule(r) => {
        o.insert(ys("stopBy"), r.to_yaml());
      }
    }
    serde_yaml::Value::Mapping(o)
  };
  if case.object_form && case.rewrite.is_none() {
    let mut f = serde_yaml::Mapping::new();
    f.insert(ys("template"), ys(&case.template));
    if let Some(e) = &case.expand_start {
      f.insert(ys("expandStart"), expand(e));
    }
    if let Some(e) = &case.expand_end {
      f.insert(ys("expandEnd"), expand(e));
    }
    m.insert(ys("fix"), serde_yaml::Value::Mapping(f));
  } else {
    m.insert(ys("fix"), ys(&case.template));
  }
  serde_yaml::to_string(&serde_yaml::Value::Mapping(m)).unwrap()
}

fn expand_yaml(e: &Expand) -> serde_yaml::Value {
  let mut o = serde_yaml::Mapping::new();
  if let serde_yaml::Value::Mapping(rm) = e.rule.to_yaml() {
    for (k, v) in rm {
      o.insert(k, v);
    }
  }
  match &e.stop {
    Stop::Neighbor => {}
    Stop::End => {
      o.insert(ys("stopBy"), ys("end"));
    }
    Stop::Rule(r) => {
      o.insert(ys("stopBy"), r.to_yaml());
    }
  }
  serde_yaml::Value::Mapping(o)
}

fn rewriter_fix_yaml(r: &Rewriter) -> serde_yaml::Value {
  if r.expand_start.is_none() && r.expand_end.is_none() {
    return ys(&r.fix);
  }
  let mut f = serde_yaml::Mapping::new();
  f.insert(ys("template"), ys(&r.fix));
  if let Some(e) = &r.expand_start {
    f.insert(ys("expandStart"), expand_yaml(e));
  }
  if let Some(e) = &r.expand_end {
    f.insert(ys("expandEnd"), expand_yaml(e));
  }
  serde_yaml::Value::Mapping(f)
}

fn rewriter_yaml(lang: &str, r: &Rewriter, outer_value: Option<&str>) -> String {
  // stand-alone form for the reference: a variable of the enclosing rule is replaced by the
  // text it is bound to in the enclosing match
  let mut r = r.clone();
  if let (Some((name, _)), Some(value)) = (&r.outer, outer_value) {
    r.fix = r.fix.replace(&format!("${name}"), value);
  }
  let r = &r;
  let mut m = serde_yaml::Mapping::new();
  m.insert(ys("id"), ys(&r.id));
  m.insert(ys("language"), ys(lang));
  m.insert(ys("rule"), r.rule.to_yaml());
  m.insert(ys("fix"), rewriter_fix_yaml(r));
  serde_yaml::to_string(&serde_yaml::Value::Mapping(m)).unwrap()
}

type E = (usize, usize, Vec<u8>);

/// O-splice: ordered, disjoint, in-bounds, char-boundary edits applied to the text
pub fn o_splice(text: &str, edits: &[E]) -> Result<String, String> {
  let mut out: Vec<u8> = vec![];
  let mut at = 0usize;
  for (i, (pos, del, ins)) in edits.iter().enumerate() {
    if *pos < at {
      return Err(format!("edit {i} at {pos} starts before the previous one ends ({at})"));
    }
    if pos + del > text.len() {
      return Err(format!("edit {i} {pos}+{del} is out of bounds ({})", text.len()));
    }
    if !text.is_char_boundary(*pos) || !text.is_char_boundary(pos + del) {
      return Err(format!("edit {i} {pos}+{del} is not on character boundaries"));
    }
    out.extend_from_slice(&text.as_bytes()[at..*pos]);
    out.extend_from_slice(ins);
    at = pos + del;
  }
  out.extend_from_slice(&text.as_bytes()[at..]);
  String::from_utf8(out).map_err(|_| "result is not valid UTF-8".to_string())
}

fn expansion_boundary<'a>(ev: &Evaluator<'a>, n: &TsNode<'a>, e: &Expand, forward: bool) -> usize {
  let mut cur = if forward { n.next_sibling() } else { n.prev_sibling() };
  let mut first = true;
  while let Some(s) = cur {
    if matches!(e.stop, Stop::Neighbor) && !first {
      break;
    }
    first = false;
    if ev.holds(&e.rule, &s) {
      return if forward { s.end_byte() as usize } else { s.start_byte() as usize };
    }
    if let Stop::Rule(st) = &e.stop {
      if ev.holds(st, &s) {
        break;
      }
    }
    cur = if forward { s.next_sibling() } else { s.prev_sibling() };
  }
  if forward {
    n.end_byte() as usize
  } else {
    n.start_byte() as usize
  }
}

pub fn check(case: &Case, st: &mut Stats) -> CheckResult {
  let lang: SupportLang = case.lang.parse().map_err(|_| Fail::new("bad-case", "lang"))?;
  let sg = parse(lang, &case.source);
  let src = &case.source;
  let yaml = config_yaml(case);
  let globals = GlobalRules::default();
  let configs: Vec<RuleConfig<SupportLang>> = match catch(|| from_yaml_string::<SupportLang>(&yaml, &globals)) {
    Ok(Ok(c)) => c,
    Ok(Err(e)) => {
      st.discard("rule rejected at load");
      st.note(format!("load error: {e:?}").chars().take(160).collect::<String>());
      return Ok(());
    }
    Err(p) => fail!(panic_signature(&p), "panic while loading\n{yaml}\n{p}"),
  };
  let config = &configs[0];
  let fixer = match config.get_fixer() {
    Ok(Some(f)) => f,
    _ => {
      st.discard("no fixer");
      return Ok(());
    }
  };
  let ev = Evaluator::new(lang, src, &sg);
  let has_expand = case.expand_start.is_some() || case.expand_end.is_some();
  st.eval();
  st.label(&format!("lang_{}", case.lang));
  // ---- every match: the edit the CLI / LSP would build
  let all = tsutil::preorder(sg.root().get_ts_node());
  let mut n_matches = 0;
  let mut widened = false;
  let mut rewriter_fired = false;
  for n in &all {
    let node = sg.inner.adopt(n.clone());
    let Some(nm) = config.matcher.match_node(node) else { continue };
    n_matches += 1;
    if n_matches > 40 {
      break;
    }
    let edit: Edit<String> = nm.make_edit(&config.matcher, &fixer);
    let (ns, ne) = (n.start_byte() as usize, n.end_byte() as usize);
    let (es, ee) = (edit.position, edit.position + edit.deleted_length);
    let ctx = || format!("match {ns}..{ne} {:?}, edit {es}..{ee} -> {:?}\n{yaml}", &src[ns..ne.min(src.len())], String::from_utf8_lossy(&edit.inserted_text));
    if ee > src.len() || es > ee {
      fail!("C06:edit-out-of-bounds", "{}", ctx());
    }
    if !src.is_char_boundary(es) || !src.is_char_boundary(ee) {
      fail!("C06:edit-not-on-char-boundary", "{}", ctx());
    }
    if std::str::from_utf8(&edit.inserted_text).is_err() {
      fail!("C06:inserted-text-not-utf8", "{}", ctx());
    }
    if !has_expand {
      if es != ns || ee > ne {
        fail!("C06:edit-not-local", "without expansion the edit must start at the match and stay inside it: {}", ctx());
      }
    } else {
      if es > ns || ee < ne {
        fail!("C06:expansion-shrinks", "an expansion may only widen the range: {}", ctx());
      }
      // sibling sequences are only well defined when no sibling is a zero-width recovery node
      // (tree-sitter's cursor and next_sibling disagree about those; same restriction as C05/C19)
      let zero_width_sibling = n
        .parent()
        .map(|p| tsutil::children(&p).iter().any(|c| c.start_byte() == c.end_byte()))
        .unwrap_or(false);
      if zero_width_sibling {
        st.label("expansion_boundary_skipped_zero_width_sibling");
        continue;
      }
      let exp_s = case.expand_start.as_ref().map(|e| expansion_boundary(&ev, n, e, false)).unwrap_or(ns);
      let exp_e = case.expand_end.as_ref().map(|e| expansion_boundary(&ev, n, e, true)).unwrap_or(ne);
      if (es, ee) != (exp_s, exp_e) {
        fail!(
          "C06:expansion-boundary",
          "expanded range is {es}..{ee}, the sibling search of the rule reference gives {exp_s}..{exp_e}: {}",
          ctx()
        );
      }
      if (es, ee) != (ns, ne) {
        widened = true;
      }
    }
    // ---- rewrite transform relative to the captured text
    if let Some(rw) = &case.rewrite {
      let env = nm.get_env();
      if let Some(got) = env.get_transformed("NEW") {
        let got = String::from_utf8_lossy(got).into_owned();
        match reference_rewrite(&case.lang, &case.source, rw, &sg, env) {
          Some((expect, fired)) => {
            st.label("rewrite_checked");
            if fired {
              rewriter_fired = true;
            }
            if got != expect {
              fail!(
                "C06:rewrite",
                "rewrite of {} gives {:?}, reference splice gives {:?}\n{yaml}",
                rw.source,
                got,
                expect
              );
            }
          }
          None => st.label("rewrite_reference_unavailable"),
        }
      }
    }
  }
  // ---- overlap-free mode + splice model
  let edits: Vec<Edit<String>> = sg.root().replace_all(&config.matcher, &fixer);
  let es: Vec<E> = edits
    .iter()
    .map(|e| (e.position, e.deleted_length, e.inserted_text.clone()))
    .collect();
  match o_splice(src, &es) {
    Ok(expected) => {
      let mut doc = sg.clone();
      for e in edits.into_iter().rev() {
        if doc.edit(e).is_err() {
          fail!("C06:edit-error", "AstGrep::edit failed\n{yaml}");
        }
      }
      if doc.source() != expected {
        fail!("C06:splice", "applying the edits back to front differs from the splice model\n{yaml}");
      }
      if es.len() >= 2 {
        st.label("multi_edit_file");
      }
    }
    Err(why) => {
      let sig = if has_expand { "C06:overlap-free-edits-not-disjoint:with-expansion" } else { "C06:overlap-free-edits-not-disjoint" };
      fail!(sig, "edits of the overlap-free traversal are not a valid ordered, disjoint edit list: {why}\n edits: {:?}\n{yaml}", es.iter().map(|e| (e.0, e.1)).collect::<Vec<_>>());
    }
  }
  if !src.is_ascii() {
    st.label("multibyte_source");
  }
  if widened {
    st.label("expand_hit");
  }
  if rewriter_fired {
    st.label("rewriter_fired");
  }
  if es.len() >= 2 || widened || rewriter_fired {
    st.label("nontrivial");
    st.nontrivial(&(&case.lang, &case.source, &yaml));
    if st.wants_sample() {
      st.sample(json!({"lang": case.lang, "config": yaml, "source_head": src.chars().take(120).collect::<String>(), "edits": es.len(), "expand_hit": widened, "rewriter_fired": rewriter_fired}));
    }
  }
  Ok(())
}

/// Reference for `rewrite`: visit the captured node(s) in pre-order, first matching rewriter
/// wins, drop edits starting before the previous accepted end, splice into the captured slice
/// (or join the replacements).
pub fn reference_rewrite<'t>(
  lang_name: &str,
  src: &str,
  rw: &RewriteSpec,
  sg: &'t tsutil::Sg,
  env: &MetaVarEnv<'t, StrDoc<SupportLang>>,
) -> Option<(String, bool)> {
  let name = rw.source.trim_start_matches('$');
  let nodes: Vec<TsNode> = if rw.source.starts_with("$$$") {
    env.get_multiple_matches(name).iter().map(|n| n.get_ts_node()).collect()
  } else {
    env.get_match(name).map(|n| n.get_ts_node()).into_iter().collect()
  };
  if nodes.is_empty() {
    return None;
  }
  let start = nodes[0].start_byte() as usize;
  let end = nodes.last().unwrap().end_byte() as usize;
  // rewriters as stand-alone rules (public API); they inherit the enclosing environment
  let globals = GlobalRules::default();
  let mut rws = vec![];
  for r in &rw.rewriters {
    let outer_value = match &r.outer {
      Some((name, _)) => {
        let v = env.get_match(name)?.text().to_string();
        if v.contains('\n') || v.contains('$') {
          return None;
        }
        Some(v)
      }
      None => None,
    };
    let c = from_yaml_string::<SupportLang>(&rewriter_yaml(lang_name, r, outer_value.as_deref()), &globals).ok()?;
    rws.push(c.into_iter().next()?);
  }
  let fixers: Vec<_> = rws.iter().map(|c| c.get_fixer().ok().flatten()).collect::<Option<Vec<_>>>()?;
  let mut enclosing = env.clone();
  // the enclosing env at transform time has no NEW yet; a stale NEW is never read by these rewriters
  let _ = &mut enclosing;
  let mut edits: Vec<E> = vec![];
  for n in &nodes {
    for d in tsutil::preorder(n.clone()) {
      for (c, f) in rws.iter().zip(fixers.iter()) {
        let mut cow = Cow::Borrowed(&enclosing);
        let node = sg.inner.adopt(d.clone());
        if let Some(m) = c.matcher.match_node_with_env(node, &mut cow) {
          let nm = NodeMatch::new(m, cow.into_owned());
          let e: Edit<String> = nm.make_edit(&c.matcher, f);
          edits.push((e.position, e.deleted_length, e.inserted_text));
          break;
        }
      }
    }
  }
  if edits.iter().any(|e| e.0 < start || e.0 + e.1 > end) {
    // an expanding rewriter fix reaches outside the captured text: the property only speaks
    // about edits relative to the captured text; nothing to compare (a panic is still caught)
    return None;
  }
  let fired = !edits.is_empty();
  let mut accepted: Vec<E> = vec![];
  let mut last_end = start;
  for e in edits {
    if e.0 < last_end {
      continue;
    }
    last_end = e.0 + e.1;
    accepted.push(e);
  }
  let out = match &rw.join_by {
    Some(j) => accepted
      .iter()
      .map(|e| String::from_utf8_lossy(&e.2).into_owned())
      .collect::<Vec<_>>()
      .join(j),
    None => {
      let mut out = String::new();
      let mut at = start;
      for (p, d, ins) in &accepted {
        out.push_str(src.get(at..*p)?);
        out.push_str(&String::from_utf8_lossy(ins));
        at = p + d;
      }
      out.push_str(src.get(at..end.max(at))?);
      out
    }
  };
  // the transformed value is stored de-indented relative to the capture's line
  Some((deindent_like_capture(src, start, &out), fired))
}

/// insert_transformation() stores the string with the source indentation of the capture's first
/// line removed from continuation lines (same rule as for captured snippets)
fn deindent_like_capture(src: &str, start: usize, text: &str) -> String {
  if !text.contains('\n') {
    return text.to_string();
  }
  let is = crate::c07::indent_at(src, start);
  if is == 0 {
    return text.to_string();
  }
  let pad = " ".repeat(is);
  text
    .split('\n')
    .enumerate()
    .map(|(i, l)| if i == 0 { l } else { l.strip_prefix(&pad).unwrap_or(l) })
    .collect::<Vec<_>>()
    .join("\n")
}

fn stage_opts() -> SrcOpts {
  let mut opts = SrcOpts::all_langs().with_errors();
  opts.max_bytes = 1500;
  opts.synth_weight = 4;
  opts
}

/// the same stage, driven by bytes (coverage-guided tier)
pub fn erased() -> crate::fuzz::Erased {
  let corpus: &'static Corpus = Box::leak(Box::new(Corpus::load()));
  let opts: &'static SrcOpts = Box::leak(Box::new(stage_opts()));
  crate::fuzz::Erased::generic("C06", "rewrites", move || strategy(opts), move |c, st| interpret(corpus, opts, c, st), check)
}

pub fn run(cfg: &RunCfg) -> i32 {
  let mut report = Report::new(
    cfg,
    "case = (language, source incl. multi-byte / CRLF, pattern matcher cut from the source, fix in string or object form with optional expandStart / expandEnd (separator regexes or kinds; stopBy neighbor|end|rule), optional `rewrite` transform with 1-3 rewriters and joinBy). For every match the edit built by make_edit is validated (bounds, char boundaries, UTF-8, locality or exact expansion boundary by the reference sibling search); the overlap-free edit list is validated and applied back-to-front through AstGrep::edit against O-splice; rewrite results against a reference splice. Non-trivial = distinct case with >= 2 edits in the file, a widening expansion, or a rewriter that fired.",
  );
  report.assume("rewriter sub-rules are matched through the public Matcher API with a copy of the enclosing environment");
  let known = Known::load(&cfg.prop);
  if let Some(path) = &cfg.replay {
    if read_replay(path).stage == "update-all" {
      return crate::replay_main::<crate::c18::Case>(cfg, path, crate::c18::check);
    }
    return crate::replay_main::<Case>(cfg, path, check);
  }
  let corpus = Corpus::load();
  crate::replay_known::<Case>(&mut report, &known, check);
  let opts = stage_opts();
  let total = cfg.budget(15_000, 400_000);
  let o = drive(cfg, "rewrites", total, &known, || strategy(&opts), |c, st| interpret(&corpus, &opts, c, st), check);
  report.absorb("rewrites", o);
  // the property's last observation point, "file bytes after --update-all": projects of C18
  // judged by O-update (old content + announced edits = new content, nothing else moves)
  let total = cfg.budget(400, 4_000);
  let o = drive(cfg, "update-all", total, &known, crate::c18::strategy, crate::c18::interpret, crate::c18::check);
  report.absorb("update-all", o);
  crate::cli::cleanup_work_root();
  report.floor("nontrivial", 0.2, "evaluations");
  crate::fuzz::stage(cfg, &mut report, &known, 20000);
  report.finish()
}
