//! C07 — fix templates substitute captured code verbatim and keep relative indentation.
use crate::engine::*;
use crate::fail;
use crate::gen::{self, Corpus, SrcChoice, SrcOpts};
use crate::langs;
use crate::pat::{self, PatSpec};
use crate::tsutil::{self, parse};
use ast_grep_core::matcher::MatcherExt;
use ast_grep_core::replacer::{Replacer, TemplateFix};
use ast_grep_language::SupportLang;
use proptest::prelude::*;
use proptest::sample::Index;
use serde::{Deserialize, Serialize};
use serde_json::json;
use std::collections::BTreeMap;

#[derive(Clone, Debug, Serialize, Deserialize)]
pub struct Case {
  pub lang: String,
  pub source: String,
  pub spec: PatSpec,
  pub template: String,
  /// true when the template is the pattern text itself (identity rewrite clause)
  pub identity: bool,
}

#[derive(Clone, Debug)]
pub enum TplPiece {
  Lit(u8),
  Var(u8),
  NewLine(u8),
}

#[derive(Clone, Debug)]
pub struct Choice {
  src: SrcChoice,
  node: Index,
  holes: Vec<Index>,
  run: Option<(Index, Index)>,
  site_indent: u8,
  tpl_mode: u8,
  pieces: Vec<TplPiece>,
}

pub fn strategy(opts: &SrcOpts) -> BoxedStrategy<Choice> {
  let piece = prop_oneof![
    3 => (0u8..16).prop_map(TplPiece::Lit),
    4 => (0u8..8).prop_map(TplPiece::Var),
    2 => (0u8..5).prop_map(TplPiece::NewLine),
  ];
  (
    gen::src_choice(opts),
    any::<Index>(),
    prop::collection::vec(any::<Index>(), 1..=3),
    prop::option::weighted(0.4, (any::<Index>(), any::<Index>())),
    0u8..13,
    0u8..10,
    prop::collection::vec(piece, 1..10),
  )
    .prop_map(|(src, node, holes, run, site_indent, tpl_mode, pieces)| Choice {
      src,
      node,
      holes,
      run,
      site_indent,
      tpl_mode,
      pieces,
    })
    .boxed()
}

const LITS: &[&str] = &[
  "x", " ", "foo(", ")", ", ", "é", "$", "$ ", "$lower", "// c", "{", "}", "= ", "日本", "a$", "wrap",
];

fn reindent(text: &str, k: usize) -> String {
  if k == 0 {
    return text.to_string();
  }
  let pad = " ".repeat(k);
  let mut out = String::new();
  for (i, line) in text.split('\n').enumerate() {
    if i > 0 {
      out.push('\n');
    }
    if !line.is_empty() {
      out.push_str(&pad);
    }
    out.push_str(line);
  }
  out
}

fn var_name(spec: &PatSpec, v: u8) -> String {
  // bound names first, then an unbound one
  let mut names: Vec<String> = spec.holes.iter().map(|h| format!("${}", h.name)).collect();
  if let Some(r) = &spec.run {
    names.push(format!("$$${}", r.name));
  }
  names.push("$UNBOUND".to_string());
  names.push("$$$NOPE".to_string());
  names[v as usize % names.len()].clone()
}

pub fn interpret(corpus: &Corpus, opts: &SrcOpts, ch: &Choice, st: &mut Stats) -> Option<Case> {
  let built = gen::build_source(corpus, &ch.src, opts);
  let lang = built.lang;
  if built.text.contains('\r') {
    st.discard("CRLF is outside the stated indentation rule");
    return None;
  }
  let mut text = reindent(&built.text, ch.site_indent as usize);
  // TAB-indented variant: every leading space becomes a TAB. TABs are not indentation for the
  // replacer (only spaces at the line start count), so captured text must come out verbatim.
  if ch.site_indent % 5 == 3 && !matches!(lang, SupportLang::Yaml) {
    text = text
      .split('\n')
      .map(|l| {
        let n = l.len() - l.trim_start_matches(' ').len();
        format!("{}{}", "\t".repeat(n), &l[n..])
      })
      .collect::<Vec<_>>()
      .join("\n");
    st.label("tab_indented_source");
  }
  let sg = parse(lang, &text);
  let cands = pat::cut_candidates(&text, sg.root().get_ts_node(), 400);
  if cands.is_empty() {
    return None;
  }
  let prefer_ml = ch.site_indent % 2 == 0;
  let cands: Vec<_> = if prefer_ml && cands.iter().any(|c| tsutil::text(&text, c).contains('\n')) {
    cands.into_iter().filter(|c| tsutil::text(&text, c).contains('\n')).collect()
  } else {
    cands
  };
  // content mode: the capture is a run that starts with a white-space-led, multi-line content node
  // (block comment / string / template content): its first line's leading spaces are content
  let spacey_child = |c: &tree_sitter::Node| {
    tsutil::children(c).iter().any(|k| {
      let t = tsutil::text(&text, k);
      k.is_named() && t.starts_with(' ') && t.contains('\n')
    })
  };
  let content_mode = ch.site_indent % 4 == 1 && cands.iter().any(|c| spacey_child(c));
  let cands: Vec<_> = if content_mode { cands.into_iter().filter(|c| spacey_child(c)).collect() } else { cands };
  let n = &cands[ch.node.index(cands.len())];
  let mut spec = if content_mode {
    st.label("content_capture_mode");
    pat::cut_pattern_pref(&text, n, &[], Some(ch.run.unwrap_or((ch.node, ch.node))), 2)
  } else {
    pat::cut_pattern_pref(&text, n, &ch.holes, ch.run, prefer_ml as u8)
  };
  let ok_plain = pat::build(&spec, lang)
    .map(|p| pat::shape_matches(&text, &spec, &p.node, n).is_ok())
    .unwrap_or(false);
  if !ok_plain {
    spec.selector = Some(spec.kind.clone());
    let ok_ctx = catch(|| pat::build(&spec, lang))
      .ok()
      .flatten()
      .map(|p| pat::shape_matches(&text, &spec, &p.node, n).is_ok())
      .unwrap_or(false);
    if !ok_ctx {
      st.discard("pattern does not parse to the shape of the code");
      return None;
    }
  }
  let (template, identity) = match ch.tpl_mode {
    0..=2 => (spec.text.clone(), true),
    3 => (format!("wrap(\n    {}\n)", var_name(&spec, 0)), false),
    4 => (format!("  {} = {}", var_name(&spec, 0), var_name(&spec, 1)), false),
    5 => (
      format!("if (c) {{\n  {}\n    {}\n}}", var_name(&spec, 0), var_name(&spec, 1)),
      false,
    ),
    _ => {
      let mut t = String::new();
      for p in &ch.pieces {
        match p {
          TplPiece::Lit(i) => t.push_str(LITS[*i as usize % LITS.len()]),
          TplPiece::Var(v) => t.push_str(&var_name(&spec, *v)),
          TplPiece::NewLine(k) => {
            t.push('\n');
            t.push_str(&" ".repeat(*k as usize * 2));
          }
        }
      }
      (t, false)
    }
  };
  for l in &built.labels {
    st.label(l);
  }
  Some(Case {
    lang: langs::name(lang),
    source: text,
    spec,
    template,
    identity,
  })
}

// ---------------------------------------------------------------------------------------
// O-template

#[derive(Clone, Debug)]
pub enum Bound {
  /// byte span in the source
  Span(usize, usize),
  /// transformed string
  Text(String),
}

/// leading spaces of the line that contains `offset` (text before offset on that line may be
/// anything; only spaces at the line start count)
pub fn indent_at(text: &str, offset: usize) -> usize {
  let line_start = text[..offset].rfind('\n').map(|i| i + 1).unwrap_or(0);
  text[line_start..offset].chars().take_while(|c| *c == ' ').count()
}

#[derive(Clone, Debug, PartialEq)]
pub enum Tok {
  Lit(String),
  Single(String),
  Multi(String),
}

/// reference scanner of the template language: `$$$NAME` / `$NAME`, NAME = [A-Z_][A-Z0-9_]*
pub fn scan_template(t: &str) -> Vec<(Tok, usize)> {
  let b = t.as_bytes();
  let mut out: Vec<(Tok, usize)> = vec![];
  let mut lit = String::new();
  let mut lit_start = 0usize;
  let mut i = 0;
  let is_first = |c: u8| c.is_ascii_uppercase() || c == b'_';
  let is_rest = |c: u8| c.is_ascii_uppercase() || c == b'_' || c.is_ascii_digit();
  while i < b.len() {
    if b[i] == b'$' {
      let mut dollars = 1;
      while i + dollars < b.len() && b[i + dollars] == b'$' && dollars < 3 {
        dollars += 1;
      }
      let name_start = i + dollars;
      // `$A`, `$$A` (any-node capture spelling) and `$$$A` all denote the variable A
      if name_start < b.len() && is_first(b[name_start]) {
        let mut e = name_start;
        while e < b.len() && is_rest(b[e]) {
          e += 1;
        }
        if !lit.is_empty() {
          out.push((Tok::Lit(std::mem::take(&mut lit)), lit_start));
        }
        let name = t[name_start..e].to_string();
        out.push((if dollars == 3 { Tok::Multi(name) } else { Tok::Single(name) }, i));
        i = e;
        lit_start = i;
        continue;
      }
    }
    let ch = t[i..].chars().next().unwrap();
    if lit.is_empty() {
      lit_start = i;
    }
    lit.push(ch);
    i += ch.len_utf8();
  }
  if !lit.is_empty() {
    out.push((Tok::Lit(lit), lit_start));
  }
  out
}

pub struct Expected {
  pub exact: String,
  /// false when some capture has blank or under-indented continuation lines (clause b not claimed)
  pub indentation_claimed: bool,
  pub multi_line_capture: bool,
  pub bound_vars: usize,
}

fn shift_capture(text: &str, is: usize, it: usize, ok: &mut bool) -> String {
  if !text.contains('\n') {
    return text.to_string();
  }
  let mut out = String::new();
  for (k, line) in text.split('\n').enumerate() {
    if k == 0 {
      out.push_str(line);
      continue;
    }
    out.push('\n');
    let jk = line.chars().take_while(|c| *c == ' ').count();
    if line.trim().is_empty() || jk < is {
      *ok = false;
      // outside the claimed rule: keep the line as the reference cannot say
      out.push_str(line);
      continue;
    }
    out.push_str(&" ".repeat(jk - is + it));
    out.push_str(&line[jk..]);
  }
  out
}

pub fn o_template(template: &str, binds: &BTreeMap<String, Bound>, multi: &BTreeMap<String, Bound>, source: &str, match_start: usize) -> Expected {
  let mut ok = true;
  let mut multi_line = false;
  let mut bound_vars = 0;
  let mut body = String::new();
  for (tok, pos) in scan_template(template) {
    match &tok {
      Tok::Lit(l) => body.push_str(l),
      Tok::Single(_) | Tok::Multi(_) => {
        let b = match &tok {
          Tok::Multi(name) => multi.get(name),
          Tok::Single(name) => binds.get(name),
          Tok::Lit(_) => None,
        };
        let Some(b) = b else { continue };
        bound_vars += 1;
        let it = indent_at(template, pos);
        match b {
          Bound::Span(s, e) => {
            let text = &source[*s..*e];
            if text.contains('\n') {
              multi_line = true;
            }
            let is = indent_at(source, *s);
            body.push_str(&shift_capture(text, is, it, &mut ok));
          }
          Bound::Text(t) => {
            if t.contains('\n') {
              multi_line = true;
            }
            body.push_str(&shift_capture(t, 0, it, &mut ok));
          }
        }
      }
    }
  }
  // the whole replacement moves with the line on which the matched node starts
  let im = indent_at(source, match_start);
  let mut exact = String::new();
  for (k, line) in body.split('\n').enumerate() {
    if k > 0 {
      exact.push('\n');
      exact.push_str(&" ".repeat(im));
    }
    exact.push_str(line);
  }
  Expected {
    exact,
    indentation_claimed: ok,
    multi_line_capture: multi_line,
    bound_vars,
  }
}

fn strip_leading_spaces(s: &str) -> String {
  s.split('\n').map(|l| l.trim_start_matches(' ')).collect::<Vec<_>>().join("\n")
}

pub fn check(case: &Case, st: &mut Stats) -> CheckResult {
  let lang: SupportLang = case.lang.parse().map_err(|_| Fail::new("bad-case", "lang"))?;
  let spec = &case.spec;
  let sg = parse(lang, &case.source);
  let Some(n_ts) = tsutil::preorder(sg.root().get_ts_node()).into_iter().find(|n| {
    n.start_byte() as usize == spec.node_start && n.end_byte() as usize == spec.node_end && n.kind() == spec.kind.as_str()
  }) else {
    fail!("bad-case", "node not found");
  };
  let Some(pattern) = pat::build(spec, lang) else {
    st.discard("precondition: pattern does not parse");
    return Ok(());
  };
  if pat::shape_matches(&case.source, spec, &pattern.node, &n_ts).is_err() {
    st.discard("precondition: shape differs");
    return Ok(());
  }
  // the look-behind of the implementation's indent detection is 512 bytes: longer lines are
  // outside the stated rule
  let line_start = case.source[..spec.node_start].rfind('\n').map(|i| i + 1).unwrap_or(0);
  if spec.node_start - line_start > 400 || (line_start == 0 && spec.node_start > 400) {
    st.discard("match site beyond the indentation look-behind");
    return Ok(());
  }
  let node = sg.inner.adopt(n_ts.clone());
  let Some(nm) = pattern.match_node(node) else {
    // C02's subject
    st.discard("pattern does not match its origin");
    return Ok(());
  };
  st.eval();
  st.label(&format!("lang_{}", case.lang));
  let fixer = TemplateFix::try_new(&case.template, &lang).map_err(|_| Fail::new("C07:template-rejected", "template rejected"))?;
  let got_bytes = fixer.generate_replacement(&nm);
  let got = match String::from_utf8(got_bytes) {
    Ok(s) => s,
    Err(_) => fail!("C07:invalid-utf8", "replacement is not valid UTF-8 for template {:?}", case.template),
  };
  // reference bindings come from the construction of the pattern, not from the implementation's env
  let mut binds = BTreeMap::new();
  for h in &spec.holes {
    binds.insert(h.name.clone(), Bound::Span(h.start, h.end));
  }
  let mut multi = BTreeMap::new();
  if let Some(r) = &spec.run {
    // the implementation spans first..last bound node; with a non-empty run that is the run's span
    multi.insert(r.name.clone(), Bound::Span(r.start, r.end));
  }
  let exp = o_template(&case.template, &binds, &multi, &case.source, spec.node_start);
  let ctx = || {
    format!(
      "template {:?}\n code {:?}\n pattern {:?}\n site indent {}\n expected {:?}\n got      {:?}",
      case.template,
      &case.source[spec.node_start..spec.node_end],
      spec.text,
      indent_at(&case.source, spec.node_start),
      exp.exact,
      got
    )
  };
  // (a) verbatim substitution and literal copy, indentation aside
  if strip_leading_spaces(&got) != strip_leading_spaces(&exp.exact) {
    fail!("C07:not-verbatim", "replacement differs from literal text + captured code\n{}", ctx());
  }
  // (b) indentation rule
  if exp.indentation_claimed {
    st.label("indentation_clause_checked");
    if got != exp.exact {
      fail!("C07:indentation", "indentation of the replacement differs from the rule\n{}", ctx());
    }
  } else {
    st.label("capture_blank_or_under_indented(excluded from clause b)");
  }
  // (c) identity rewrite
  if case.identity {
    let literal_has_newline = scan_template(&case.template).iter().any(|(t, _)| matches!(t, Tok::Lit(l) if l.contains('\n')));
    // the template is one line, so every variable sits on the template's first line; the no-op
    // consequence needs each multi-line capture to start on a source line indented like the
    // match site (a capture that starts on a deeper-indented later line, `} else {`, is shifted
    // by the rule itself)
    let site_indent = indent_at(&case.source, spec.node_start);
    let starts_at_site_indent = spec
      .holes
      .iter()
      .map(|h| (h.start, h.end))
      .chain(spec.run.iter().map(|r| (r.start, r.end)))
      .all(|(s0, e0)| !case.source[s0..e0].contains('\n') || indent_at(&case.source, s0) == site_indent);
    if !starts_at_site_indent {
      st.label("identity_not_claimed(capture starts on a deeper line)");
    }
    if !literal_has_newline && exp.indentation_claimed && starts_at_site_indent {
      st.label("identity_rewrite_checked");
      let orig = &case.source[spec.node_start..spec.node_end];
      if got != orig {
        fail!("C07:identity-rewrite", "rewriting the node to its own pattern is not a no-op\n original {:?}\n{}", orig, ctx());
      }
    }
  }
  if exp.multi_line_capture {
    st.label("multi_line_capture");
  }
  let site = indent_at(&case.source, spec.node_start);
  if site > 0 {
    st.label("nonzero_site_indent");
  }
  if exp.bound_vars >= 1 && (exp.multi_line_capture || site > 0) {
    st.label("nontrivial");
    st.nontrivial(&(&case.lang, &case.template, &case.source[spec.node_start..spec.node_end], site));
    if st.wants_sample() && exp.multi_line_capture {
      st.sample(json!({"lang": case.lang, "template": case.template, "pattern": spec.text, "code": &case.source[spec.node_start..spec.node_end], "site_indent": site, "replacement": got}));
    }
  }
  Ok(())
}

fn stage_opts() -> SrcOpts {
  let mut opts = SrcOpts::all_langs();
  opts.allow_crlf = false;
  opts.synth_weight = 4;
  opts
}

/// the same stage, driven by bytes (coverage-guided tier)
pub fn erased() -> crate::fuzz::Erased {
  let corpus: &'static Corpus = Box::leak(Box::new(Corpus::load()));
  let opts: &'static SrcOpts = Box::leak(Box::new(stage_opts()));
  crate::fuzz::Erased::generic("C07", "templates", move || strategy(opts), move |c, st| interpret(corpus, opts, c, st), check)
}

pub fn run(cfg: &RunCfg) -> i32 {
  let mut report = Report::new(
    cfg,
    "case = (language, source re-indented by 0-12 spaces, node + holes/run from the C02 construction, template: the pattern itself (identity) | wrapping multi-line templates with indented slots | random mix of literals, lone sigils, lower-case names, unbound variables, variables adjacent to identifier characters, line breaks). Oracle = O-template computed from the construction's spans (not from the implementation's environment). Non-trivial = distinct case with >= 1 bound variable and (multi-line capture or non-zero site indentation).",
  );
  report.assume("indentation = leading spaces; tabs, CRLF and lines longer than the 512-byte look-behind are excluded and counted");
  report.assume("captures with blank or under-indented continuation lines are checked for verbatim content only (the property's restriction)");
  let known = Known::load(&cfg.prop);
  if let Some(path) = &cfg.replay {
    return crate::replay_main::<Case>(cfg, path, check);
  }
  let corpus = Corpus::load();
  crate::replay_known::<Case>(&mut report, &known, check);
  let opts = stage_opts();
  let total = cfg.budget(40_000, 1_000_000);
  let o = drive(cfg, "templates", total, &known, || strategy(&opts), |c, st| interpret(&corpus, &opts, c, st), check);
  report.absorb("templates", o);
  report.floor("multi_line_capture", 0.15, "evaluations");
  crate::fuzz::stage(cfg, &mut report, &known, 40000);
  report.finish()
}
