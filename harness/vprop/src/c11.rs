//! C11 — no YAML makes ast-grep crash: bad config is an error, good config never panics.
//! Every case runs in a child process (panic / abort / stack overflow / hang are attributed
//! to exactly one case).
use crate::cli::{self, TempDir};
use crate::engine::*;
use crate::tsutil::parse;
use ast_grep_config::{from_yaml_string, CombinedScan, DeserializeEnv, GlobalRules, RuleConfig};
use ast_grep_core::replacer::Replacer;
use ast_grep_language::SupportLang;
use proptest::prelude::*;
use serde::{Deserialize, Serialize};
use serde_json::json;
use serde_yaml::{Mapping, Value as Y};
use std::path::Path;

#[derive(Clone, Debug, Serialize, Deserialize)]
pub enum Role {
  Rule,
  UtilRule,
  TestFile,
  ProjectConfig,
}

#[derive(Clone, Debug, Serialize, Deserialize)]
pub struct Case {
  pub role: Role,
  pub yaml: String,
  /// run through the real CLI instead of the library
  pub cli: bool,
  /// the reference cycle planted by the generator, if any (names the operator shape)
  #[serde(default)]
  pub planted: Option<String>,
  /// front-end stage: the complete command line (the rule text is `rule.yml`) and the standard input
  #[serde(default)]
  pub args: Vec<String>,
  #[serde(default)]
  pub stdin: Option<String>,
}

// ---------------------------------------------------------------------------------------
// generators

#[derive(Clone, Debug)]
pub enum V {
  Str(u8),
  Num(u8),
  Bool(bool),
  Null,
  Seq(Vec<V>),
  Rule(Box<RuleV>),
}

#[derive(Clone, Debug)]
pub struct RuleV {
  keys: Vec<(u8, V)>,
}

#[derive(Clone, Debug)]
pub struct DocV {
  rule: RuleV,
  utils: Vec<(u8, RuleV)>,
  constraints: Vec<(u8, RuleV)>,
  transforms: Vec<(u8, u8, u8, u8, u8)>,
  rewriters: Vec<(u8, RuleV, Option<u8>)>,
  fix: Option<(u8, bool, Option<RuleV>)>,
  lang: u8,
  misc: Vec<(u8, V)>,
  cycle: Option<(u8, u8)>,
  depth_bomb: Option<u8>,
  /// which section carries the adversarial content (the others are valid or absent), so that
  /// loading gets as far as that section: 0 rule, 1 utils, 2 constraints, 3 transform,
  /// 4 rewriters, 5 fix, 6 top-level keys, 7.. everything at once
  focus: u8,
}

#[derive(Clone, Debug)]
pub enum Choice {
  Structured { docs: Vec<DocV>, role: u8, cli: bool },
  Mutated { seed: u8, muts: Vec<(u8, u16, u8)>, role: u8, cli: bool },
  Raw { bytes: Vec<u8>, role: u8 },
}

const STRS: &[&str] = &[
  "", "$", "$A", "$$$", "$$$ARGS", "é", "😀$A", "(", "[", "a{", "(?P<", "\\", "**", "foo($A)", "$A($$$B)", "console.log($A)", "^[a-z]+$", "(a+)+$", "[", "*", "x{1000}{1000}",
  "2n+1", "-n+3", "n n", "99999999999999999999n+1", "+-1", "odd", "identifier", "call_expression", "ERROR", "nope", "body", "function", "arguments", "neighbor", "end", "u0", "u1", "g0",
  "self", "rw0", "A", "B", "NEW", "$NEW", "$$A", "$_", "lowerCase", "camelCase", "bogusCase", "underscore", "caseChange", "warning", "off", "error", "bogus", "JavaScript", "js", "Python",
  "Klingon", "src/**/*.js", "[", "{a,b", "$A $A", "foo(\n  $A\n)", "\t$A", "123", "-0", "~", "<<", "*a", "&a", "!!python/object:x", ": :", "---", "{", "0x10", "1e400", ".inf", ".nan",
];

fn s(k: u8) -> String {
  let i = k as usize % (STRS.len() + 2);
  if i == STRS.len() {
    "a".repeat(5000)
  } else if i == STRS.len() + 1 {
    "$A".repeat(400)
  } else {
    STRS[i].to_string()
  }
}

fn num(k: u8) -> Y {
  match k % 12 {
    0 => Y::Number(0.into()),
    1 => Y::Number(1.into()),
    2 => Y::Number((-1i64).into()),
    3 => Y::Number(u64::MAX.into()),
    4 => Y::Number(i64::MIN.into()),
    5 => Y::Number(serde_yaml::Number::from(1.5f64)),
    6 => Y::Number(serde_yaml::Number::from(f64::NAN)),
    7 => Y::Number((i32::MAX as i64).into()),
    8 => Y::Number((i32::MIN as i64).into()),
    9 => Y::Number(4294967296u64.into()),
    10 => Y::Number(2.into()),
    _ => Y::Number(serde_yaml::Number::from(f64::INFINITY)),
  }
}

const NTHS: &[&str] = &[
  "2n+1", "-n+3", "n", "odd", "+n", "-n", "0n+0", "99999999999n+1", "n-2147483647", "n+2147483647", "2147483647n", "-2147483647n-2147483647", "2147483648", "4294967297", "1 n + 2", "n+", "４",
  "2n+1 of foo", "", "２n+1", "n+٣", "²n", "n+４", "１", "2n+１", "৩n",
];

const RULE_KEYS: &[&str] = &[
  "pattern", "kind", "regex", "nthChild", "range", "inside", "has", "precedes", "follows", "all", "any", "not", "matches", "stopBy", "field", "bogusKey", "context", "selector", "strictness",
  "position", "reverse", "ofRule",
];

fn v_strategy() -> impl Strategy<Value = V> {
  let leaf = prop_oneof![
    6 => any::<u8>().prop_map(V::Str),
    2 => any::<u8>().prop_map(V::Num),
    1 => any::<bool>().prop_map(V::Bool),
    1 => Just(V::Null),
  ];
  leaf.prop_recursive(4, 24, 4, |inner| {
    prop_oneof![
      2 => prop::collection::vec(inner.clone(), 0..4).prop_map(V::Seq),
      5 => prop::collection::vec((0u8..RULE_KEYS.len() as u8, inner), 1..4).prop_map(|keys| V::Rule(Box::new(RuleV { keys }))),
    ]
  })
}

fn rulev() -> impl Strategy<Value = RuleV> {
  prop::collection::vec((0u8..RULE_KEYS.len() as u8, v_strategy()), 1..4).prop_map(|keys| RuleV { keys })
}

fn docv() -> impl Strategy<Value = DocV> {
  (
    (
      rulev(),
      prop::collection::vec((any::<u8>(), rulev()), 0..3),
      prop::collection::vec((any::<u8>(), rulev()), 0..2),
      prop::collection::vec((0u8..5, any::<u8>(), any::<u8>(), any::<u8>(), any::<u8>()), 0..4),
      prop::collection::vec((any::<u8>(), rulev(), prop::option::of(any::<u8>())), 0..3),
    ),
    (
      prop::option::of((any::<u8>(), any::<bool>(), prop::option::of(rulev()))),
      any::<u8>(),
      prop::collection::vec((0u8..10, v_strategy()), 0..3),
      prop::option::weighted(0.25, (0u8..10, 0u8..6)),
      prop::option::weighted(0.05, 0u8..4),
      0u8..10,
    ),
  )
    .prop_map(|((rule, utils, constraints, transforms, rewriters), (fix, lang, misc, cycle, depth_bomb, focus))| DocV {
      rule,
      utils,
      constraints,
      transforms,
      rewriters,
      fix,
      lang,
      misc,
      cycle,
      depth_bomb,
      focus,
    })
}

pub fn strategy() -> BoxedStrategy<Choice> {
  prop_oneof![
    6 => (prop::collection::vec(docv(), 1..3), 0u8..8, prop::bool::weighted(0.03)).prop_map(|(docs, role, cli)| Choice::Structured { docs, role, cli }),
    3 => (any::<u8>(), prop::collection::vec((0u8..6, any::<u16>(), any::<u8>()), 1..6), 0u8..8, prop::bool::weighted(0.03))
      .prop_map(|(seed, muts, role, cli)| Choice::Mutated { seed, muts, role, cli }),
    1 => (prop::collection::vec(any::<u8>(), 0..200), 0u8..8).prop_map(|(bytes, role)| Choice::Raw { bytes, role }),
  ]
  .boxed()
}

fn ys(x: &str) -> Y {
  Y::String(x.to_string())
}

fn render_v(v: &V, depth: usize) -> Y {
  match v {
    V::Str(k) => ys(&s(*k)),
    V::Num(k) => num(*k),
    V::Bool(b) => Y::Bool(*b),
    V::Null => Y::Null,
    V::Seq(vs) => Y::Sequence(vs.iter().map(|x| render_v(x, depth + 1)).collect()),
    V::Rule(r) => render_rule(r, depth + 1),
  }
}

/// value shaped for the key (so that most documents reach rule construction), else raw
fn render_rule(r: &RuleV, depth: usize) -> Y {
  let mut m = Mapping::new();
  for (k, v) in &r.keys {
    let key = RULE_KEYS[*k as usize % RULE_KEYS.len()];
    let val = match (key, v) {
      ("all" | "any", V::Seq(_)) => render_v(v, depth),
      ("all" | "any", other) => Y::Sequence(vec![render_v(other, depth)]),
      ("inside" | "has" | "precedes" | "follows" | "not" | "ofRule", V::Rule(_)) => render_v(v, depth),
      ("inside" | "has" | "precedes" | "follows" | "not", V::Str(k)) => {
        let mut mm = Mapping::new();
        mm.insert(ys("kind"), ys(&s(*k)));
        mm.insert(ys("stopBy"), ys("end"));
        Y::Mapping(mm)
      }
      ("range", V::Num(k)) => {
        let pos = |a: u8, b: u8| {
          let mut p = Mapping::new();
          p.insert(ys("line"), num(a));
          p.insert(ys("column"), num(b));
          Y::Mapping(p)
        };
        let mut mm = Mapping::new();
        mm.insert(ys("start"), pos(*k, k.wrapping_add(1)));
        mm.insert(ys("end"), pos(k.wrapping_add(3), k.wrapping_mul(7)));
        Y::Mapping(mm)
      }
      ("nthChild", V::Str(k)) => ys(NTHS[*k as usize % NTHS.len()]),
      ("nthChild", V::Rule(_)) => {
        let mut mm = Mapping::new();
        mm.insert(ys("position"), ys("2n+1"));
        mm.insert(ys("ofRule"), render_v(v, depth));
        mm.insert(ys("reverse"), Y::Bool(depth % 2 == 0));
        Y::Mapping(mm)
      }
      _ => render_v(v, depth),
    };
    m.insert(ys(key), val);
  }
  Y::Mapping(m)
}

const LANGS11: &[&str] = &["JavaScript", "TypeScript", "Python", "Rust", "Go", "Html", "Css", "Json", "Yaml", "C", "Klingon", "js"];

fn render_doc(d: &DocV, idx: usize) -> Y {
  let mut m = Mapping::new();
  m.insert(ys("id"), ys(&format!("doc{}", idx % 2)));
  // mostly a real language, so that documents reach rule construction and scanning
  let lang = if d.lang % 4 != 0 { "JavaScript" } else { LANGS11[(d.lang / 4) as usize % LANGS11.len()] };
  m.insert(ys("language"), ys(lang));
  let all = d.focus >= 7;
  let mut rule = if all || d.focus == 0 { render_rule(&d.rule, 0) } else { Y::Mapping(Mapping::new()) };
  // valid by default: a kind-determining atom the adversarial keys are added to
  if d.lang % 5 != 0 || !(all || d.focus == 0) {
    if let Y::Mapping(r) = &mut rule {
      let (k, v) = [("pattern", "foo($A)"), ("pattern", "$F($$$ARGS)"), ("kind", "call_expression"), ("kind", "identifier"), ("pattern", "console.log($A)"), ("pattern", "$A")][(d.lang / 5) as usize % 6];
      if d.lang % 3 != 0 {
        // drop the random keys that most often make the rule invalid
        for bad in ["bogusKey", "context", "selector", "strictness", "position", "reverse", "ofRule", "stopBy", "field"] {
          r.remove(ys(bad));
        }
      }
      r.insert(ys(k), ys(v));
    }
  }
  if let Some(n) = d.depth_bomb {
    // deep nesting through one operator
    let op = ["not", "inside", "has", "all"][n as usize % 4];
    for _ in 0..150 {
      let mut mm = Mapping::new();
      mm.insert(ys(op), if op == "all" { Y::Sequence(vec![rule]) } else { rule });
      rule = Y::Mapping(mm);
    }
  }
  m.insert(ys("rule"), rule);
  let mut utils = Mapping::new();
  for (i, (_, u)) in d.utils.iter().enumerate() {
    if all || d.focus == 1 {
      utils.insert(ys(&format!("u{i}")), render_rule(u, 0));
    } else {
      let mut k = Mapping::new();
      k.insert(ys("kind"), ys(["number", "identifier", "string"][i % 3]));
      utils.insert(ys(&format!("u{i}")), Y::Mapping(k));
    }
  }
  if let Some((op, len)) = d.cycle {
    // reference graphs: utilities wired into a cycle through one operator
    // len >= 3: the cycle closes through the document itself (a global utility that reaches
    // itself through its own local utilities)
    let through_doc = len >= 3;
    let n = if through_doc { len as usize - 2 } else { len as usize + 1 };
    for i in 0..n {
      let next = if through_doc && i + 1 == n { ys(&format!("doc{}", idx % 2)) } else { ys(&format!("c{}", (i + 1) % n)) };
      let mut me = Mapping::new();
      me.insert(ys("matches"), next);
      let me = Y::Mapping(me);
      let wrap = |k: &str, inner: Y| {
        let mut mm = Mapping::new();
        mm.insert(ys(k), inner);
        Y::Mapping(mm)
      };
      let rel = |k: &str, inner: Y| {
        let mut mm = match inner {
          Y::Mapping(x) => x,
          _ => Mapping::new(),
        };
        mm.insert(ys("stopBy"), ys("end"));
        wrap(k, Y::Mapping(mm))
      };
      let body = match op % 10 {
        0 => me,
        1 => wrap("all", Y::Sequence(vec![me])),
        2 => wrap("any", Y::Sequence(vec![me])),
        3 => wrap("not", me),
        4 => rel("inside", rel("has", me)),
        5 => rel("has", rel("inside", me)),
        6 => rel("precedes", rel("follows", me)),
        7 => {
          let mut nth = Mapping::new();
          nth.insert(ys("position"), Y::Number(1.into()));
          nth.insert(ys("ofRule"), me);
          wrap("nthChild", Y::Mapping(nth))
        }
        8 => rel("inside", me),
        _ => {
          let mut mm = Mapping::new();
          mm.insert(ys("kind"), ys("identifier"));
          mm.insert(ys("inside"), {
            let mut r = Mapping::new();
            r.insert(ys("kind"), ys("arguments"));
            r.insert(ys("stopBy"), me);
            Y::Mapping(r)
          });
          Y::Mapping(mm)
        }
      };
      utils.insert(ys(&format!("c{i}")), body);
    }
    // the main rule uses the cycle on identifiers
    let mut r = Mapping::new();
    r.insert(ys("kind"), ys("identifier"));
    r.insert(ys("matches"), ys("c0"));
    m.insert(ys("rule"), Y::Mapping(r));
  }
  if !utils.is_empty() {
    m.insert(ys("utils"), Y::Mapping(utils));
  }
  if d.cycle.is_some() {
    // keep a document with a planted reference cycle otherwise minimal, so that it loads
    // whenever the cycle itself is accepted
    for (k, v) in &d.misc {
      let key = ["severity", "message", "note", "url"][*k as usize % 4];
      if let V::Str(_) = v {
        m.insert(ys(key), ys("warning"));
      }
    }
    return Y::Mapping(m);
  }
  if !d.constraints.is_empty() && (all || d.focus == 2) {
    let mut c = Mapping::new();
    for (k, r) in &d.constraints {
      let key = ys(["A", "B", "ARGS", "ZZ", ""][*k as usize % 5]);
      if k % 7 == 6 {
        // a constraint that goes back to a utility (or to this very document when it is one)
        let mut mm = Mapping::new();
        mm.insert(ys("matches"), ys(["u0", "doc0", "doc1", "g0"][(*k as usize / 7) % 4]));
        c.insert(key, Y::Mapping(mm));
      } else {
        c.insert(key, render_rule(r, 0));
      }
    }
    m.insert(ys("constraints"), Y::Mapping(c));
  }
  if !d.transforms.is_empty() && (all || d.focus == 3 || d.focus == 4) {
    let mut t = Mapping::new();
    for (i, (kind, a, b, c, e)) in d.transforms.iter().enumerate() {
      let mut inner = Mapping::new();
      let src = ["$A", "$$$ARGS", "", "$", "é", "A", "$T0", "$T1", "$NEW", "$B", "$A", "$A", "$F", "$A", "$$$ARGS", "$T0"][*a as usize % 16];
      inner.insert(ys("source"), ys(src));
      let name = match kind % 5 {
        0 => {
          inner.insert(ys("startChar"), num(*b));
          inner.insert(ys("endChar"), num(*c));
          "substring"
        }
        1 => {
          inner.insert(ys("replace"), ys(&s(*b)));
          inner.insert(ys("by"), ys(&s(*c)));
          "replace"
        }
        2 => {
          inner.insert(ys("toCase"), ys(["lowerCase", "upperCase", "capitalize", "camelCase", "snakeCase", "kebabCase", "pascalCase", "bogus"][*b as usize % 8]));
          if c % 3 != 0 {
            let seps = ["underscore", "caseChange", "dash", "dot", "slash", "space", "bogus"];
            let mut list = vec![ys(seps[*e as usize % seps.len()])];
            if c % 3 == 2 {
              list.push(ys(seps[(*e as usize / 7) % seps.len()]));
            }
            inner.insert(ys("separatedBy"), Y::Sequence(list));
          }
          "convert"
        }
        3 => {
          // a rewrite whose source is the output of the previous transformation
          if i > 0 && e % 3 == 0 {
            inner.insert(ys("source"), ys(&format!("$T{}", i - 1)));
          }
          inner.insert(ys("rewriters"), Y::Sequence(vec![ys(&format!("rw{}", b % 3)), ys(&s(*c))]));
          if e % 2 == 0 {
            inner.insert(ys("joinBy"), ys(&s(*e)));
          }
          "rewrite"
        }
        _ => "bogusTransform",
      };
      let mut outer = Mapping::new();
      outer.insert(ys(name), Y::Mapping(inner));
      t.insert(ys(&format!("T{i}")), Y::Mapping(outer));
    }
    m.insert(ys("transform"), Y::Mapping(t));
  }
  if !d.rewriters.is_empty() && (all || d.focus == 4) {
    let seq = d
      .rewriters
      .iter()
      .enumerate()
      .map(|(i, (a, r, fix))| {
        let mut rm = Mapping::new();
        // mostly distinct ids; sometimes a duplicate or an adversarial id
        let id = match a % 8 {
          0 => format!("rw{}", (i + 1) % 3),
          1 => s(a / 8),
          _ => format!("rw{i}"),
        };
        rm.insert(ys("id"), ys(&id));
        if a % 2 == 0 {
          let mut k = Mapping::new();
          k.insert(ys("kind"), ys(["number", "identifier", "string"][i % 3]));
          rm.insert(ys("rule"), Y::Mapping(k));
        } else {
          rm.insert(ys("rule"), render_rule(r, 0));
        }
        if a % 5 == 3 {
          // a rewriter with its own transform: rewrites what it matched with rewriters again
          let mut rw = Mapping::new();
          rw.insert(ys("source"), ys(["$X", "$A", "$$$ARGS"][(*a as usize / 5) % 3]));
          rw.insert(ys("rewriters"), Y::Sequence(vec![ys(&format!("rw{}", (i + (*a as usize / 16)) % 3))]));
          let mut t = Mapping::new();
          t.insert(ys("rewrite"), Y::Mapping(rw));
          let mut tm = Mapping::new();
          tm.insert(ys("Y"), Y::Mapping(t));
          rm.insert(ys("transform"), Y::Mapping(tm));
          let mut k = Mapping::new();
          k.insert(ys("pattern"), ys(["$X", "foo($A)", "$F($$$ARGS)"][(*a as usize / 5) % 3]));
          if (*a as usize / 5) % 3 == 0 {
            k.insert(ys("kind"), ys("number"));
          }
          rm.insert(ys("rule"), Y::Mapping(k));
          rm.insert(ys("fix"), ys("$Y"));
          return Y::Mapping(rm);
        }
        if let Some(f) = fix {
          if f % 4 == 0 {
            let mut fm = Mapping::new();
            fm.insert(ys("template"), ys(&s(*f)));
            let mut e = Mapping::new();
            e.insert(ys("regex"), ys("."));
            fm.insert(ys("expandStart"), Y::Mapping(e.clone()));
            fm.insert(ys("expandEnd"), Y::Mapping(e));
            rm.insert(ys("fix"), Y::Mapping(fm));
          } else {
            rm.insert(ys("fix"), ys(&s(*f)));
          }
        }
        Y::Mapping(rm)
      })
      .collect();
    m.insert(ys("rewriters"), Y::Sequence(seq));
  }
  if let (Some((f, object, expand)), true) = (&d.fix, all || d.focus == 5 || d.focus == 3) {
    if *object {
      let mut fm = Mapping::new();
      fm.insert(ys("template"), ys(&s(*f)));
      if let Some(e) = expand {
        fm.insert(ys(if f % 2 == 0 { "expandEnd" } else { "expandStart" }), render_rule(e, 0));
      }
      m.insert(ys("fix"), Y::Mapping(fm));
    } else {
      m.insert(ys("fix"), ys(&s(*f)));
    }
  }
  if all || d.focus == 6 {
    for (k, v) in &d.misc {
      let key = ["severity", "message", "note", "files", "ignores", "url", "metadata", "bogusTopLevel", "id", "language"][*k as usize % 10];
      m.insert(ys(key), render_v(v, 0));
    }
  }
  Y::Mapping(m)
}


const GLOBS: &[&str] = &["*.js", "**/*.ts", "*.{mjs,cjs", "[a", "", "/", "!x", "a**b", "\\", "{", "***", "[!]", "[z-a]", "src/**", "*.vue", ".eslintrc", "{a,b}/*.py", "**"];

/// bytes of a generated document, used as the entropy of the config / test-file renderers
fn entropy(d: &DocV) -> Vec<u8> {
  let mut e = vec![d.lang];
  for (k, v) in &d.misc {
    e.push(*k);
    if let V::Str(x) | V::Num(x) = v {
      e.push(*x);
    }
  }
  for (a, b, c, dd, f) in &d.transforms {
    e.extend_from_slice(&[*a, *b, *c, *dd, *f]);
  }
  for (a, _, f) in &d.rewriters {
    e.push(*a);
    e.push(f.unwrap_or(7));
  }
  for (a, _) in d.utils.iter().chain(d.constraints.iter()) {
    e.push(*a);
  }
  if let Some((f, o, _)) = &d.fix {
    e.push(*f);
    e.push(*o as u8);
  }
  e
}

/// sgconfig.yml: every documented key, with mostly valid and sometimes adversarial values
fn render_config(d: &DocV) -> Y {
  let ent = entropy(d);
  let e = |i: usize| ent[i % ent.len()].wrapping_add(((i / ent.len()) as u8).wrapping_mul(37));
  let str_or = |i: usize, good: &str| if e(i) % 5 == 0 { ys(&s(e(i + 1))) } else { ys(good) };
  let mut m = Mapping::new();
  m.insert(ys("ruleDirs"), Y::Sequence(vec![str_or(0, "rules")]));
  if e(2) % 3 == 0 {
    m.insert(ys("utilDirs"), Y::Sequence(vec![str_or(3, "utils")]));
  }
  if e(5) % 2 == 0 {
    let mut t = Mapping::new();
    t.insert(ys("testDir"), str_or(6, "tests"));
    if e(8) % 2 == 0 {
      t.insert(ys("snapshotDir"), str_or(9, "__snapshots__"));
    }
    m.insert(ys("testConfigs"), Y::Sequence(vec![Y::Mapping(t)]));
  }
  if e(11) % 4 != 0 {
    let mut g = Mapping::new();
    for j in 0..1 + e(12) as usize % 3 {
      let lang = ["js", "html", "python", "JavaScript", "ts", "Klingon", "css", ""][e(13 + j) as usize % 8];
      let globs = (0..1 + e(16 + j) as usize % 3).map(|k| ys(GLOBS[e(20 + j * 3 + k) as usize % GLOBS.len()])).collect();
      g.insert(ys(lang), Y::Sequence(globs));
    }
    m.insert(ys("languageGlobs"), Y::Mapping(g));
  }
  if e(30) % 4 == 0 {
    let mut c = Mapping::new();
    c.insert(ys("libraryPath"), str_or(31, "mylang.so"));
    c.insert(ys("extensions"), Y::Sequence(vec![str_or(33, "ml")]));
    if e(35) % 2 == 0 {
      c.insert(ys("expandoChar"), str_or(36, "_"));
    }
    if e(38) % 2 == 0 {
      c.insert(ys("languageSymbol"), str_or(39, "tree_sitter_mylang"));
    }
    let mut cl = Mapping::new();
    cl.insert(str_or(41, "mylang"), Y::Mapping(c));
    m.insert(ys("customLanguages"), Y::Mapping(cl));
  }
  if e(43) % 3 == 0 {
    let mut inj = Mapping::new();
    inj.insert(ys("hostLanguage"), str_or(44, "js"));
    inj.insert(ys("rule"), render_rule(&d.rule, 0));
    inj.insert(ys("injected"), if e(46) % 2 == 0 { str_or(47, "css") } else { Y::Sequence(vec![str_or(47, "css"), str_or(49, "html")]) });
    m.insert(ys("languageInjections"), Y::Sequence(vec![Y::Mapping(inj)]));
  }
  for (k, v) in &d.misc {
    if k % 4 == 0 {
      m.insert(ys(["ruleDirs", "testConfigs", "languageGlobs", "bogusKey", "utilDirs"][*k as usize / 4 % 5]), render_v(v, 0));
    }
  }
  Y::Mapping(m)
}

/// a rule test file: id + valid / invalid snippets
fn render_test(d: &DocV) -> Y {
  let ent = entropy(d);
  let e = |i: usize| ent[i % ent.len()].wrapping_add(((i / ent.len()) as u8).wrapping_mul(37));
  let snippets = ["console.log(a)", "foo(1)", "", "function f() { console.log(b) }", "é😀 = (", "console.log(\n  a\n)", "a\r\nb"];
  let list = |at: usize| -> Y {
    Y::Sequence(
      (0..e(at) as usize % 4)
        .map(|j| match e(at + 1 + j) % 9 {
          0 => ys(&s(e(at + 5 + j))),
          1 => num(e(at + 5 + j)),
          2 => Y::Null,
          k => ys(snippets[k as usize % snippets.len()]),
        })
        .collect(),
    )
  };
  let mut m = Mapping::new();
  m.insert(ys("id"), if e(0) % 4 == 0 { ys(&s(e(1))) } else { ys("no-console") });
  if e(2) % 6 != 0 {
    m.insert(ys("valid"), list(3));
  }
  if e(10) % 6 != 0 {
    m.insert(ys("invalid"), list(11));
  }
  for (k, v) in &d.misc {
    if k % 3 == 0 {
      m.insert(ys(["valid", "invalid", "id", "bogusKey"][*k as usize / 3 % 4]), render_v(v, 0));
    }
  }
  Y::Mapping(m)
}

fn render_for(role: &Role, d: &DocV, idx: usize) -> Y {
  match role {
    Role::ProjectConfig => render_config(d),
    Role::TestFile => render_test(d),
    _ => render_doc(d, idx),
  }
}

fn seeds() -> Vec<String> {
  let dir = crate::engine::verif_root().join("corpus/rules");
  let mut v: Vec<_> = std::fs::read_dir(dir).map(|rd| rd.flatten().map(|e| e.path()).collect()).unwrap_or_default();
  v.sort();
  v.iter().filter_map(|p| std::fs::read_to_string(p).ok()).collect()
}

fn role_of(k: u8) -> Role {
  match k {
    0..=4 => Role::Rule,
    5 => Role::UtilRule,
    6 => Role::TestFile,
    _ => Role::ProjectConfig,
  }
}

pub fn interpret(ch: &Choice, _st: &mut Stats) -> Option<Case> {
  Some(match ch {
    Choice::Structured { docs, role, cli } => {
      let r = role_of(*role);
      let text = docs
        .iter()
        .enumerate()
        .map(|(i, d)| serde_yaml::to_string(&render_for(&r, d, i)).unwrap_or_default())
        .collect::<Vec<_>>()
        .join("---\n");
      let planted = docs.iter().find_map(|d| d.cycle).map(|(op, _)| {
        ["matches", "all", "any", "not", "inside+has", "has+inside", "precedes+follows", "nthChild.ofRule", "inside", "stopBy"][op as usize % 10].to_string()
      });
      Case {
        role: role_of(*role),
        yaml: text,
        cli: *cli,
        planted,
        args: vec![],
        stdin: None,
      }
    }
    Choice::Mutated { seed, muts, role, cli } => {
      let all = seeds();
      // the seed document fits the role: sgconfig / test file / rule files
      let fits: Vec<&String> = all
        .iter()
        .filter(|t| match role_of(*role) {
          Role::ProjectConfig => t.contains("ruleDirs"),
          Role::TestFile => t.contains("invalid:") && !t.contains("rule:"),
          _ => t.contains("rule:") && !t.contains("ruleDirs"),
        })
        .collect();
      let mut text: Vec<u8> = if fits.is_empty() { all[*seed as usize % all.len()].clone().into_bytes() } else { fits[*seed as usize % fits.len()].clone().into_bytes() };
      for (kind, pos, val) in muts {
        if text.is_empty() {
          break;
        }
        let p = *pos as usize % text.len();
        match kind {
          0 => {
            text.remove(p);
          }
          1 => text.insert(p, *val),
          2 => text[p] = *val,
          3 => {
            // duplicate a line
            let s = String::from_utf8_lossy(&text).into_owned();
            let lines: Vec<&str> = s.split('\n').collect();
            let i = p % lines.len();
            let mut out: Vec<&str> = lines.clone();
            out.insert(i, lines[i]);
            text = out.join("\n").into_bytes();
          }
          4 => {
            // replace a token by an adversarial string
            let s = String::from_utf8_lossy(&text).into_owned();
            let toks: Vec<(usize, &str)> = s.match_indices(|c: char| c.is_alphanumeric()).collect();
            if let Some((at, _)) = toks.get(p % toks.len().max(1)) {
              let mut t = s.clone();
              let end = (*at + 1).min(t.len());
              if t.is_char_boundary(*at) && t.is_char_boundary(end) {
                t.replace_range(*at..end, &self::s(*val));
              }
              text = t.into_bytes();
            }
          }
          _ => {
            // delete a line
            let s = String::from_utf8_lossy(&text).into_owned();
            let mut lines: Vec<&str> = s.split('\n').collect();
            let i = p % lines.len();
            lines.remove(i);
            text = lines.join("\n").into_bytes();
          }
        }
      }
      Case {
        role: role_of(*role),
        yaml: String::from_utf8_lossy(&text).into_owned(),
        cli: *cli,
        planted: None,
        args: vec![],
        stdin: None,
      }
    }
    Choice::Raw { bytes, role } => Case {
      role: role_of(*role),
      yaml: String::from_utf8_lossy(bytes).into_owned(),
      cli: false,
      planted: None,
      args: vec![],
      stdin: None,
    },
  })
}

// ---------------------------------------------------------------------------------------
// the property body (runs in the child process)

fn scan_sources(lang: SupportLang) -> Vec<String> {
  let li = crate::langs::info(lang);
  let dir = crate::engine::verif_root().join("corpus").join(li.dir);
  let mut out = vec![String::from("foo(1)\nfoo(a, b)\nconsole.log(a)\nbar(foo(2))\nlet user_account_name = 1;\n"), String::from("\n"), String::from("a"), String::from("((((((((x))))))))"), String::from("é😀 = \"日本\" ("),
    // identifiers and strings whose case mapping / case boundaries involve multi-byte characters
    String::from("foo(NOÉl)\nfoo(getURLÉtat)\nfoo(ǅemal)\nfoo(İstanbul, ΑΒΓδ)\nfoo(straßeSTRAẞE)\nconsole.log(XMLÉcole)\nfoo(\"ÀÉ-ÎÕ_üX.yZ\")\nbar(ÉÉé, aÉ, Éa)\nlet user_ÀccountÑame = ÑOÑo;\n"),
  ];
  if let Ok(rd) = std::fs::read_dir(dir) {
    let mut paths: Vec<_> = rd.flatten().map(|e| e.path()).collect();
    paths.sort();
    for p in paths.iter().take(2) {
      if let Ok(t) = std::fs::read_to_string(p) {
        out.push(t.chars().take(1500).collect());
      }
    }
  }
  out
}

pub fn body(case: &Case, _st: &mut Stats) -> CheckResult {
  match case.role {
    Role::Rule => {
      let globals = GlobalRules::default();
      let configs = match from_yaml_string::<SupportLang>(&case.yaml, &globals) {
        Ok(c) => c,
        Err(e) => {
          if std::env::var("VPROP_DEBUG").is_ok() {
            eprintln!("load error: {e:?}");
          }
          return Ok(());
        }
      };
      if std::env::var("VPROP_DEBUG").is_ok() {
        eprintln!("loaded {} configs", configs.len());
      }
      scan_with(&configs);
      Ok(())
    }
    Role::UtilRule => {
      // one utility per YAML document (the CLI reads one per file of utilDirs)
      fn docs_of<'de, T: Deserialize<'de>>(yaml: &'de str) -> Option<Vec<T>> {
        serde_yaml::Deserializer::from_str(yaml).map(|d| T::deserialize(d).ok()).collect()
      }
      let Some(utils) = docs_of(&case.yaml) else {
        return Ok(());
      };
      let Ok(globals) = DeserializeEnv::<SupportLang>::parse_global_utils(utils) else {
        return Ok(());
      };
      // a rule that uses every global utility it can name
      for name in ["doc0", "doc1", "g0", "u0"] {
        let y = format!("id: user\nlanguage: JavaScript\nrule: {{kind: identifier, matches: {name}}}\n");
        if let Ok(configs) = from_yaml_string::<SupportLang>(&y, &globals) {
          scan_with(&configs);
        }
      }
      Ok(())
    }
    // test files and project configs are read by the CLI only
    Role::TestFile | Role::ProjectConfig => Ok(()),
  }
}

fn scan_with(configs: &[RuleConfig<SupportLang>]) {
  if configs.is_empty() {
    return;
  }
  let lang = configs[0].language;
  let same_lang: Vec<&RuleConfig<SupportLang>> = configs.iter().filter(|c| c.language == lang).collect();
  for src in scan_sources(lang) {
    let sg = parse(lang, &src);
    for separate in [false, true] {
      let scan = CombinedScan::new(same_lang.clone());
      let r = scan.scan(&sg, separate);
      for (rule, ms) in &r.matches {
        for m in ms.iter().take(20) {
          let _ = rule.get_message(m);
          if let Ok(Some(f)) = rule.get_fixer() {
            let _ = f.generate_replacement(m);
            let _ = m.make_edit(&rule.matcher, &f);
          }
        }
      }
      for (rule, m) in r.diffs.iter().take(20) {
        if let Ok(Some(f)) = rule.get_fixer() {
          let _ = m.make_edit(&rule.matcher, &f);
        }
      }
    }
  }
}

/// CLI path: a panic inside a walker thread can turn into a hang of the whole process
fn cli_body(case: &Case) -> CheckResult {
  let dir = TempDir::new("c11");
  dir.write("src/a.js", b"foo(1);\nfoo(bar(1), \"x\");\nconsole.log(a);\nlet v = [1, 2];\n");
  dir.write("src/b.py", b"print(a)\nfoo(1)\n");
  let limit = std::time::Duration::from_secs(15);
  let out = match case.role {
    Role::Rule if !case.args.is_empty() => {
      dir.write("rule.yml", case.yaml.as_bytes());
      dir.write("src/deep/c.ts", b"foo(2);\nconsole.log(b);\n");
      dir.write("src/x.html", b"<p title=\"t\">x</p>\n<script>\nfoo(3);\n</script>\n");
      let argv: Vec<&str> = case.args.iter().map(|a| a.as_str()).collect();
      cli::sgv_once(&argv, &dir.path, case.stdin.as_ref().map(|t| t.as_bytes()), limit)
    }
    Role::Rule => {
      dir.write("rule.yml", case.yaml.as_bytes());
      cli::sgv_once(&["scan", "-r", "rule.yml", "--json=stream", "src"], &dir.path, None, limit)
    }
    Role::UtilRule => {
      // a project whose utilDirs holds one file per document and whose rules use them
      dir.write("sgconfig.yml", b"ruleDirs: [rules]\nutilDirs: [utils]\n");
      for (i, d) in case.yaml.split("\n---\n").enumerate() {
        dir.write(&format!("utils/u{i}.yml"), d.as_bytes());
      }
      dir.write(
        "rules/use.yml",
        b"id: use0\nlanguage: JavaScript\nrule: {kind: identifier, matches: doc0}\n---\nid: use1\nlanguage: JavaScript\nrule: {kind: number, matches: doc1}\n---\nid: use2\nlanguage: JavaScript\nrule: {kind: call_expression, matches: doc0}\n",
      );
      cli::sgv_once(&["scan", "--json=stream", "src"], &dir.path, None, limit)
    }
    Role::TestFile => {
      dir.write("sgconfig.yml", b"ruleDirs: [rules]\ntestConfigs:\n- testDir: tests\n");
      dir.write("rules/r.yml", b"id: no-console\nlanguage: JavaScript\nrule: {pattern: console.log($A)}\n");
      dir.write("tests/t-test.yml", case.yaml.as_bytes());
      // every other document also exercises the snapshot path: an existing snapshot directory with
      // a (stale) snapshot of this rule, one whose test case is gone and one that is not a snapshot at all
      if case.yaml.len() % 2 == 0 {
        dir.write("tests/__snapshots__/no-console-snapshot.yml", b"id: no-console\nsnapshots:\n  console.log(a):\n    labels:\n    - source: console.log(a)\n      style: primary\n      start: 0\n      end: 13\n");
        dir.write("tests/__snapshots__/gone-snapshot.yml", b"id: gone\nsnapshots:\n  x:\n    labels: []\n");
        dir.write("tests/__snapshots__/junk-snapshot.yml", case.yaml.as_bytes());
        cli::sgv_once(&["test", "-U"], &dir.path, None, limit)
      } else {
        cli::sgv_once(&["test", "--skip-snapshot-tests"], &dir.path, None, limit)
      }
    }
    Role::ProjectConfig => {
      dir.write("sgconfig.yml", case.yaml.as_bytes());
      dir.write("rules/r.yml", b"id: no-console\nlanguage: JavaScript\nrule: {pattern: console.log($A)}\n");
      cli::sgv_once(&["scan", "--json=stream"], &dir.path, None, limit)
    }
  };
  if out.timed_out {
    // re-run twice before calling it a hang
    for _ in 0..2 {
      let again = match case.role {
        Role::Rule if !case.args.is_empty() => {
          let argv: Vec<&str> = case.args.iter().map(|a| a.as_str()).collect();
          cli::sgv_once(&argv, &dir.path, case.stdin.as_ref().map(|t| t.as_bytes()), limit * 2)
        }
        Role::Rule => cli::sgv_once(&["scan", "-r", "rule.yml", "--json=stream", "src"], &dir.path, None, limit * 2),
        Role::UtilRule => cli::sgv_once(&["scan", "--json=stream", "src"], &dir.path, None, limit * 2),
        Role::TestFile => cli::sgv_once(&["test", "--skip-snapshot-tests"], &dir.path, None, limit * 2),
        Role::ProjectConfig => cli::sgv_once(&["scan", "--json=stream"], &dir.path, None, limit * 2),
      };
      if !again.timed_out {
        return classify_cli(&again);
      }
    }
    return Err(Fail::new("C11:cli:hang", format!("the CLI does not terminate (three attempts)\n{}", case.yaml.chars().take(600).collect::<String>())));
  }
  classify_cli(&out)
}

fn classify_cli(out: &cli::Out) -> CheckResult {
  let err = out.stderr_str();
  if err.contains("has overflowed its stack") {
    return Err(Fail::new("C11:cli:stack-overflow", err.chars().take(300).collect::<String>()));
  }
  if err.contains("panicked at") {
    let line = err.lines().find(|l| l.contains("panicked at")).unwrap_or("");
    let loc = line.split("panicked at ").nth(1).unwrap_or("").split(':').next().unwrap_or("");
    let loc = loc.find("crates/").map(|i| &loc[i..]).unwrap_or(loc);
    return Err(Fail::new(format!("C11:cli:panic:{loc}"), err.chars().take(400).collect::<String>()));
  }
  if out.status.is_none() {
    return Err(Fail::new("C11:cli:killed-by-signal", err.chars().take(300).collect::<String>()));
  }
  Ok(())
}

/// parent side: run the case in a child process and translate crashes
pub fn check(case: &Case, st: &mut Stats) -> CheckResult {
  st.eval();
  let reaches_rule = case.yaml.contains("rule:") || matches!(case.role, Role::TestFile | Role::ProjectConfig);
  if reaches_rule {
    st.label("reaches_rule_construction(text has a rule key)");
    st.nontrivial(&(format!("{:?}", case.role), &case.yaml, case.cli));
  }
  st.label(&format!("role_{:?}", case.role));
  if !case.args.is_empty() {
    st.label(&format!("front_end_{}", case.args.iter().filter(|a| a.starts_with("--") || *a == "-U").cloned().collect::<Vec<_>>().join("")));
  }
  if case.cli || !case.args.is_empty() || matches!(case.role, Role::TestFile | Role::ProjectConfig) {
    st.label("via_cli");
    return cli_body(case).map_err(|f| {
      let rule_role = matches!(case.role, Role::Rule | Role::UtilRule);
      if f.signature == "C11:cli:stack-overflow" && rule_role && may_contain_round_trip_cycle(&case.yaml) {
        Fail::new("C11:stack-overflow:utility-cycle-through-relational-round-trip", f.message)
      } else if f.signature == "C11:cli:stack-overflow" && rule_role && has_self_rewriting_rewriter(&case.yaml) {
        Fail::new("C11:stack-overflow:rewriter-rewrites-its-own-match", f.message)
      } else if f.signature == "C11:cli:stack-overflow" && rule_role && has_constraint_back_reference(&case.yaml) {
        Fail::new("C11:stack-overflow:constraint-matches-the-rule-it-belongs-to", f.message)
      } else {
        f
      }
    });
  }
  let r = run_isolated("C11", "documents", case, std::time::Duration::from_secs(20));
  match r {
    Ok(()) => {
      if st.wants_sample() && reaches_rule {
        st.sample(json!({"role": format!("{:?}", case.role), "yaml_head": case.yaml.chars().take(300).collect::<String>()}));
      }
      Ok(())
    }
    Err(f) => {
      // classify by what the document contains, so that known classes can be told apart
      let round_trip = may_contain_round_trip_cycle(&case.yaml);
      let sig = match f.signature.as_str() {
        "crash:stack-overflow" if round_trip => "C11:stack-overflow:utility-cycle-through-relational-round-trip".to_string(),
        "crash:stack-overflow" if has_self_rewriting_rewriter(&case.yaml) => "C11:stack-overflow:rewriter-rewrites-its-own-match".to_string(),
        "crash:stack-overflow" if has_constraint_back_reference(&case.yaml) => "C11:stack-overflow:constraint-matches-the-rule-it-belongs-to".to_string(),
        "crash:stack-overflow" => "C11:stack-overflow".to_string(),
        "hang" => "C11:hang".to_string(),
        s if s.starts_with("panic:") => format!("C11:{s}"),
        s => format!("C11:{s}"),
      };
      Err(Fail::new(sig, format!("{}\n--- document ({:?}) ---\n{}", f.message, case.role, case.yaml.chars().take(1500).collect::<String>())))
    }
  }
}

// ---------------------------------------------------------------------------------------
// front ends: well-formed rule documents over the top-level attributes (severity, files,
// ignores, message, note, labels, url, metadata, fix) through every reporter of `scan`

#[derive(Clone, Debug)]
pub struct FeChoice {
  docs: Vec<(u8, u8, Option<u8>, Option<u8>, u8, u8, u8)>,
  front: u8,
  overrides: u8,
  src: u8,
}

pub fn fe_strategy() -> BoxedStrategy<FeChoice> {
  (
    prop::collection::vec((0u8..6, 0u8..7, prop::option::weighted(0.4, 0u8..8), prop::option::weighted(0.3, 0u8..8), 0u8..6, 0u8..8, any::<u8>()), 1..4),
    0u8..12,
    0u8..8,
    0u8..5,
  )
    .prop_map(|(docs, front, overrides, src)| FeChoice { docs, front, overrides, src })
    .boxed()
}

const FE_GLOBS: &[&str] = &["**/*.js", "src/**", "*.js", "src/a.js", "**/deep/**", "**/*.{ts,js}", "nothing/**", "**"];
const FE_STDIN: &[&str] = &["foo(1);\nconsole.log(a);\n", "", "foo(\"é\");\n", "foo(1); foo(2);\nfoo(\n  3\n);\n", "\u{feff}foo(1)"];

pub fn interpret_fe(ch: &FeChoice, _st: &mut Stats) -> Option<Case> {
  let mut docs = vec![];
  for (i, (rule, sev, files, ignores, msg, extra, bits)) in ch.docs.iter().enumerate() {
    let (body, var) = [
      ("rule:\n  pattern: foo($A)\n", Some("A")),
      ("rule:\n  pattern: console.log($$$ARGS)\n", None),
      ("rule:\n  kind: number\n", None),
      ("rule:\n  pattern: foo($A)\n  inside: {kind: expression_statement, stopBy: end}\n", Some("A")),
      ("rule:\n  kind: call_expression\n  has: {kind: arguments, has: {pattern: $A, kind: number}}\n", Some("A")),
      ("rule:\n  kind: program\n", None),
    ][*rule as usize % 6];
    let mut y = format!("id: fe{i}\nlanguage: {}\n{body}", ["JavaScript", "JavaScript", "TypeScript", "JavaScript"][(*bits as usize >> 6) % 4]);
    if let Some(sv) = ["error", "warning", "info", "hint", "off"].get(*sev as usize) {
      y.push_str(&format!("severity: {sv}\n"));
    }
    if let Some(f) = files {
      y.push_str(&format!("files: ['{}']\n", FE_GLOBS[*f as usize % FE_GLOBS.len()]));
    }
    if let Some(f) = ignores {
      y.push_str(&format!("ignores: ['{}']\n", FE_GLOBS[*f as usize % FE_GLOBS.len()]));
    }
    match msg {
      0 => {}
      1 => y.push_str("message: found $A and $$$ARGS\n"),
      2 => y.push_str("message: ''\n"),
      3 => y.push_str("message: |\n  two\n  lines $A\n"),
      4 => y.push_str("message: \"é😀 $NOPE\"\n"),
      _ => y.push_str(&format!("message: {}\n", "long ".repeat(300))),
    }
    if extra & 1 != 0 {
      y.push_str("note: |\n  a note\n  over lines\n");
    }
    if extra & 2 != 0 {
      y.push_str("url: https://example.com/é\nmetadata:\n  k: [1, {x: y}]\n");
    }
    if extra & 4 != 0 {
      if let Some(v) = var {
        y.push_str(&format!("labels:\n  {v}:\n    style: {}\n    message: label é\n", ["primary", "secondary"][(*bits & 1) as usize]));
      }
    }
    match bits >> 1 & 3 {
      1 => y.push_str("fix: bar()\n"),
      2 => y.push_str("fix: |\n  bar(\n  )\n"),
      _ => {}
    }
    docs.push(y);
  }
  let mut args: Vec<String> = vec!["scan".into(), "-r".into(), "rule.yml".into()];
  let mut stdin = None;
  match ch.front {
    0 => args.push("--json=stream".into()),
    1 => {}
    2 => args.push("--format=github".into()),
    3 => args.push("--format=sarif".into()),
    4 => args.extend(["--stdin".to_string(), "--json".into()]),
    5 => args.push("--stdin".into()),
    6 => args.push("--report-style=short".into()),
    7 => args.push("-U".into()),
    8 => args.extend(["--json=pretty".to_string(), "--include-metadata".into()]),
    9 => args.extend(["--inspect".to_string(), "entity".into()]),
    10 => args.extend(["--stdin".to_string(), "--format=github".into()]),
    _ => args.extend(["--report-style=medium".to_string(), "-C".into(), "2".into()]),
  }
  if matches!(ch.front, 4 | 5 | 10) {
    stdin = Some(FE_STDIN[ch.src as usize % FE_STDIN.len()].to_string());
  } else {
    args.push("src".into());
  }
  match ch.overrides {
    1 => args.push("--error".into()),
    2 => args.push("--off=fe0".into()),
    3 => args.push("--hint".into()),
    4 => args.push("--off".into()),
    5 => args.push("--warning=fe1".into()),
    _ => {}
  }
  Some(Case {
    role: Role::Rule,
    yaml: docs.join("---\n"),
    cli: true,
    planted: None,
    args,
    stdin,
  })
}

pub fn child(path: &Path) -> i32 {
  child_case::<Case>(path, body)
}

pub fn run(cfg: &RunCfg) -> i32 {
  let mut report = Report::new(
    cfg,
    "case = text offered as rule file / utility-rule file / test file / sgconfig.yml from three generators: structured documents (well-formed rule objects over all keys with adversarial values: empty / one-byte / multi-byte sources, invalid and pathological regexes, extreme numbers in nthChild / range / startChar, huge strings, unknown kinds and fields, empty all/any, 150-deep nesting, duplicate ids, rewriters without fix, expanding rewriter fixes, utilities wired into cycles through 10 operator shapes), byte/line/token mutations of 9 seed documents, raw bytes. Each library case runs in a child process: load must return Ok or Err; loaded rules scan 6 sources of their language through CombinedScan (both modes) generating messages and fixes; a panic, abort, stack overflow or hang is the violation. ~5% of the cases (and all test/config files) go through the real CLI with a watchdog. Stage front-ends: 1-3 well-formed rules over the top-level attributes (all five severities, files / ignores globs, message forms, note, url, metadata, labels, fix) through every reporter of `scan` (JSON styles, rich / medium / short, github, sarif, --stdin, -U, --inspect entity) with severity overrides. Non-trivial = distinct documents containing a `rule:` key (reach rule construction) or test/config roles.",
  );
  report.assume("a hang is reported only after three attempts with growing limits");
  let known = Known::load(&cfg.prop);
  if let Some(path) = &cfg.replay {
    return crate::replay_main::<Case>(cfg, path, check);
  }
  crate::replay_known::<Case>(&mut report, &known, check);
  let total = cfg.budget(20_000, 300_000);
  let o = drive(cfg, "documents", total, &known, strategy, interpret, check);
  report.absorb("documents", o);
  let total = cfg.budget(1_500, 40_000);
  let o = drive(cfg, "front-ends", total, &known, fe_strategy, interpret_fe, check);
  report.absorb("front-ends", o);
  cli::cleanup_work_root();
  crate::fuzz::stage(cfg, &mut report, &known, 40000);
  report.finish()
}

// ---------------------------------------------------------------------------------------
// byte decoder shared with the libFuzzer target (the byte string is the choice vector)

pub struct Bytes<'a> {
  data: &'a [u8],
  at: usize,
}

impl<'a> Bytes<'a> {
  pub fn new(data: &'a [u8]) -> Self {
    Bytes { data, at: 0 }
  }
  fn u8(&mut self) -> u8 {
    let b = self.data.get(self.at).copied().unwrap_or(0);
    self.at += 1;
    b
  }
  fn rest(&self) -> &'a [u8] {
    self.data.get(self.at..).unwrap_or(&[])
  }
  fn v(&mut self, depth: usize) -> V {
    match self.u8() % if depth > 3 { 4 } else { 7 } {
      0 | 1 => V::Str(self.u8()),
      2 => V::Num(self.u8()),
      3 => V::Bool(self.u8() % 2 == 0),
      4 => V::Seq((0..self.u8() % 3).map(|_| self.v(depth + 1)).collect()),
      _ => V::Rule(Box::new(self.rule(depth + 1))),
    }
  }
  fn rule(&mut self, depth: usize) -> RuleV {
    let n = 1 + self.u8() % 3;
    RuleV {
      keys: (0..n).map(|_| (self.u8() % RULE_KEYS.len() as u8, self.v(depth))).collect(),
    }
  }
  fn doc(&mut self) -> DocV {
    let rule = self.rule(0);
    let utils = (0..self.u8() % 3).map(|_| (self.u8(), self.rule(1))).collect();
    let constraints = (0..self.u8() % 2).map(|_| (self.u8(), self.rule(1))).collect();
    let transforms = (0..self.u8() % 4).map(|_| (self.u8() % 5, self.u8(), self.u8(), self.u8(), self.u8())).collect();
    let rewriters = (0..self.u8() % 3)
      .map(|_| {
        let a = self.u8();
        let r = self.rule(1);
        let f = self.u8();
        (a, r, (f % 3 != 0).then_some(f))
      })
      .collect();
    let fix = match self.u8() % 3 {
      0 => None,
      _ => {
        let f = self.u8();
        let obj = self.u8() % 2 == 0;
        let ex = (self.u8() % 3 == 0).then(|| self.rule(1));
        Some((f, obj, ex))
      }
    };
    let lang = self.u8();
    let misc = (0..self.u8() % 3).map(|_| (self.u8() % 10, self.v(2))).collect();
    let c = self.u8();
    // no planted cycles here: the round-trip overflow is a listed finding and would end every campaign
    let _ = c;
    let depth_bomb = (self.u8() % 40 == 0).then(|| self.u8() % 4);
    DocV {
      rule,
      utils,
      constraints,
      transforms,
      rewriters,
      fix,
      lang,
      misc,
      cycle: None,
      depth_bomb,
      focus: self.u8() % 10,
    }
  }
}

/// bytes -> (role, YAML text). First byte: mode (structured / seed mutation / raw).
pub fn decode_bytes(data: &[u8]) -> Case {
  let mut b = Bytes::new(data);
  let mode = b.u8();
  let role = role_of(b.u8() % 6);
  match mode % 4 {
    0 | 1 => {
      let n = 1 + b.u8() % 2;
      let text = (0..n)
        .map(|i| serde_yaml::to_string(&render_for(&role, &b.doc(), i as usize)).unwrap_or_default())
        .collect::<Vec<_>>()
        .join("---\n");
      Case {
        role,
        yaml: text,
        cli: false,
        planted: None,
        args: vec![],
        stdin: None,
      }
    }
    2 => {
      let all = seeds();
      let seed = b.u8();
      let muts: Vec<(u8, u16, u8)> = (0..1 + b.u8() % 5).map(|_| (b.u8() % 6, u16::from_le_bytes([b.u8(), b.u8()]), b.u8())).collect();
      let ch = Choice::Mutated {
        seed,
        muts,
        role: match role {
          Role::Rule => 0,
          Role::UtilRule => 5,
          Role::TestFile => 6,
          Role::ProjectConfig => 7,
        },
        cli: false,
      };
      let _ = all;
      let mut st = Stats::new();
      let mut c = interpret(&ch, &mut st).expect("interpret");
      c.role = role;
      c
    }
    _ => Case {
      role,
      yaml: String::from_utf8_lossy(b.rest()).into_owned(),
      cli: false,
      planted: None,
      args: vec![],
      stdin: None,
    },
  }
}

fn yaml_docs(yaml: &str) -> Vec<Y> {
  use serde::Deserialize;
  serde_yaml::Deserializer::from_str(yaml).filter_map(|de| Y::deserialize(de).ok()).collect()
}

/// Structural recognition of a listed finding: some rewriter's own transform rewrites with a
/// set of rewriters that contains the rewriter itself (applied to the node it matched, it never ends)
pub fn has_self_rewriting_rewriter(yaml: &str) -> bool {
  fn mentions(v: &Y, id: &str) -> bool {
    match v {
      Y::Mapping(m) => m.iter().any(|(k, x)| {
        if k.as_str() == Some("rewriters") {
          x.as_sequence().map(|s| s.iter().any(|r| r.as_str() == Some(id))).unwrap_or(false)
        } else {
          mentions(x, id)
        }
      }),
      Y::Sequence(s) => s.iter().any(|x| mentions(x, id)),
      _ => false,
    }
  }
  yaml_docs(yaml).iter().any(|d| {
    d.get("rewriters").and_then(|r| r.as_sequence()).map(|rs| {
      rs.iter().any(|r| match (r.get("id").and_then(|i| i.as_str()), r.get("transform")) {
        (Some(id), Some(t)) => mentions(t, id),
        _ => false,
      })
    }).unwrap_or(false)
  })
}

/// Structural recognition of a listed finding: a constraint of a rule `matches` a utility that is,
/// or leads back to, the rule the constraint belongs to (here: any `matches` below `constraints`
/// that names a document id or a utility of the same file)
pub fn has_constraint_back_reference(yaml: &str) -> bool {
  fn refs(v: &Y, out: &mut Vec<String>) {
    match v {
      Y::Mapping(m) => {
        for (k, x) in m {
          if k.as_str() == Some("matches") {
            if let Some(t) = x.as_str() {
              out.push(t.to_string());
            }
          }
          refs(x, out);
        }
      }
      Y::Sequence(s) => s.iter().for_each(|x| refs(x, out)),
      _ => {}
    }
  }
  let docs = yaml_docs(yaml);
  let mut names: Vec<String> = docs.iter().filter_map(|d| d.get("id").and_then(|i| i.as_str()).map(String::from)).collect();
  for d in &docs {
    if let Some(Y::Mapping(u)) = d.get("utils") {
      names.extend(u.keys().filter_map(|k| k.as_str().map(String::from)));
    }
  }
  docs.iter().any(|d| {
    let mut out = vec![];
    if let Some(c) = d.get("constraints") {
      refs(c, &mut out);
    }
    out.iter().any(|r| names.contains(r))
  })
}

/// Structural recognition of the listed round-trip cycle finding: some document has a utility
/// (local, or global when every document is a utility) that reaches itself through `matches`
/// along a path whose relational operators contain inside+has or precedes+follows.
pub fn may_contain_round_trip_cycle(yaml: &str) -> bool {
  use serde::Deserialize;
  use std::collections::BTreeMap;
  type Ops = u8; // bit 0 inside, 1 has, 2 precedes, 3 follows
  fn refs(v: &Y, ops: Ops, out: &mut Vec<(String, Ops)>) {
    match v {
      Y::Mapping(m) => {
        for (k, val) in m {
          let key = k.as_str().unwrap_or("");
          match key {
            "matches" => {
              if let Some(t) = val.as_str() {
                out.push((t.to_string(), ops));
              }
            }
            "inside" => refs(val, ops | 1, out),
            "has" => refs(val, ops | 2, out),
            "precedes" => refs(val, ops | 4, out),
            "follows" => refs(val, ops | 8, out),
            _ => refs(val, ops, out),
          }
        }
      }
      Y::Sequence(s) => s.iter().for_each(|x| refs(x, ops, out)),
      _ => {}
    }
  }
  fn round_trip(ops: Ops) -> bool {
    ops & 3 == 3 || ops & 12 == 12
  }
  fn cyclic(graph: &BTreeMap<String, Vec<(String, Ops)>>) -> bool {
    fn walk(graph: &BTreeMap<String, Vec<(String, Ops)>>, start: &str, at: &str, ops: Ops, path: &mut Vec<String>) -> bool {
      for (t, o) in graph.get(at).map(|v| v.as_slice()).unwrap_or(&[]) {
        let acc = ops | o;
        if t == start {
          if round_trip(acc) {
            return true;
          }
          continue;
        }
        if path.iter().any(|p| p == t) || path.len() > 6 {
          continue;
        }
        path.push(t.clone());
        let r = walk(graph, start, t, acc, path);
        path.pop();
        if r {
          return true;
        }
      }
      false
    }
    graph.keys().any(|k| walk(graph, k, k, 0, &mut vec![k.clone()]))
  }
  let mut globals: BTreeMap<String, Vec<(String, Ops)>> = BTreeMap::new();
  for de in serde_yaml::Deserializer::from_str(yaml) {
    let Ok(doc) = Y::deserialize(de) else {
      return false;
    };
    let Y::Mapping(m) = &doc else { continue };
    let mut graph: BTreeMap<String, Vec<(String, Ops)>> = BTreeMap::new();
    if let Some(Y::Mapping(utils)) = m.get("utils") {
      for (k, v) in utils {
        let mut out = vec![];
        refs(v, 0, &mut out);
        graph.insert(k.as_str().unwrap_or("").to_string(), out);
      }
    }
    if cyclic(&graph) {
      return true;
    }
    // the document itself as a (global) utility
    if let (Some(id), Some(rule)) = (m.get("id").and_then(|i| i.as_str()), m.get("rule")) {
      let mut out = vec![];
      refs(rule, 0, &mut out);
      // local utilities are reachable from the global one: fold their edges in (transitively)
      let mut at = 0;
      while at < out.len() && out.len() < 200 {
        let (t, o) = out[at].clone();
        at += 1;
        if let Some(inner) = graph.get(&t) {
          for (t2, o2) in inner {
            let e = (t2.clone(), o | o2);
            if !out.contains(&e) {
              out.push(e);
            }
          }
        }
      }
      globals.entry(id.to_string()).or_default().extend(out);
    }
  }
  cyclic(&globals)
}

/// the stage driven by bytes (coverage-guided tier). Inside the fuzz target the document is
/// loaded and scanned in-process (a panic or stack overflow ends the fuzz process and leaves an
/// artifact) and the listed round-trip cycle is excluded by construction; the parent decides an
/// artifact with the isolated check.
pub fn erased(in_target: bool) -> crate::fuzz::Erased {
  crate::fuzz::Erased::custom("C11", "documents", decode_bytes, move |case: &Case, st: &mut Stats| {
    if in_target {
      if may_contain_round_trip_cycle(&case.yaml) {
        st.label("excluded_in_fuzz_target(listed round-trip cycle)");
        return Ok(());
      }
      body(case, st)
    } else {
      check(case, st)
    }
  })
}

pub fn seed_documents() -> Vec<String> {
  seeds()
}
