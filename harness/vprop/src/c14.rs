//! C14 — suppression comments silence exactly the findings they name, nothing else.
use crate::cli::{self, TempDir};
use crate::engine::*;
use crate::fail;
use crate::tsutil::parse;
use ast_grep_config::{from_yaml_string, CombinedScan, GlobalRules, RuleConfig, Severity};
use ast_grep_language::SupportLang;
use proptest::prelude::*;
use serde::{Deserialize, Serialize};
use serde_json::json;
use std::collections::{BTreeMap, BTreeSet};

#[derive(Clone, Debug, Serialize, Deserialize)]
pub struct Case {
  pub lang: String,
  pub source: String,
  /// rule ids in use (each `r-<fn>` has pattern `<fn>($$$A)`)
  pub rules: Vec<String>,
  pub cli: bool,
  /// bit i set: the i-th enabled rule has a `fix`
  #[serde(default)]
  pub fixable: u8,
  /// CLI only: every rule is restricted to another directory by `files`, so no rule applies to
  /// the file; its suppression comments are then all unused and must still be reported
  #[serde(default)]
  pub restrict: bool,
}

#[derive(Clone, Debug)]
pub struct LineC {
  stmt: u8,
  own: Vec<u8>,
  trailing: Option<u8>,
  in_block: bool,
  /// comment form: 5 = `/* .. */` where the language has it, 6 = `///` in Rust, else a line comment
  form: u8,
  /// 6 / 7: the statement is the brace-less body of `while (x)` / `if (x)` on the line before
  header: u8,
}

#[derive(Clone, Debug)]
pub struct Choice {
  lang: u8,
  lines: Vec<LineC>,
  rules: u8,
  tail_comment: Option<u8>,
  fixable: u8,
}

pub fn strategy() -> BoxedStrategy<Choice> {
  let line = (
    0u8..12,
    prop::collection::vec(0u8..14, 0..=2),
    prop::option::weighted(0.45, 0u8..14),
    prop::bool::weighted(0.25),
    0u8..8,
    0u8..8,
  )
    .prop_map(|(stmt, own, trailing, in_block, form, header)| LineC {
      stmt,
      own,
      trailing,
      in_block,
      form,
      header,
    });
  (0u8..9, prop::collection::vec(line, 1..10), 1u8..=255, prop::option::weighted(0.2, 0u8..14), any::<u8>())
    .prop_map(|(lang, lines, rules, tail_comment, fixable)| Choice {
      lang,
      lines,
      rules,
      tail_comment,
      fixable,
    })
    .boxed()
}

const LANGS14: &[SupportLang] = &[
  SupportLang::JavaScript,
  SupportLang::TypeScript,
  SupportLang::Rust,
  SupportLang::Python,
  SupportLang::Go,
  SupportLang::Java,
  SupportLang::C,
  SupportLang::Ruby,
  SupportLang::Lua,
];

fn has_block_comment(lang: SupportLang) -> bool {
  matches!(lang, SupportLang::JavaScript | SupportLang::TypeScript | SupportLang::Rust | SupportLang::Go | SupportLang::Java | SupportLang::C)
}

fn render_comment(lang: SupportLang, lc: &str, form: u8, body: &str) -> String {
  match form {
    5 if has_block_comment(lang) => format!("/* {body} */"),
    6 if lang == SupportLang::Rust => format!("/// {body}"),
    _ => format!("{lc} {body}"),
  }
}

const STMTS: &[&str] = &[
  "foo(1)",
  "bar(2)",
  "foo(bar(1))",
  "baz(foo(1), bar(2))",
  "qux(3)",
  "baz(4)",
  "foo(foo(5))",
  "bar(baz(6), 7)",
  "qux(foo(8))",
];

/// (id, function matched): `r-ba` is a proper prefix of `r-bar` / `r-baz` and fires with `r-bar`;
/// `r-foo-1` extends `r-foo` and fires with it
const ALL_RULES: &[(&str, &str)] = &[("r-foo", "foo"), ("r-bar", "bar"), ("r-baz", "baz"), ("r-qux", "qux"), ("r-ba", "bar"), ("r-foo-1", "foo"), ("style/no-qux", "qux"), ("sec.no-baz", "baz")];

fn comment_body(k: u8) -> &'static str {
  match k {
    0 | 1 => "ast-grep-ignore",
    2 => "ast-grep-ignore: r-foo",
    3 => "ast-grep-ignore: r-bar",
    4 => "ast-grep-ignore: r-foo, r-bar",
    5 => "ast-grep-ignore:r-baz ,  r-foo",
    6 => "ast-grep-ignore: unknown-rule",
    7 => "ast-grep-ignore: r-qux",
    8 => "just a note",
    9 => "ast-grep-ignore: r-baz",
    10 => "ast-grep-ignore: r-ba",
    11 => "ast-grep-ignore: r-foo-1, r-bar",
    12 => "ast-grep-ignore: style/no-qux",
    _ => "ast-grep-ignore: sec.no-baz, r-foo",
  }
}

pub fn interpret(ch: &Choice, _st: &mut Stats) -> Option<Case> {
  let lang = LANGS14[ch.lang as usize % LANGS14.len()];
  let lc = crate::langs::info(lang).line_comment.unwrap();
  let semi = matches!(lang, SupportLang::Rust | SupportLang::Java | SupportLang::C | SupportLang::JavaScript | SupportLang::TypeScript);
  let (head, tail, base): (&str, &str, usize) = match lang {
    SupportLang::Rust => ("fn main() {\n", "}\n", 1),
    SupportLang::Go => ("package main\n\nfunc main() {\n", "}\n", 1),
    SupportLang::Java => ("class A {\n  void m() {\n", "  }\n}\n", 2),
    SupportLang::C => ("void m() {\n", "}\n", 1),
    _ => ("", "", 0),
  };
  let mut out = String::from(head);
  for l in &ch.lines {
    let depth = base + usize::from(l.in_block && !matches!(lang, SupportLang::Python | SupportLang::Ruby | SupportLang::Go));
    let pad = "  ".repeat(depth);
    if depth > base {
      out.push_str(&format!("{}{{\n", "  ".repeat(base)));
    }
    if l.stmt as usize >= STMTS.len() {
      // a call spread over several lines: the finding starts on its first line; a second own-line
      // comment sits inside, on the line before the closing parenthesis (it governs that line,
      // where no finding starts)
      let comma = if matches!(lang, SupportLang::C | SupportLang::Java) { "" } else { "," };
      let (outer, inner) = match l.stmt as usize - STMTS.len() {
        0 => ("foo", "bar(2)"),
        1 => ("baz", "foo(1)"),
        _ => ("qux", "3"),
      };
      if let Some(c) = l.own.first() {
        out.push_str(&format!("{pad}{}\n", render_comment(lang, lc, l.form, comment_body(*c))));
      }
      out.push_str(&format!("{pad}{outer}(\n{pad}  {inner}{comma}\n"));
      if let Some(c) = l.own.get(1) {
        out.push_str(&format!("{pad}  {lc} {}\n", comment_body(*c)));
      }
      out.push_str(&format!("{pad}){}", if semi { ";" } else { "" }));
    } else {
      for c in &l.own {
        out.push_str(&format!("{pad}{}\n", render_comment(lang, lc, l.form, comment_body(*c))));
      }
      let stmt = STMTS[l.stmt as usize % STMTS.len()];
      // a loop / conditional without braces: the statement is its body, on a line of its own
      let braceless = l.header >= 6 && matches!(lang, SupportLang::JavaScript | SupportLang::TypeScript | SupportLang::Java | SupportLang::C);
      if braceless {
        out.push_str(&format!("{pad}{} (x)\n  ", if l.header == 6 { "while" } else { "if" }));
      }
      out.push_str(&format!("{pad}{stmt}{}", if semi { ";" } else { "" }));
    }
    // trailing comments only after single-line statements (the property's quantifier); after the
    // closing line of a multi-line statement the implementation treats the comment as an own-line
    // one and silences the *next* line (observed, outside the property; see DESIGN 12.8)
    if let (Some(t), true) = (l.trailing, (l.stmt as usize) < STMTS.len()) {
      out.push_str(&format!(" {}", render_comment(lang, lc, l.form, comment_body(t))));
    }
    out.push('\n');
    if depth > base {
      out.push_str(&format!("{}}}\n", "  ".repeat(base)));
    }
  }
  if let Some(t) = ch.tail_comment {
    out.push_str(&format!("{}{lc} {}\n", "  ".repeat(base), comment_body(t)));
  }
  out.push_str(tail);
  let rules: Vec<String> = ALL_RULES
    .iter()
    .enumerate()
    .filter(|(i, _)| ch.rules & (1 << i) != 0)
    .map(|(_, r)| r.0.to_string())
    .collect();
  Some(Case {
    lang: crate::langs::name(lang),
    source: out,
    rules,
    cli: false,
    fixable: ch.fixable,
    restrict: false,
  })
}

pub fn rules_yaml(case: &Case) -> String {
  case
    .rules
    .iter()
    .enumerate()
    .map(|(i, id)| {
      let f = ALL_RULES.iter().find(|r| r.0 == id.as_str()).map(|r| r.1).unwrap_or("foo");
      let fix = if case.fixable & (1 << i) != 0 { format!("fix: {f}x($$$A)\n") } else { String::new() };
      let files = if case.restrict { "files: ['elsewhere/**']\n" } else { "" };
      format!("id: {id}\nlanguage: {}\nseverity: warning\nrule:\n  pattern: {f}($$$A)\n{fix}{files}", case.lang)
    })
    .collect::<Vec<_>>()
    .join("---\n")
}

/// O-suppress, computed from the text only (lines, comment markers, call names)
struct Model {
  /// (rule id, line, col) of findings that must be reported
  reported: BTreeSet<(String, usize, usize)>,
  suppressed: usize,
  /// lines (0-based) of suppression comments that silenced nothing
  unused: BTreeSet<usize>,
  used: usize,
  two_on_one_line: bool,
  both_placements: bool,
  adjacent: bool,
}

fn model(case: &Case, lc: &str, findings: BTreeMap<usize, Vec<(String, usize)>>) -> Model {
  let lines: Vec<&str> = case.source.split('\n').collect();
  // suppressions: (comment line, target line, ids)
  let mut sups: Vec<(usize, usize, Option<BTreeSet<String>>)> = vec![];
  for (i, line) in lines.iter().enumerate() {
    // a line comment (also `///`) or a delimited comment, whichever starts first
    let (code, comment) = match (line.find(lc), line.find("/*")) {
      (a, Some(b)) if a.is_none_or(|a| b < a) => {
        let body = &line[b + 2..];
        (&line[..b], Some(body.split("*/").next().unwrap_or(body)))
      }
      (Some(p), _) => (&line[..p], Some(line[p + lc.len()..].trim_start_matches('/'))),
      (None, _) => (*line, None),
    };
    let _ = code;
    if let Some(c) = comment {
      let c = c.trim();
      if let Some(rest) = c.strip_prefix("ast-grep-ignore") {
        let rest = rest.trim();
        let ids = if rest.is_empty() {
          None
        } else {
          rest.strip_prefix(':').map(|r| r.split(',').map(|x| x.trim().to_string()).collect::<BTreeSet<_>>())
        };
        let own_line = code.trim().is_empty();
        sups.push((i, if own_line { i + 1 } else { i }, ids));
      }
    }
  }
  let mut reported = BTreeSet::new();
  let mut suppressed = 0;
  let mut used_sups: BTreeSet<usize> = BTreeSet::new();
  let mut two_on_one_line = false;
  for (line, fs) in &findings {
    if fs.len() >= 2 {
      two_on_one_line = true;
    }
    for (rule, col) in fs {
      let mut hit = false;
      for (k, (_, target, ids)) in sups.iter().enumerate() {
        if target == line && ids.as_ref().map(|s| s.contains(rule)).unwrap_or(true) {
          hit = true;
          used_sups.insert(k);
        }
      }
      if hit {
        suppressed += 1;
      } else {
        reported.insert((rule.clone(), *line, *col));
      }
    }
  }
  let unused = sups.iter().enumerate().filter(|(k, _)| !used_sups.contains(k)).map(|(_, s)| s.0).collect();
  let both_placements = sups.iter().any(|a| sups.iter().any(|b| a.0 != b.0 && a.1 == b.1));
  let adjacent = sups.iter().any(|a| sups.iter().any(|b| b.0 == a.0 + 1));
  Model {
    reported,
    suppressed,
    unused,
    used: used_sups.len(),
    two_on_one_line,
    both_placements,
    adjacent,
  }
}

pub fn check(case: &Case, st: &mut Stats) -> CheckResult {
  let lang: SupportLang = case.lang.parse().map_err(|_| Fail::new("bad-case", "lang"))?;
  let lc = crate::langs::info(lang).line_comment.unwrap();
  if case.rules.is_empty() {
    return Ok(());
  }
  let yaml = rules_yaml(case);
  let sg = parse(lang, &case.source);
  if crate::tsutil::subtree_has_error(&sg.root().get_ts_node()) {
    st.discard("generated source does not parse");
    return Ok(());
  }
  let pos_of = |off: usize| crate::tsutil::o_pos(case.source.as_bytes(), off);
  // the findings without any suppression: each rule searched alone (C01 decides that search)
  let mut findings: BTreeMap<usize, Vec<(String, usize)>> = BTreeMap::new();
  {
    let globals = GlobalRules::default();
    let configs: Vec<RuleConfig<SupportLang>> = from_yaml_string(&yaml, &globals).map_err(|e| Fail::new("bad-case", format!("rules: {e:?}")))?;
    for c in &configs {
      for m in sg.root().find_all(&c.matcher) {
        let (l, col) = pos_of(m.range().start);
        findings.entry(l).or_default().push((c.id.clone(), col));
      }
    }
  }
  if case.restrict && case.cli {
    // no rule applies to this path
    findings.clear();
    st.label("no_rule_applies_to_the_file");
  }
  if findings.is_empty() {
    st.label("no_finding_at_all");
  }
  let m = model(case, lc, findings);
  let (got_reported, got_unused): (BTreeSet<(String, usize, usize)>, BTreeSet<usize>) = if !case.cli {
    let globals = GlobalRules::default();
    let configs: Vec<RuleConfig<SupportLang>> = from_yaml_string(&yaml, &globals).map_err(|e| Fail::new("bad-case", format!("rules: {e:?}")))?;
    let unused_rule = CombinedScan::unused_config(Severity::Hint, lang);
    let mut both: Vec<(BTreeSet<(String, usize, usize)>, BTreeSet<usize>)> = vec![];
    for separate_fix in [false, true] {
      let mut scan = CombinedScan::new(configs.iter().collect());
      scan.set_unused_suppression_rule(&unused_rule);
      let r = scan.scan(&sg, separate_fix);
      let mut rep = BTreeSet::new();
      let mut unused = BTreeSet::new();
      for (rule, ms) in &r.matches {
        for x in ms {
          let (l, c) = pos_of(x.range().start);
          if rule.id == "unused-suppression" {
            unused.insert(l);
          } else {
            rep.insert((rule.id.clone(), l, c));
          }
        }
      }
      for (rule, x) in &r.diffs {
        let (l, c) = pos_of(x.range().start);
        if rule.id == "unused-suppression" {
          unused.insert(l);
        } else {
          rep.insert((rule.id.clone(), l, c));
        }
      }
      both.push((rep, unused));
    }
    if both[0] != both[1] {
      fail!("C14:separate-fix-modes-differ", "scan(separate_fix=false) and scan(separate_fix=true) disagree\n{}", case.source);
    }
    both.pop().unwrap()
  } else {
    let dir = TempDir::new("c14");
    let ext = crate::langs::info(lang).ext;
    dir.write("sgconfig.yml", b"ruleDirs:\n- rules\n");
    dir.write("rules/all.yml", yaml.as_bytes());
    dir.write(&format!("src/a.{ext}"), case.source.as_bytes());
    let out = cli::sgv(&["scan", "--json=stream"], &dir.path, None);
    if out.timed_out {
      return Err(Fail::new("inconclusive:watchdog", "sgv did not finish"));
    }
    let recs = out.json_lines().map_err(|e| Fail::new("C14:cli-json", e))?;
    let mut rep = BTreeSet::new();
    let mut unused = BTreeSet::new();
    for r in &recs {
      let id = r["ruleId"].as_str().unwrap_or("").to_string();
      let l = r["range"]["start"]["line"].as_u64().unwrap_or(0) as usize;
      let c = cli::rec_range(r).map(|x| pos_of(x.0).1).unwrap_or(0);
      if id == "unused-suppression" {
        unused.insert(l);
      } else {
        rep.insert((id, l, c));
      }
    }
    (rep, unused)
  };
  st.eval();
  st.label(&format!("lang_{}", case.lang));
  st.label(if case.cli { "via_cli" } else { "via_library" });
  if got_reported != m.reported {
    let wrongly_reported: Vec<_> = got_reported.difference(&m.reported).collect();
    let wrongly_silenced: Vec<_> = m.reported.difference(&got_reported).collect();
    let sig = if !wrongly_reported.is_empty() && m.both_placements {
      "C14:suppressed-finding-reported:own-line-and-trailing-suppression-for-one-line"
    } else if !wrongly_reported.is_empty() {
      "C14:suppressed-finding-reported"
    } else {
      "C14:unsuppressed-finding-silenced"
    };
    fail!(
      sig,
      "findings differ from O-suppress: reported although suppressed {:?}; silenced although not suppressed {:?}\nrules {:?}\n{}",
      wrongly_reported,
      wrongly_silenced,
      case.rules,
      case.source
    );
  }
  if got_unused != m.unused {
    let sig = if m.both_placements { "C14:unused-suppression:own-line-and-trailing-suppression-for-one-line" } else { "C14:unused-suppression" };
    fail!(
      sig,
      "unused suppressions reported on lines {:?}, O-suppress says {:?}\nrules {:?}\n{}",
      got_unused,
      m.unused,
      case.rules,
      case.source
    );
  }
  if m.two_on_one_line {
    st.label("two_findings_on_one_line");
  }
  if m.both_placements {
    st.label("both_placements_same_line");
  }
  if m.adjacent {
    st.label("adjacent_suppressions");
  }
  if !m.unused.is_empty() {
    st.label("unused_present");
  }
  if m.suppressed >= 1 && !m.reported.is_empty() && case.rules.len() >= 2 {
    st.label("nontrivial");
    st.nontrivial(&(&case.lang, &case.source, &case.rules, case.cli));
    if st.wants_sample() {
      st.sample(json!({"lang": case.lang, "rules": case.rules, "source": case.source, "reported": m.reported.len(), "suppressed": m.suppressed, "used_suppressions": m.used, "unused_lines": m.unused}));
    }
  }
  Ok(())
}

/// the library stage, driven by bytes (coverage-guided tier)
pub fn erased() -> crate::fuzz::Erased {
  crate::fuzz::Erased::generic("C14", "library", strategy, interpret, check)
}

pub fn run(cfg: &RunCfg) -> i32 {
  let mut report = Report::new(
    cfg,
    "case = (one of 9 languages with line comments (also written `/* .. */` and, in Rust, `///`), 1-9 single-line call statements each triggering a known subset of the enabled rules r-foo/r-bar/r-baz/r-qux incl. nested calls, decorated with 0-2 own-line comments and an optional trailing comment drawn from: bare ignore, one id, id lists with odd spacing, unknown id, id of a rule that does not fire, plain note; optional block nesting; statements that are the brace-less body of a `while` / `if` on the line before; optional comment at the end). O-suppress is computed from the text alone. Library stage: CombinedScan::scan in both separate_fix modes incl. unused-suppression entries; CLI stage: sg scan --json=stream in a project with all rules enabled. Non-trivial = distinct case with >= 2 rules, >= 1 suppressed and >= 1 reported finding.",
  );
  report.assume("suppression comments only in the placements the property covers: alone on the line before, or trailing a single-line statement");
  let known = Known::load(&cfg.prop);
  if let Some(path) = &cfg.replay {
    return crate::replay_main::<Case>(cfg, path, check);
  }
  crate::replay_known::<Case>(&mut report, &known, check);
  let total = cfg.budget(20_000, 300_000);
  let o = drive(cfg, "library", total, &known, strategy, interpret, check);
  report.absorb("library", o);
  let total = cfg.budget(300, 3_000);
  let o = drive(
    cfg,
    "cli",
    total,
    &known,
    strategy,
    |c, st| {
      interpret(c, st).map(|mut k| {
        k.cli = true;
        k.restrict = k.fixable & 0x80 != 0 && k.fixable & 0x40 != 0;
        k
      })
    },
    check,
  );
  report.absorb("cli", o);
  cli::cleanup_work_root();
  report.floor("nontrivial", 0.2, "evaluations");
  crate::fuzz::stage(cfg, &mut report, &known, 20000);
  report.finish()
}
