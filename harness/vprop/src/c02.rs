//! C02 — code with holes matches the code it was cut from, binding each hole exactly.
use crate::engine::*;
use crate::fail;
use crate::gen::{self, Corpus, SrcChoice, SrcOpts};
use crate::langs;
use crate::pat::{self, PatSpec, STRICTNESS};
use crate::tsutil::{self, parse};
use ast_grep_core::matcher::MatcherExt;
use ast_grep_core::Matcher;
use ast_grep_language::SupportLang;
use proptest::prelude::*;
use proptest::sample::Index;
use serde::{Deserialize, Serialize};
use serde_json::json;

#[derive(Clone, Debug, Serialize, Deserialize)]
pub struct Case {
  pub lang: String,
  pub source: String,
  pub spec: PatSpec,
}

#[derive(Clone, Debug)]
pub struct Choice {
  src: SrcChoice,
  node: Index,
  holes: Vec<Index>,
  run: Option<(Index, Index)>,
}

pub fn strategy(opts: &SrcOpts) -> BoxedStrategy<Choice> {
  (
    gen::src_choice(opts),
    any::<Index>(),
    prop::collection::vec(any::<Index>(), 0..=4),
    prop::option::weighted(0.4, (any::<Index>(), any::<Index>())),
  )
    .prop_map(|(src, node, holes, run)| Choice { src, node, holes, run })
    .boxed()
}

pub fn interpret(corpus: &Corpus, opts: &SrcOpts, ch: &Choice, st: &mut Stats) -> Option<Case> {
  let built = gen::build_source(corpus, &ch.src, opts);
  let lang = built.lang;
  let sg = parse(lang, &built.text);
  let cands = pat::cut_candidates(&built.text, sg.root().get_ts_node(), 400);
  if cands.is_empty() {
    st.discard("no error-free `$`-free node");
    return None;
  }
  // one case in six is drawn from the candidates with a rare textual feature (text that ends or
  // begins with white space, a zero-width descendant, non-ASCII text), when there are any
  let rare: Vec<_> = cands
    .iter()
    .filter(|c| {
      let t = tsutil::text(&built.text, c);
      t.ends_with(char::is_whitespace) || t.starts_with(char::is_whitespace) || !t.is_ascii() || tsutil::has_zero_width((*c).clone())
    })
    .cloned()
    .collect();
  let boosted = ch.holes.len() % 2 == 1 && ch.node.index(3) == 0 && !rare.is_empty();
  let cands = if boosted {
    st.label("rare_feature_candidate");
    rare
  } else {
    cands
  };
  let n = &cands[ch.node.index(cands.len())];
  let mut spec = pat::cut_pattern(&built.text, n, &ch.holes, ch.run);
  // precondition: parses, same shape; retry as contextual pattern
  let ok_plain = pat::build(&spec, lang)
    .map(|p| pat::shape_matches(&built.text, &spec, &p.node, n).is_ok())
    .unwrap_or(false);
  // the plain form has priority: when tree-sitter alone says that the pattern text parses to the
  // code's shape, the plain pattern is the one the property speaks about, whatever the converted
  // pattern tree looks like
  let plain_by_raw = !ok_plain && catch(|| pat::build(&spec, lang)).ok().flatten().is_some() && pat::raw_shape_ok(lang, &built.text, &spec, n);
  if plain_by_raw {
    st.label("shape_by_raw_parse_only");
  }
  if !ok_plain && !plain_by_raw {
    spec.selector = Some(spec.kind.clone());
    let ok_ctx = catch(|| pat::build(&spec, lang))
      .ok()
      .flatten()
      .map(|p| pat::shape_matches(&built.text, &spec, &p.node, n).is_ok())
      .unwrap_or(false);
    if !ok_ctx {
      // the converted pattern tree differs from the code: ask tree-sitter alone whether the
      // pattern text parses to the code's shape (plain form: no context needed when it does)
      spec.selector = None;
      let parses = catch(|| pat::build(&spec, lang)).ok().flatten().is_some();
      if !(parses && pat::raw_shape_ok(lang, &built.text, &spec, n)) {
        st.discard("pattern does not parse to the shape of the code it was cut from");
        return None;
      }
      st.label("shape_by_raw_parse_only");
    }
  }
  for l in &built.labels {
    st.label(l);
  }
  Some(Case {
    lang: langs::name(lang),
    source: built.text,
    spec,
  })
}

pub fn check(case: &Case, st: &mut Stats) -> CheckResult {
  let lang: SupportLang = case.lang.parse().map_err(|_| Fail::new("bad-case", "lang"))?;
  let spec = &case.spec;
  let sg = parse(lang, &case.source);
  let root_ts = sg.root().get_ts_node();
  // locate the node the pattern was cut from
  let Some(n_ts) = tsutil::preorder(root_ts).into_iter().find(|n| {
    n.start_byte() as usize == spec.node_start
      && n.end_byte() as usize == spec.node_end
      && n.kind() == spec.kind.as_str()
  }) else {
    fail!("bad-case", "node {}..{} of kind {} not found", spec.node_start, spec.node_end, spec.kind);
  };
  let Some(pattern) = pat::build(spec, lang) else {
    st.discard("precondition: pattern does not parse");
    return Ok(());
  };
  if let Err(why) = pat::shape_matches(&case.source, spec, &pattern.node, &n_ts) {
    if !pat::raw_shape_ok(lang, &case.source, spec, &n_ts) {
      st.discard("precondition: shape differs");
      let _ = why;
      return Ok(());
    }
    st.label("shape_by_raw_parse_only");
  }
  st.eval();
  st.label(&format!("lang_{}", case.lang));
  let node = sg.inner.adopt(n_ts.clone());
  let node_len = spec.node_end - spec.node_start;
  for s in STRICTNESS {
    let p = pattern.clone().with_strictness(pat::strictness(s));
    let Some(m) = p.match_node(node.clone()) else {
      fail!(
        format!("C02:no-self-match:{s}"),
        "pattern {:?} (selector {:?}) cut from {}..{} ({}) does not match that node under `{s}`\n code: {:?}",
        spec.text,
        spec.selector,
        spec.node_start,
        spec.node_end,
        spec.kind,
        &case.source[spec.node_start..spec.node_end]
      );
    };
    let env = m.get_env();
    for h in &spec.holes {
      match env.get_match(&h.name) {
        Some(b) if b.range() == (h.start..h.end) => {
          if !b.is_named() {
            fail!("C02:hole-bound-to-unnamed", "${} bound to an unnamed node under `{s}`", h.name);
          }
        }
        Some(b) => fail!(
          format!("C02:hole-binding:{s}"),
          "${} bound to {:?} {:?}, expected {}..{} {:?} (pattern {:?}, strictness {s})",
          h.name,
          b.range(),
          b.text(),
          h.start,
          h.end,
          &case.source[h.start..h.end],
          spec.text
        ),
        None => fail!(format!("C02:hole-unbound:{s}"), "${} not bound (pattern {:?}, strictness {s})", h.name, spec.text),
      }
    }
    if let Some(r) = &spec.run {
      let bound = env.get_multiple_matches(&r.name);
      let named: Vec<(usize, usize)> = bound
        .iter()
        // zero-width named siblings (an empty heredoc body, an empty raw-string content) carry no
        // text: whether one at the edge of the run belongs to it is not observable in the code
        .filter(|b| b.is_named() && b.range().end > b.range().start)
        .map(|b| (b.range().start, b.range().end))
        .collect();
      if named != r.named {
        fail!(
          format!("C02:run-binding:{s}"),
          "$$${} bound named nodes {:?}, expected {:?} (pattern {:?}, strictness {s}, code {:?})",
          r.name,
          named,
          r.named,
          spec.text,
          &case.source[spec.node_start..spec.node_end]
        );
      }
      // all bound nodes are consecutive children inside the run's span
      let mut prev_end = r.start;
      for b in &bound {
        let br = b.range();
        if br.start < prev_end || br.end > r.end.max(br.start) && b.is_named() {
          fail!(format!("C02:run-not-consecutive:{s}"), "$$${} bound {:?} outside/overlapping the run {}..{}", r.name, br, r.start, r.end);
        }
        prev_end = br.end;
      }
      if let (Some(f), Some(l)) = (bound.first(), bound.last()) {
        let parent_ok = f.parent().map(|p| p.node_id()) == l.parent().map(|p| p.node_id());
        if !parent_ok {
          fail!(format!("C02:run-not-consecutive:{s}"), "$$${} bound nodes of different parents", r.name);
        }
      }
    }
    match p.get_match_len(node.clone()) {
      Some(len) if len <= node_len => {}
      Some(len) => fail!(format!("C02:match-len:{s}"), "get_match_len = {len} > node length {node_len}"),
      None => fail!(format!("C02:match-len:{s}"), "match_node is Some but get_match_len is None (pattern {:?})", spec.text),
    }
  }
  // labels + non-triviality
  if spec.run.is_some() {
    st.label("ellipsis");
  }
  if !spec.holes.is_empty() {
    st.label("has_holes");
  }
  if spec.selector.is_some() {
    st.label("contextual");
  }
  let has_comment = tsutil::preorder(n_ts.clone())
    .iter()
    .any(|c| tsutil::is_comment_kind(&c.kind()));
  if has_comment {
    st.label("comment_inside");
  }
  let alignment_exists = tsutil::preorder(n_ts.clone()).iter().any(|c| c.named_child_count() >= 2);
  if (!spec.holes.is_empty() || spec.run.is_some()) && alignment_exists {
    st.label("nontrivial");
    st.nontrivial(&(&case.lang, &spec.text, &case.source[spec.node_start..spec.node_end]));
    if st.wants_sample() {
      st.sample(json!({"lang": case.lang, "pattern": spec.text, "selector": spec.selector,
        "code": &case.source[spec.node_start..spec.node_end], "holes": spec.holes, "run": spec.run}));
    }
  }
  Ok(())
}

fn stage_opts() -> SrcOpts {
  let mut opts = SrcOpts::all_langs();
  opts.synth_weight = 4;
  opts
}

/// the same stage, driven by bytes (coverage-guided tier)
pub fn erased() -> crate::fuzz::Erased {
  let corpus: &'static Corpus = Box::leak(Box::new(Corpus::load()));
  let opts: &'static SrcOpts = Box::leak(Box::new(stage_opts()));
  crate::fuzz::Erased::generic("C02", "holes", move || strategy(opts), move |c, st| interpret(corpus, opts, c, st), check)
}

pub fn run(cfg: &RunCfg) -> i32 {
  let mut report = Report::new(
    cfg,
    "case = (language, source, error-free `$`-free named node n <= 400 bytes, up to 4 non-overlapping named descendants replaced by distinct $V_i, optional trailing sibling run replaced by $$$W); kept only when the pattern parses to n's shape (checked by an independent tree comparison, contextual retry). Each kept case is evaluated at all 5 strictness levels. Non-trivial = distinct (pattern, code) with >= 1 hole or run and a node with >= 2 named children inside (an alignment decision exists).",
  );
  report.assume("cases whose pattern does not re-parse to the shape of the code are discarded and counted (property precondition)");
  let known = Known::load(&cfg.prop);
  if let Some(path) = &cfg.replay {
    return crate::replay_main::<Case>(cfg, path, check);
  }
  let corpus = Corpus::load();
  crate::replay_known::<Case>(&mut report, &known, check);
  let opts = stage_opts();
  let total = cfg.budget(60_000, 1_500_000);
  let o = drive(cfg, "holes", total, &known, || strategy(&opts), |c, st| interpret(&corpus, &opts, c, st), check);
  report.absorb("holes", o);
  report.floor("nontrivial", 0.25, "evaluations");
  crate::fuzz::stage(cfg, &mut report, &known, 40000);
  report.finish()
}
