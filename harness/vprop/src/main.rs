use std::path::PathBuf;
use vprop::engine::*;

fn usage() -> ! {
  eprintln!("usage: vprop <ID> [--tier quick|thorough] [--replay FILE] [--seed N] [--scale F] [--selftest]");
  std::process::exit(2)
}

fn main() {
  let args: Vec<String> = std::env::args().skip(1).collect();
  if args.is_empty() {
    usage();
  }
  if args[0] == "__case" {
    // child side of engine::run_isolated: vprop __case <PROP> <stage> <case.json>
    install_panic_hook();
    let path = PathBuf::from(&args[3]);
    let code = match (args[1].as_str(), args[2].as_str()) {
      ("C11", _) => vprop::c11::child(&path),
      ("C12", _) => vprop::c12::child(&path),
      _ => 2,
    };
    std::process::exit(code);
  }
  if args[0] == "__selfmatch" {
    // development aid: C02 on every candidate node of one file, no holes: vprop __selfmatch <Lang> <file>
    install_panic_hook();
    let lang: ast_grep_language::SupportLang = args[1].parse().expect("lang");
    let text = std::fs::read_to_string(&args[2]).expect("read");
    let sg = vprop::tsutil::parse(lang, &text);
    for n in vprop::pat::cut_candidates(&text, sg.root().get_ts_node(), 400) {
      let spec = vprop::pat::cut_pattern(&text, &n, &[], None);
      let case = vprop::c02::Case {
        lang: vprop::langs::name(lang),
        source: text.clone(),
        spec,
      };
      let mut st = Stats::new();
      let r = vprop::c02::check(&case, &mut st);
      println!("{}..{} {} {:?} {:?} {:?}", n.start_byte(), n.end_byte(), n.kind(), r.as_ref().err().map(|f| &f.signature), st.discarded, st.labels.keys().filter(|k| k.contains("shape")).collect::<Vec<_>>());
    }
    std::process::exit(0);
  }
  if args[0] == "__bytes" {
    // development aid: run one byte input of the coverage-guided stage: vprop __bytes <PROP> <file>
    install_panic_hook();
    let data = std::fs::read(&args[2]).expect("read input");
    let erased = vprop::fuzz::by_name(&args[1], args.get(3).map(|s| s == "in-target").unwrap_or(false)).expect("no fuzz entry");
    let mut st = Stats::new();
    match erased.run(&data, &mut st, true) {
      None => println!("held; labels {:?} discarded {:?}", st.labels, st.discarded),
      Some(v) => println!("FAIL {}\n{}\n{}", v.signature, v.message, v.case),
    }
    std::process::exit(0);
  }
  let prop = args[0].clone();
  let mut tier = match std::env::var("VERIF_TIER").as_deref() {
    Ok("thorough") => Tier::Thorough,
    _ => Tier::Quick,
  };
  let mut seed: u64 = std::env::var("VERIF_SEED")
    .ok()
    .and_then(|s| s.trim().parse::<i128>().ok())
    .map(|v| v as u64)
    .unwrap_or(1);
  let mut replay = None;
  let mut scale = 1.0;
  let mut selftest = false;
  let mut survey = false;
  let mut i = 1;
  while i < args.len() {
    match args[i].as_str() {
      "--tier" => {
        i += 1;
        tier = match args.get(i).map(|s| s.as_str()) {
          Some("quick") => Tier::Quick,
          Some("thorough") => Tier::Thorough,
          _ => usage(),
        };
      }
      "--replay" => {
        i += 1;
        replay = Some(PathBuf::from(args.get(i).unwrap_or_else(|| usage())));
      }
      "--seed" => {
        i += 1;
        seed = args.get(i).and_then(|s| s.parse().ok()).unwrap_or_else(|| usage());
      }
      "--scale" => {
        i += 1;
        scale = args.get(i).and_then(|s| s.parse().ok()).unwrap_or_else(|| usage());
      }
      "--selftest" => selftest = true,
      "--survey" => survey = true,
      _ => usage(),
    }
    i += 1;
  }
  let cfg = RunCfg {
    prop: prop.clone(),
    tier,
    seed,
    strict: replay.is_some(),
    replay,
    scale,
    selftest,
    survey,
  };
  install_panic_hook();
  let code = match prop.as_str() {
    "C01" => vprop::c01::run(&cfg),
    "C02" => vprop::c02::run(&cfg),
    "C03" => vprop::c03::run(&cfg),
    "C04" => vprop::c04::run(&cfg),
    "C05" => vprop::c05::run(&cfg),
    "C06" => vprop::c06::run(&cfg),
    "C07" => vprop::c07::run(&cfg),
    "C08" => vprop::c08::run(&cfg),
    "C09" => vprop::c09::run(&cfg),
    "C10" => vprop::c10::run(&cfg),
    "C11" => vprop::c11::run(&cfg),
    "C12" => vprop::c12::run(&cfg),
    "C13" => vprop::c13::run(&cfg),
    "C14" => vprop::c14::run(&cfg),
    "C15" => vprop::c15::run(&cfg),
    "C16" => vprop::c16::run(&cfg),
    "C17" => vprop::c17::run(&cfg),
    "C18" => vprop::c18::run(&cfg),
    "C19" => vprop::c19::run(&cfg),
    "C20" => vprop::c20::run(&cfg),
    _ => {
      eprintln!("unknown property {prop}");
      2
    }
  };
  std::process::exit(code);
}
