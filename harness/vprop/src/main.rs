fn main(){}
