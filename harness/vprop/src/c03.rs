//! C03 — every reported pattern match is justified by the documented strictness rules.
//! O-align: an existential, memoised legal-alignment relation over (pattern tree, raw node).
use crate::engine::*;
use crate::fail;
use crate::gen::{self, Corpus, Mutn, SrcChoice, SrcOpts};
use crate::langs;
use crate::pat::{self, STRICTNESS};
use crate::tsutil::{self, parse};
use ast_grep_core::matcher::{MatcherExt, PatternNode};
use ast_grep_core::meta_var::MetaVariable;
use ast_grep_core::{Matcher, Pattern};
use ast_grep_language::SupportLang;
use proptest::prelude::*;
use proptest::sample::Index;
use serde::{Deserialize, Serialize};
use serde_json::json;
use std::collections::HashMap;
use tree_sitter::Node as TsNode;

#[derive(Clone, Debug, Serialize, Deserialize)]
pub struct Case {
  pub lang: String,
  pub pattern: String,
  pub selector: Option<String>,
  /// source holding the candidate node
  pub source: String,
  pub cand_start: usize,
  pub cand_end: usize,
  pub cand_kind: String,
  /// true when the candidate is the very node the pattern was cut from
  pub is_origin: bool,
}

#[derive(Clone, Debug)]
pub struct HolePick {
  node: Index,
  form: u8,
}

#[derive(Clone, Debug)]
pub struct Choice {
  src: SrcChoice,
  node: Index,
  holes: Vec<HolePick>,
  /// 0 origin, 1 other node of the same kind, 2 mutated copy, 3 copy with the abstracted parts deleted
  cand_mode: u8,
  cand: Index,
  muts: Vec<Mutn>,
}

pub fn strategy(opts: &SrcOpts) -> BoxedStrategy<Choice> {
  let hole = (any::<Index>(), 0u8..10).prop_map(|(node, form)| HolePick { node, form });
  let mutn = (0u8..12, any::<Index>(), any::<Index>(), any::<u8>())
    .prop_map(|(kind, a, b, c)| Mutn { kind, a, b, c });
  (
    gen::src_choice(opts),
    any::<Index>(),
    prop::collection::vec(hole, 0..=3),
    prop_oneof![1 => Just(0u8), 3 => Just(1u8), 4 => Just(2u8), 2 => Just(3u8)],
    any::<Index>(),
    prop::collection::vec(mutn, 1..=2),
  )
    .prop_map(|(src, node, holes, cand_mode, cand, muts)| Choice {
      src,
      node,
      holes,
      cand_mode,
      cand,
      muts,
    })
    .boxed()
}

pub fn cut_free_pub(src: &str, n: &TsNode, picks: &[(Index, u8)]) -> String {
  let v: Vec<HolePick> = picks.iter().map(|(node, form)| HolePick { node: *node, form: *form }).collect();
  cut_free(src, n, &v)
}

/// free-form pattern: text of `n` with up to 3 descendants (named or not) replaced by sigils
fn cut_free(src: &str, n: &TsNode, picks: &[HolePick]) -> String {
  let mut desc: Vec<TsNode> = tsutil::preorder(n.clone())
    .into_iter()
    .skip(1)
    .filter(|d| d.end_byte() > d.start_byte() && d.byte_range() != n.byte_range())
    .collect();
  desc.sort_by_key(|d| (d.end_byte() - d.start_byte(), d.start_byte()));
  let mut repl: Vec<(usize, usize, String)> = vec![];
  if !desc.is_empty() {
    for (i, p) in picks.iter().enumerate() {
      let d = &desc[p.node.index(desc.len())];
      let (s, e) = (d.start_byte() as usize, d.end_byte() as usize);
      if repl.iter().any(|r| s < r.1 && r.0 < e) {
        continue;
      }
      let t = match p.form {
        0..=3 => format!("$V{i}"),
        4 | 5 => format!("$$V{i}"),
        6 => "$_".to_string(),
        7 => "$$$".to_string(),
        _ => format!("$$$W{i}"),
      };
      // single-sigil named holes only make sense for named nodes; still allowed (near-miss)
      repl.push((s, e, t));
    }
  }
  repl.sort_by_key(|r| r.0);
  let base = n.start_byte() as usize;
  let mut text = String::new();
  let mut at = base;
  for (s, e, t) in &repl {
    text.push_str(&src[at..*s]);
    text.push_str(t);
    at = *e;
  }
  text.push_str(&src[at..n.end_byte() as usize]);
  text
}

/// the byte ranges cut_free replaces, in source order
fn hole_regions(src: &str, n: &TsNode, picks: &[HolePick]) -> Vec<(usize, usize)> {
  let mut desc: Vec<TsNode> = tsutil::preorder(n.clone())
    .into_iter()
    .skip(1)
    .filter(|d| d.end_byte() > d.start_byte() && d.byte_range() != n.byte_range())
    .collect();
  desc.sort_by_key(|d| (d.end_byte() - d.start_byte(), d.start_byte()));
  let _ = src;
  let mut repl: Vec<(usize, usize)> = vec![];
  if !desc.is_empty() {
    for p in picks {
      let d = &desc[p.node.index(desc.len())];
      let (s, e) = (d.start_byte() as usize, d.end_byte() as usize);
      if repl.iter().any(|r| s < r.1 && r.0 < e) {
        continue;
      }
      repl.push((s, e));
    }
  }
  repl.sort();
  repl
}

fn pattern_root_kind(p: &PatternNode) -> Option<u16> {
  match p {
    PatternNode::Terminal { kind_id, .. } | PatternNode::Internal { kind_id, .. } => Some(*kind_id),
    PatternNode::MetaVar { .. } => None,
  }
}

pub fn interpret(corpus: &Corpus, opts: &SrcOpts, ch: &Choice, st: &mut Stats) -> Option<Case> {
  let built = gen::build_source(corpus, &ch.src, opts);
  let lang = built.lang;
  let sg = parse(lang, &built.text);
  // patterns may be cut from nodes containing errors too (ERROR-rooted patterns)
  let mut cands: Vec<TsNode> = tsutil::preorder(sg.root().get_ts_node())
    .into_iter()
    .filter(|n| {
      n.is_named()
        && n.parent().is_some()
        && n.end_byte() > n.start_byte()
        && (n.end_byte() - n.start_byte()) <= 300
        && !tsutil::text(&built.text, n).contains('$')
        && !tsutil::text(&built.text, n).trim().is_empty()
    })
    .collect();
  cands.sort_by_key(|n| (n.end_byte() - n.start_byte(), n.start_byte()));
  if cands.is_empty() {
    return None;
  }
  let n = &cands[ch.node.index(cands.len())];
  let text = cut_free(&built.text, n, &ch.holes);
  let (pattern, selector) = match catch(|| Pattern::try_new(&text, lang)) {
    Ok(Ok(p)) => (p, None),
    _ => {
      let sel = n.kind().to_string();
      match catch(|| Pattern::contextual(&text, &sel, lang)) {
        Ok(Ok(p)) => (p, Some(sel)),
        _ => {
          st.discard("pattern does not parse");
          return None;
        }
      }
    }
  };
  let root_kind = pattern_root_kind(&pattern.node);
  // candidate
  let (source, cs, ce, ck, is_origin) = match ch.cand_mode {
    0 => (
      built.text.clone(),
      n.start_byte() as usize,
      n.end_byte() as usize,
      n.kind().to_string(),
      true,
    ),
    1 => {
      let same: Vec<TsNode> = tsutil::preorder(sg.root().get_ts_node())
        .into_iter()
        .filter(|c| Some(c.kind_id()) == root_kind.or(Some(n.kind_id())) && c.end_byte() - c.start_byte() <= 600)
        .collect();
      if same.is_empty() {
        st.discard("no same-kind candidate");
        return None;
      }
      let c = &same[ch.cand.index(same.len())];
      (
        built.text.clone(),
        c.start_byte() as usize,
        c.end_byte() as usize,
        c.kind().to_string(),
        c.id() == n.id(),
      )
    }
    3 => {
      // the origin with the text of every abstracted descendant deleted: what a `$$$` hole stood
      // for is now empty (`init($$$W0)` against `init()`), a `$V` hole has nothing to bind
      let regions = hole_regions(&built.text, n, &ch.holes);
      if regions.is_empty() {
        st.discard("no hole to delete");
        return None;
      }
      let mut text2 = built.text.clone();
      for (s, e) in regions.iter().rev() {
        text2.replace_range(*s..*e, "");
      }
      let sg2 = parse(lang, &text2);
      let kind = n.kind_id();
      let start = n.start_byte();
      let all = tsutil::preorder(sg2.root().get_ts_node());
      let Some(c) = all.iter().find(|c| c.start_byte() == start && c.kind_id() == kind) else {
        st.discard("emptied copy lost its kind");
        return None;
      };
      st.label("cand_emptied");
      (text2.clone(), c.start_byte() as usize, c.end_byte() as usize, c.kind().to_string(), false)
    }
    _ => {
      // mutated copy of n: mutations scoped to n's span, candidate = same-kind node at n.start
      let mut text2 = built.text.clone();
      let mut scope = (n.start_byte() as usize, n.end_byte() as usize);
      let mut o2 = opts.clone();
      o2.allow_errors = true;
      let mut applied = 0;
      for m in &ch.muts {
        let before = text2.len() as isize;
        if gen::apply_mut_scoped(lang, &mut text2, m, &o2, Some(scope)).is_some() {
          applied += 1;
          let delta = text2.len() as isize - before;
          scope.1 = (scope.1 as isize + delta).max(scope.0 as isize) as usize;
        }
      }
      if applied == 0 {
        st.discard("no mutation applied to the candidate");
        return None;
      }
      let sg2 = parse(lang, &text2);
      let kind = n.kind_id();
      let start = n.start_byte();
      let all = tsutil::preorder(sg2.root().get_ts_node());
      let c = all
        .iter()
        .find(|c| c.start_byte() == start && c.kind_id() == kind)
        .or_else(|| all.iter().find(|c| c.kind_id() == kind && c.start_byte() >= start))
        .or_else(|| all.iter().find(|c| c.kind_id() == kind));
      let Some(c) = c else {
        st.discard("mutated copy lost its kind");
        return None;
      };
      st.label("cand_mutated");
      (
        text2.clone(),
        c.start_byte() as usize,
        c.end_byte() as usize,
        c.kind().to_string(),
        false,
      )
    }
  };
  Some(Case {
    lang: langs::name(lang),
    pattern: text,
    selector,
    source,
    cand_start: cs,
    cand_end: ce,
    cand_kind: ck,
    is_origin,
  })
}

// ---------------------------------------------------------------------------------------
// O-align

#[derive(Clone, Copy, PartialEq, Eq)]
enum S {
  Cst,
  Smart,
  Ast,
  Relaxed,
  Signature,
}

fn is_ellipsis(p: &PatternNode) -> bool {
  matches!(
    p,
    PatternNode::MetaVar {
      meta_var: MetaVariable::Multiple | MetaVariable::MultiCapture(_)
    }
  )
}

/// bindings an alignment has to respect (C04's instantiation check); None = unconstrained (C03)
pub struct EnvView<'e, 't> {
  pub single: &'e std::collections::BTreeMap<String, TsNode<'t>>,
  pub multi: &'e std::collections::BTreeMap<String, Vec<TsNode<'t>>>,
}

struct Align<'s, 'e, 't> {
  src: &'s str,
  s: S,
  node_memo: HashMap<(usize, usize, u32), bool>,
  env: Option<EnvView<'e, 't>>,
}

/// structural identity, at least as permissive as the implementation's: equal text, or equal
/// kind with pairwise identical children
pub fn struct_eq(src: &str, a: &TsNode, b: &TsNode) -> bool {
  if a.id() == b.id() || tsutil::text(src, a) == tsutil::text(src, b) {
    return true;
  }
  if a.kind_id() != b.kind_id() {
    return false;
  }
  let (ca, cb) = (tsutil::children(a), tsutil::children(b));
  if ca.is_empty() || ca.len() != cb.len() {
    return false;
  }
  ca.iter().zip(cb.iter()).all(|(x, y)| struct_eq(src, x, y))
}

const ERROR_KIND: u16 = 65535;

impl<'s, 'e, 't> Align<'s, 'e, 't> {
  fn kinds_agree(goal: u16, cand: u16) -> bool {
    goal == cand || goal == ERROR_KIND
  }
  fn cand_skippable_inside(&self, c: &TsNode) -> bool {
    match self.s {
      S::Cst => false,
      S::Smart | S::Ast => !c.is_named(),
      S::Relaxed | S::Signature => !c.is_named() || tsutil::is_comment_kind(&c.kind()),
    }
  }
  fn cand_skippable_trailing(&self, c: &TsNode) -> bool {
    match self.s {
      S::Cst => false,
      S::Smart => true,
      S::Ast => !c.is_named(),
      S::Relaxed | S::Signature => !c.is_named() || tsutil::is_comment_kind(&c.kind()),
    }
  }
  fn pattern_skippable(&self, p: &PatternNode, after_ellipsis: bool) -> bool {
    if is_ellipsis(p) {
      return true;
    }
    let unnamed_terminal = matches!(p, PatternNode::Terminal { is_named: false, .. });
    if after_ellipsis && unnamed_terminal {
      // the separator written after `$$$A,` belongs to the ellipsis (documented by the repo's tests)
      return true;
    }
    match self.s {
      S::Cst | S::Smart => false,
      S::Ast | S::Relaxed | S::Signature => {
        unnamed_terminal
          || matches!(
            p,
            PatternNode::MetaVar {
              meta_var: MetaVariable::Capture(_, false) | MetaVariable::Dropped(false)
            }
          )
      }
    }
  }

  fn legal_node(&mut self, p: &PatternNode, c: &TsNode) -> bool {
    let key = (p as *const PatternNode as usize, c.id(), c.start_byte());
    if let Some(v) = self.node_memo.get(&key) {
      return *v;
    }
    let v = match p {
      PatternNode::MetaVar { meta_var } => match meta_var {
        MetaVariable::Capture(name, named) => {
          (!*named || c.is_named())
            && match self.env.as_ref().and_then(|e| e.single.get(name)) {
              Some(bound) => struct_eq(self.src, bound, c),
              None => self.env.is_none(),
            }
        }
        MetaVariable::Dropped(named) => !*named || c.is_named(),
        MetaVariable::Multiple | MetaVariable::MultiCapture(_) => true,
      },
      PatternNode::Terminal {
        text,
        is_named,
        kind_id,
      } => {
        Self::kinds_agree(*kind_id, c.kind_id())
          && (!*is_named || self.s == S::Signature || text == tsutil::text(self.src, c))
      }
      // an internal pattern node without children (e.g. the empty `selectors` of the CSS pattern
      // `{ $$$ }`) stands for any node of its kind: deliberate, see ast-grep issue #1688
      // referenced in match_tree/match_node.rs
      PatternNode::Internal { kind_id, children } if children.is_empty() => Self::kinds_agree(*kind_id, c.kind_id()),
      PatternNode::Internal { kind_id, children } => {
        Self::kinds_agree(*kind_id, c.kind_id()) && {
          let cs = tsutil::children(c);
          let mut memo = HashMap::new();
          self.align(children, &cs, 0, 0, false, &mut memo)
        }
      }
    };
    self.node_memo.insert(key, v);
    v
  }

  fn align(
    &mut self,
    ps: &[PatternNode],
    cs: &[TsNode],
    i: usize,
    j: usize,
    after_ellipsis: bool,
    memo: &mut HashMap<(usize, usize, bool), bool>,
  ) -> bool {
    if let Some(v) = memo.get(&(i, j, after_ellipsis)) {
      return *v;
    }
    let v = self.align_inner(ps, cs, i, j, after_ellipsis, memo);
    memo.insert((i, j, after_ellipsis), v);
    v
  }

  fn align_inner(
    &mut self,
    ps: &[PatternNode],
    cs: &[TsNode],
    i: usize,
    j: usize,
    after_ellipsis: bool,
    memo: &mut HashMap<(usize, usize, bool), bool>,
  ) -> bool {
    if i == ps.len() {
      return cs[j..].iter().all(|c| self.cand_skippable_trailing(c));
    }
    let p = &ps[i];
    // (d) leave the pattern child unmatched (a named ellipsis under an env goes through (a))
    let env_bound_ellipsis = match (p, self.env.as_ref()) {
      (
        PatternNode::MetaVar {
          meta_var: MetaVariable::MultiCapture(name),
        },
        Some(e),
      ) => e.multi.contains_key(name),
      _ => false,
    };
    if !env_bound_ellipsis && self.pattern_skippable(p, after_ellipsis) {
      let keep_flag = is_ellipsis(p) || after_ellipsis;
      if self.align(ps, cs, i + 1, j, keep_flag, memo) {
        return true;
      }
    }
    if j == cs.len() && !env_bound_ellipsis {
      return false;
    }
    if j == cs.len() {
      // only the env-bound ellipsis can still consume nothing
      let p_is = is_ellipsis(p);
      if !p_is {
        return false;
      }
    }
    let dummy;
    let c = if j < cs.len() {
      &cs[j]
    } else {
      dummy = cs.last().cloned();
      match &dummy {
        Some(d) => d,
        None => return false,
      }
    };
    // (a) an ellipsis absorbs this candidate (consecutive siblings)
    if is_ellipsis(p) {
      let bound: Option<Vec<TsNode>> = match (p, self.env.as_ref()) {
        (
          PatternNode::MetaVar {
            meta_var: MetaVariable::MultiCapture(name),
          },
          Some(e),
        ) => e.multi.get(name).map(|v| v.iter().filter(|n| n.is_named()).cloned().collect()),
        _ => None,
      };
      match bound {
        None => {
          if self.align(ps, cs, i, j + 1, false, memo) {
            return true;
          }
        }
        Some(bound) => {
          // the run cs[j..j2] must carry exactly the bound named nodes (structurally)
          for j2 in j..=cs.len() {
            let named: Vec<&TsNode> = cs[j..j2].iter().filter(|n| n.is_named()).collect();
            if named.len() > bound.len() {
              break;
            }
            if named.len() == bound.len()
              && named.iter().zip(bound.iter()).all(|(a, b)| struct_eq(self.src, a, b))
              && self.align(ps, cs, i + 1, j2, true, memo)
            {
              return true;
            }
          }
          return false;
        }
      }
    }
    // (b) align p with c
    if !is_ellipsis(p) && self.legal_node(p, c) && self.align(ps, cs, i + 1, j + 1, false, memo) {
      return true;
    }
    // (c) leave the candidate child unmatched
    if self.cand_skippable_inside(c) && self.align(ps, cs, i, j + 1, after_ellipsis, memo) {
      return true;
    }
    false
  }
}

pub fn legal(src: &str, p: &PatternNode, c: &TsNode, strictness: &str) -> bool {
  let s = match strictness {
    "cst" => S::Cst,
    "smart" => S::Smart,
    "ast" => S::Ast,
    "relaxed" => S::Relaxed,
    _ => S::Signature,
  };
  let mut a = Align {
    src,
    s,
    node_memo: HashMap::new(),
    env: None,
  };
  a.legal_node(p, c)
}

/// C04: is there a legal alignment in which every variable occurrence sits on code that is
/// structurally identical to what `env` binds it to
pub fn legal_env<'t>(src: &str, p: &PatternNode, c: &TsNode<'t>, strictness: &str, env: EnvView<'_, 't>) -> bool {
  let s = match strictness {
    "cst" => S::Cst,
    "smart" => S::Smart,
    "ast" => S::Ast,
    "relaxed" => S::Relaxed,
    _ => S::Signature,
  };
  let mut a = Align {
    src,
    s,
    node_memo: HashMap::new(),
    env: Some(env),
  };
  a.legal_node(p, c)
}

fn leaf_tokens<'a>(n: &TsNode<'a>) -> Vec<TsNode<'a>> {
  tsutil::preorder(n.clone())
    .into_iter()
    .filter(|x| x.child_count() == 0)
    .collect()
}

pub fn check(case: &Case, st: &mut Stats) -> CheckResult {
  let lang: SupportLang = case.lang.parse().map_err(|_| Fail::new("bad-case", "lang"))?;
  let pattern = match &case.selector {
    None => Pattern::try_new(&case.pattern, lang),
    Some(sel) => Pattern::contextual(&case.pattern, sel, lang),
  };
  let Ok(pattern) = pattern else {
    st.discard("pattern does not parse");
    return Ok(());
  };
  let sg = parse(lang, &case.source);
  let Some(c_ts) = tsutil::preorder(sg.root().get_ts_node()).into_iter().find(|n| {
    n.start_byte() as usize == case.cand_start
      && n.end_byte() as usize == case.cand_end
      && n.kind() == case.cand_kind.as_str()
  }) else {
    fail!("bad-case", "candidate node not found");
  };
  let cand = sg.inner.adopt(c_ts.clone());
  let root_kind_agrees = pattern_root_kind(&pattern.node)
    .map(|k| Align::kinds_agree(k, c_ts.kind_id()))
    .unwrap_or(true);
  let mut verdicts = vec![];
  for s in STRICTNESS {
    st.eval();
    let p = pattern.clone().with_strictness(pat::strictness(s));
    let m = p.match_node(cand.clone()).is_some();
    let len = p.get_match_len(cand.clone());
    verdicts.push(m);
    if m {
      st.label("reported_match");
      // (a) soundness: a reported match needs a legal alignment.
      // contextual patterns additionally require the selector kind at the root (impl detail that
      // only makes the implementation stricter)
      if !legal(&case.source, &pattern.node, &c_ts, s) {
        fail!(
          format!("C03:illegal-match:{s}"),
          "pattern {:?} (selector {:?}) is reported to match {}..{} ({}) under `{s}` but no alignment allowed by the strictness rules exists\n candidate: {:?}\n pattern tree: {:?}\n candidate sexp: {}",
          case.pattern,
          case.selector,
          case.cand_start,
          case.cand_end,
          case.cand_kind,
          &case.source[case.cand_start..case.cand_end.min(case.source.len())],
          pattern,
          c_ts.to_sexp()
        );
      }
    }
    // (b) match length: the property speaks about the length reported for a *matched* prefix.
    // Whether get_match_len agrees with match_node on being Some is only recorded (diagnostic).
    if m && len.is_none() {
      st.label("diag_match_without_match_len");
    }
    if !m {
      if len.is_some() {
        st.label("diag_match_len_without_match");
      }
      continue;
    }
    if let Some(len) = len {
      let node_len = case.cand_end - case.cand_start;
      if len > node_len {
        fail!(format!("C03:match-len-exceeds:{s}"), "pattern {:?} (selector {:?}) matches {}..{} ({}) {:?} under `{s}` but get_match_len reports {len} > node length {node_len}; pattern tree {:?}; candidate {}", case.pattern, case.selector, case.cand_start, case.cand_end, case.cand_kind, &case.source[case.cand_start..case.cand_end.min(case.source.len())], pattern, c_ts.to_sexp());
      }
      let end = case.cand_start + len;
      if tsutil::children(&c_ts).iter().any(|k| (k.start_byte() as usize) < end && end < (k.end_byte() as usize)) {
        // recorded only: on the unchanged tree a matched prefix legitimately ends inside a direct
        // child (`qux(x, x)` against `qux(x, x,)`), so only token splitting is asserted below
        st.label("diag_end_inside_direct_child");
      }
      if let Some(t) = leaf_tokens(&c_ts)
        .iter()
        .find(|t| (t.start_byte() as usize) < end && end < (t.end_byte() as usize))
      {
        fail!(
          format!("C03:match-len-splits-token:{s}"),
          "pattern {:?}: matched prefix ends at {end}, inside token {:?} ({}..{})",
          case.pattern,
          tsutil::text(&case.source, t),
          t.start_byte(),
          t.end_byte()
        );
      }
    }
  }
  st.label(&format!("lang_{}", case.lang));
  if !case.is_origin && root_kind_agrees {
    st.label("near_miss_root_kind_agrees");
    st.nontrivial(&(&case.lang, &case.pattern, &case.source[case.cand_start..case.cand_end.min(case.source.len())]));
    let any = verdicts.iter().any(|v| *v);
    let all = verdicts.iter().all(|v| *v);
    if any && !all {
      st.label("near_miss_split_verdict");
    }
    if any {
      st.label("near_miss_accepted_somewhere");
    }
    if st.wants_sample() && any && !all {
      st.sample(json!({"lang": case.lang, "pattern": case.pattern, "selector": case.selector,
        "candidate": &case.source[case.cand_start..case.cand_end.min(case.source.len())],
        "verdicts(cst,smart,ast,relaxed,signature)": verdicts}));
    }
  }
  if case.is_origin {
    st.label("origin_candidate");
  }
  // (c) diagnostic only: inclusions between strictness levels for hole-free patterns
  if !case.pattern.contains('$') {
    let v = &verdicts;
    if (v[0] && !v[1]) || (v[2] && !v[3]) || (v[3] && !v[4]) {
      st.label("diag_strictness_inclusion_exception");
    }
  }
  Ok(())
}

fn stage_opts() -> SrcOpts {
  let mut opts = SrcOpts::all_langs().with_errors();
  opts.synth_weight = 4;
  opts.max_muts = 2;
  opts
}

/// the same stage, driven by bytes (coverage-guided tier)
pub fn erased() -> crate::fuzz::Erased {
  let corpus: &'static Corpus = Box::leak(Box::new(Corpus::load()));
  let opts: &'static SrcOpts = Box::leak(Box::new(stage_opts()));
  crate::fuzz::Erased::generic("C03", "align", move || strategy(opts), move |c, st| interpret(corpus, opts, c, st), check)
}

// ---------------------------------------------------------------------------------------
// lists: a `$$$A` in an argument list / array, with and without a separator written after it.
// When the pattern is reported to match, the ellipses together hold exactly the named elements
// that the literal prefix does not account for: none is left out, none is held twice.

#[derive(Clone, Debug, Serialize, Deserialize)]
pub struct ListCase {
  pub lang: String,
  pub source: String,
  pub pattern: String,
  pub strictness: String,
  /// number of leading elements the pattern spells out
  pub prefix: usize,
  pub two_ellipses: bool,
}

pub fn list_strategy() -> BoxedStrategy<(u8, Vec<u8>, u8, u8, u8, bool)> {
  (0u8..3, prop::collection::vec(0u8..6, 0..5), 0u8..4, 0u8..5, 0u8..5, any::<bool>()).boxed()
}

pub fn interpret_list(ch: &(u8, Vec<u8>, u8, u8, u8, bool), _st: &mut Stats) -> Option<ListCase> {
  let (lang, args, form, strict, prefix, code_trailing_comma) = ch;
  let lang = [SupportLang::JavaScript, SupportLang::TypeScript, SupportLang::Python][*lang as usize % 3];
  let pool = ["a", "b", "1", "g(x)", "\"s\"", "c"];
  let items: Vec<&str> = args.iter().map(|a| pool[*a as usize % pool.len()]).collect();
  let k = (*prefix as usize).min(items.len());
  let (open, close) = if *form == 2 { ("[", "]") } else { ("f(", ")") };
  let tail = if *code_trailing_comma && !items.is_empty() { "," } else { "" };
  let source = format!("{open}{}{tail}{close}\n", items.join(", "));
  let lead = items[..k].iter().map(|x| format!("{x}, ")).collect::<String>();
  let (pattern, two) = match form {
    0 | 2 => (format!("{open}{lead}$$$A, {close}"), false),
    1 => (format!("{open}{lead}$$$A{close}"), false),
    _ => (format!("{open}{lead}$$$A, $$$B{close}"), true),
  };
  Some(ListCase {
    lang: langs::name(lang),
    source,
    pattern,
    strictness: STRICTNESS[*strict as usize % STRICTNESS.len()].to_string(),
    prefix: k,
    two_ellipses: two,
  })
}

pub fn check_list(case: &ListCase, st: &mut Stats) -> CheckResult {
  let lang: SupportLang = case.lang.parse().map_err(|_| Fail::new("bad-case", "lang"))?;
  let sg = parse(lang, &case.source);
  if tsutil::subtree_has_error(&sg.root().get_ts_node()) {
    st.discard("generated list does not parse");
    return Ok(());
  }
  let Ok(p) = catch(|| Pattern::try_new(&case.pattern, lang)) else {
    fail!("C03:panic:pattern", "panic while building the pattern {:?}", case.pattern);
  };
  let Ok(p) = p else {
    st.discard("pattern does not parse");
    return Ok(());
  };
  let p = p.with_strictness(pat::strictness(&case.strictness));
  st.eval();
  let is_list = |n: &TsNode| matches!(n.kind().as_ref(), "arguments" | "argument_list" | "array" | "list");
  let mut reported = 0;
  for n in tsutil::preorder(sg.root().get_ts_node()) {
    let m = match catch(|| p.match_node(sg.inner.adopt(n.clone()))) {
      Ok(m) => m,
      Err(e) => fail!(panic_signature(&e), "panic while matching {:?} ({}) against {:?}: {e}", case.pattern, case.strictness, case.source),
    };
    let Some(m) = m else { continue };
    // the list of the matched node: the node itself (array) or its argument list
    let list = if is_list(&n) { Some(n.clone()) } else { (0..n.child_count()).filter_map(|i| n.child(i as u32)).find(|c| is_list(c)) };
    let Some(list) = list else { continue };
    let elements: Vec<(usize, usize)> = (0..list.child_count())
      .filter_map(|i| list.child(i as u32))
      .filter(|c| c.is_named() && !tsutil::is_comment_kind(&c.kind()))
      .map(|c| (c.start_byte() as usize, c.end_byte() as usize))
      .collect();
    reported += 1;
    let env = m.get_env();
    let named = |v: &str| -> Vec<(usize, usize)> {
      env.get_multiple_matches(v).iter().filter(|b| b.is_named()).map(|b| (b.range().start, b.range().end)).collect()
    };
    let mut held = named("A");
    if case.two_ellipses {
      held.extend(named("B"));
    }
    let want: Vec<(usize, usize)> = elements.iter().skip(case.prefix).cloned().collect();
    if held != want {
      fail!(
        "C03:list-ellipsis-binding",
        "pattern {:?} ({}) is reported to match {:?}, the ellipses hold the named elements {:?} but the elements after the {} spelled-out one(s) are {:?}",
        case.pattern,
        case.strictness,
        case.source,
        held.iter().map(|(s, e)| &case.source[*s..*e]).collect::<Vec<_>>(),
        case.prefix,
        want.iter().map(|(s, e)| &case.source[*s..*e]).collect::<Vec<_>>()
      );
    }
  }
  if reported > 0 {
    st.label("list_match_reported");
    st.nontrivial(&(&case.lang, &case.source, &case.pattern, &case.strictness));
  }
  Ok(())
}

pub fn run(cfg: &RunCfg) -> i32 {
  let mut report = Report::new(
    cfg,
    "case = (language, pattern cut from a node with up to 3 descendants (named or unnamed) replaced by $V/$$V/$_/$$$/$$$W, candidate = origin | other node of the pattern's root kind | copy of the origin mutated inside its span (child deleted/duplicated/swapped/spliced, comment or separator inserted, bytes removed)), evaluated at all 5 strictness levels (evaluations counts (pattern, candidate, strictness) triples). Stage lists: argument lists / arrays of 0-4 elements (JavaScript, TypeScript, Python) against `f(<k elements>, $$$A, )`, `f(.., $$$A)`, `[.., $$$A, ]` and `f(.., $$$A, $$$B)` at every strictness: whenever a match is reported, the ellipses hold exactly the named elements after the k spelled-out ones. Non-trivial = distinct (pattern, candidate) where the candidate is not the origin and root kinds agree.",
  );
  report.assume("O-align is existential and at least as permissive as the documentation and the repository's documented tests (separator after an ellipsis); only soundness (reported match => legal alignment) is asserted");
  report.assume("unnamed pattern terminals are compared by kind only (the documented tree-sitter-typescript work-around)");
  let known = Known::load(&cfg.prop);
  if let Some(path) = &cfg.replay {
    if read_replay(path).stage == "lists" {
      return crate::replay_main::<ListCase>(cfg, path, check_list);
    }
    return crate::replay_main::<Case>(cfg, path, check);
  }
  let corpus = Corpus::load();
  crate::replay_known_staged::<Case>(&mut report, &known, "lists", false, check);
  crate::replay_known_staged::<ListCase>(&mut report, &known, "lists", true, check_list);
  let opts = stage_opts();
  let total = cfg.budget(30_000, 600_000);
  let o = drive(cfg, "align", total, &known, || strategy(&opts), |c, st| interpret(&corpus, &opts, c, st), check);
  report.absorb("align", o);
  let total = cfg.budget(6_000, 60_000);
  let o = drive(cfg, "lists", total, &known, list_strategy, interpret_list, check_list);
  report.absorb("lists", o);
  report.floor("near_miss_root_kind_agrees", 0.06, "evaluations");
  report.floor("near_miss_split_verdict", 0.10, "near_miss_accepted_somewhere");
  crate::fuzz::stage(cfg, &mut report, &known, 30000);
  report.finish()
}
