//! C10 — editing a parsed document ≡ parsing the edited text.
use crate::engine::*;
use crate::fail;
use crate::gen::{self, Corpus, SrcChoice, SrcOpts};
use crate::langs;
use crate::tsutil::{self, parse};
use ast_grep_core::source::Edit;
use ast_grep_core::{Pattern, StrDoc};
use ast_grep_language::SupportLang;
use proptest::prelude::*;
use proptest::sample::Index;
use serde::{Deserialize, Serialize};
use serde_json::json;

#[derive(Clone, Debug, Serialize, Deserialize)]
pub enum Step {
  /// raw edit: byte position, deleted byte length, inserted text
  Edit { pos: usize, del: usize, ins: String },
  /// AstGrep::replace(pattern, template): first match
  Replace { pattern: String, template: String },
  /// Node::replace_all edits applied back to front through AstGrep::edit
  ReplaceAll { pattern: String, template: String },
}

#[derive(Clone, Debug, Serialize, Deserialize)]
pub struct Case {
  pub lang: String,
  pub source: String,
  pub steps: Vec<Step>,
  /// a pattern searched on the final document (incremental vs fresh)
  pub probe: Option<String>,
}

#[derive(Clone, Debug)]
pub struct StepChoice {
  kind: u8,
  a: Index,
  b: Index,
  c: u8,
}

#[derive(Clone, Debug)]
pub struct Choice {
  src: SrcChoice,
  steps: Vec<StepChoice>,
  probe: Index,
}

pub fn strategy(opts: &SrcOpts) -> BoxedStrategy<Choice> {
  let step = (0u8..10, any::<Index>(), any::<Index>(), any::<u8>())
    .prop_map(|(kind, a, b, c)| StepChoice { kind, a, b, c });
  (
    gen::src_choice(opts),
    prop::collection::vec(step, 1..=8),
    any::<Index>(),
  )
    .prop_map(|(src, steps, probe)| Choice { src, steps, probe })
    .boxed()
}

const SNIPPETS: &[&str] = &[
  "x", " ", "\n", "foo(1)", "a, ", "\n\n", "é", "日本", "😀", "(", ")", "// c\n", "bar", "  ", "1 + 2",
  "\"s\"", ";\n", "{\n}\n",
];
const TEMPLATES: &[&str] = &["$A", "bar", "(\n  $A\n)", "é$A", "", "$A\n$A", "foo($A, $A)"];

fn char_floor(s: &str, mut i: usize) -> usize {
  i = i.min(s.len());
  while !s.is_char_boundary(i) {
    i -= 1;
  }
  i
}

fn small_named_nodes<'a>(root: tree_sitter::Node<'a>) -> Vec<tree_sitter::Node<'a>> {
  let mut v: Vec<_> = tsutil::preorder(root)
    .into_iter()
    .skip(1)
    .filter(|n| {
      n.is_named() && !n.has_error() && n.end_byte() > n.start_byte() && n.end_byte() - n.start_byte() <= 120
    })
    .collect();
  v.sort_by_key(|n| (n.end_byte() - n.start_byte(), n.start_byte()));
  v
}

/// build a pattern from a node: its text, optionally with the first named child as $A
fn pattern_from(text: &str, n: &tree_sitter::Node, hole: bool) -> Option<String> {
  let t = tsutil::text(text, n);
  if t.contains('$') || t.trim().is_empty() {
    return None;
  }
  if hole {
    if let Some(c) = n.named_child(0) {
      if c.end_byte() > c.start_byte() && c.byte_range() != n.byte_range() {
        let s = (c.start_byte() - n.start_byte()) as usize;
        let e = (c.end_byte() - n.start_byte()) as usize;
        return Some(format!("{}$A{}", &t[..s], &t[e..]));
      }
    }
  }
  Some(t.to_string())
}

fn apply_model(text: &mut String, pos: usize, del: usize, ins: &str) {
  text.replace_range(pos..pos + del, ins);
}

/// The model side of a pattern step: edits computed on a *fresh* parse of the model text.
fn model_pattern_edits(
  lang: SupportLang,
  text: &str,
  pattern: &str,
  template: &str,
  all: bool,
) -> Option<Vec<(usize, usize, String)>> {
  let pat = Pattern::try_new(pattern, lang).ok()?;
  let fresh = parse(lang, text);
  let root = fresh.root();
  let edits: Vec<Edit<String>> = if all {
    root.replace_all(&pat, template)
  } else {
    root.replace(&pat, template).into_iter().collect()
  };
  Some(
    edits
      .into_iter()
      .map(|e| {
        (
          e.position,
          e.deleted_length,
          String::from_utf8_lossy(&e.inserted_text).into_owned(),
        )
      })
      .collect(),
  )
}

pub fn interpret(corpus: &Corpus, opts: &SrcOpts, ch: &Choice, st: &mut Stats) -> Option<Case> {
  let built = gen::build_source(corpus, &ch.src, opts);
  let lang = built.lang;
  let mut text = built.text.clone();
  let mut steps = vec![];
  for sc in &ch.steps {
    if text.len() > 20_000 {
      break;
    }
    let step = match sc.kind {
      0 | 1 => {
        // insertion
        let pos = char_floor(&text, sc.a.index(text.len() + 1));
        let ins = SNIPPETS[sc.b.index(SNIPPETS.len())].to_string();
        Step::Edit { pos, del: 0, ins }
      }
      2 | 3 => {
        // deletion
        if text.is_empty() {
          continue;
        }
        let pos = char_floor(&text, sc.a.index(text.len()));
        let end = char_floor(&text, pos + 1 + (sc.c as usize % 24));
        let end = if end <= pos {
          // step over one char
          pos + text[pos..].chars().next().map(|c| c.len_utf8()).unwrap_or(0)
        } else {
          end
        };
        Step::Edit {
          pos,
          del: end - pos,
          ins: String::new(),
        }
      }
      4 | 5 => {
        // replacement of a node's range by a snippet or another node's text
        let sg = parse(lang, &text);
        let nodes = small_named_nodes(sg.root().get_ts_node());
        if nodes.is_empty() {
          continue;
        }
        let n = &nodes[sc.a.index(nodes.len())];
        let ins = if sc.c % 2 == 0 {
          SNIPPETS[sc.b.index(SNIPPETS.len())].to_string()
        } else {
          let m = &nodes[sc.b.index(nodes.len())];
          tsutil::text(&text, m).to_string()
        };
        Step::Edit {
          pos: n.start_byte() as usize,
          del: (n.end_byte() - n.start_byte()) as usize,
          ins,
        }
      }
      6 => {
        // edit at offset 0 or EOF
        let ins = SNIPPETS[sc.b.index(SNIPPETS.len())].to_string();
        let pos = if sc.c % 2 == 0 { 0 } else { text.len() };
        Step::Edit { pos, del: 0, ins }
      }
      _ => {
        // replacement produced by a real match
        let sg = parse(lang, &text);
        let nodes = small_named_nodes(sg.root().get_ts_node());
        if nodes.is_empty() {
          continue;
        }
        let n = &nodes[sc.a.index(nodes.len())];
        let Some(pattern) = pattern_from(&text, n, sc.c % 2 == 0) else {
          continue;
        };
        if Pattern::try_new(&pattern, lang).is_err() {
          st.discard("pattern does not parse");
          continue;
        }
        let template = TEMPLATES[sc.b.index(TEMPLATES.len())].to_string();
        if sc.kind == 9 {
          Step::ReplaceAll { pattern, template }
        } else {
          Step::Replace { pattern, template }
        }
      }
    };
    // evolve the model text so later steps are generated against the right text
    match &step {
      Step::Edit { pos, del, ins } => apply_model(&mut text, *pos, *del, ins),
      Step::Replace { pattern, template } | Step::ReplaceAll { pattern, template } => {
        let all = matches!(step, Step::ReplaceAll { .. });
        let edits = catch(|| model_pattern_edits(lang, &text, pattern, template, all))
          .ok()
          .flatten()?;
        if !edits_applicable(&text, &edits) {
          // the generator itself cannot evolve the model; C06 owns that question
          st.discard("pattern step produced unusable edits");
          continue;
        }
        for (p, d, i) in edits.iter().rev() {
          apply_model(&mut text, *p, *d, i);
        }
      }
    }
    steps.push(step);
  }
  if steps.is_empty() {
    return None;
  }
  // probe pattern: a small node of the final text
  let probe = {
    let sg = parse(lang, &text);
    let nodes = small_named_nodes(sg.root().get_ts_node());
    if nodes.is_empty() {
      None
    } else {
      let n = &nodes[ch.probe.index(nodes.len())];
      pattern_from(&text, n, true).filter(|p| Pattern::try_new(p, lang).is_ok())
    }
  };
  for l in &built.labels {
    st.label(l);
  }
  Some(Case {
    lang: langs::name(lang),
    source: built.text,
    steps,
    probe,
  })
}

fn edits_applicable(text: &str, edits: &[(usize, usize, String)]) -> bool {
  let mut last_end = 0;
  for (p, d, _) in edits {
    if *p < last_end || p + d > text.len() || !text.is_char_boundary(*p) || !text.is_char_boundary(p + d) {
      return false;
    }
    last_end = p + d;
  }
  true
}

/// Reference for "what tree-sitter's incremental parsing gives when driven correctly":
/// an independent chain old tree --Tree::edit(InputEdit from O-pos byte columns)--> reparse.
/// It shares no code with ast-grep's edit path (Content::accept_edit / Root::do_edit).
struct RawChain {
  parser: tree_sitter::Parser,
  tree: tree_sitter::Tree,
  text: String,
}

fn byte_point(bytes: &[u8], off: usize) -> tree_sitter::Point {
  let mut row = 0u32;
  let mut last = 0usize;
  for (i, b) in bytes[..off].iter().enumerate() {
    if *b == b'\n' {
      row += 1;
      last = i + 1;
    }
  }
  tree_sitter::Point::new(row, (off - last) as u32)
}

impl RawChain {
  fn new(lang: SupportLang, text: &str) -> RawChain {
    let mut parser = tree_sitter::Parser::new().expect("parser");
    parser
      .set_language(&ast_grep_core::Language::get_ts_language(&lang))
      .expect("language");
    let tree = parser.parse(text.as_bytes(), None).expect("parse").expect("tree");
    RawChain {
      parser,
      tree,
      text: text.to_string(),
    }
  }
  fn edit(&mut self, pos: usize, del: usize, ins: &str) {
    let start = byte_point(self.text.as_bytes(), pos);
    let old_end = byte_point(self.text.as_bytes(), pos + del);
    self.text.replace_range(pos..pos + del, ins);
    let new_end = byte_point(self.text.as_bytes(), pos + ins.len());
    let ie = tree_sitter::InputEdit::new(
      pos as u32,
      (pos + del) as u32,
      (pos + ins.len()) as u32,
      &start,
      &old_end,
      &new_end,
    );
    self.tree.edit(&ie);
    self.tree = self
      .parser
      .parse(self.text.as_bytes(), Some(&self.tree))
      .expect("parse")
      .expect("tree");
  }
}

pub const SIG_TS_DIVERGENCE: &str = "C10:incremental-reparse-differs-from-fresh-parse(tree-sitter)";

pub fn check(case: &Case, st: &mut Stats) -> CheckResult {
  let lang: SupportLang = case.lang.parse().map_err(|_| Fail::new("bad-case", "lang"))?;
  st.eval();
  st.label(&format!("lang_{}", case.lang));
  let mut model = case.source.clone();
  let mut sg = parse(lang, &case.source);
  let mut raw = RawChain::new(lang, &case.source);
  // set when the implementation's tree equals the reference incremental chain but not the fresh
  // parse: tree-sitter's own reuse diverged (known finding); searches are not compared then.
  let mut ts_diverged: Option<Fail> = None;
  let mut diverged_now = false;
  let mut uncompared_search = false;
  let lines0 = model.matches('\n').count();
  let mut nontrivial = false;
  for (i, step) in case.steps.iter().enumerate() {
    let before = model.clone();
    // ---- model side (fresh parses only) and implementation side
    match step {
      Step::Edit { pos, del, ins } => {
        if pos + del > model.len() || !model.is_char_boundary(*pos) || !model.is_char_boundary(pos + del) {
          if uncompared_search {
            // an earlier pattern step ran on a text with syntax errors: there the edited document
            // may propose other edits than the fresh parse the generator used (not compared, the
            // property speaks about error-free texts), so the generated offsets no longer fit
            st.discard("history left the generated text after a search on a text with errors");
            return Ok(());
          }
          fail!("bad-case", "step {i}: edit out of range");
        }
        apply_model(&mut model, *pos, *del, ins);
        raw.edit(*pos, *del, ins);
        let r = sg.edit(Edit::<String> {
          position: *pos,
          deleted_length: *del,
          inserted_text: ins.as_bytes().to_vec(),
        });
        if r.is_err() {
          fail!("C10:edit-error", "step {i}: AstGrep::edit returned an error");
        }
        st.label("step_edit");
      }
      Step::Replace { pattern, template } | Step::ReplaceAll { pattern, template } => {
        let all = matches!(step, Step::ReplaceAll { .. });
        let Some(edits) = model_pattern_edits(lang, &model, pattern, template, all) else {
          fail!("bad-case", "step {i}: pattern does not parse");
        };
        // searches are compared only when the text being searched parses without errors
        let pre_clean = !tsutil::subtree_has_error(&parse(lang, &model).root().get_ts_node());
        let pat = Pattern::new(pattern, lang);
        let impl_edits: Vec<Edit<String>> = if all {
          sg.root().replace_all(&pat, template.as_str())
        } else {
          sg.root().replace(&pat, template.as_str()).into_iter().collect()
        };
        let got: Vec<(usize, usize, String)> = impl_edits
          .iter()
          .map(|e| {
            (
              e.position,
              e.deleted_length,
              String::from_utf8_lossy(&e.inserted_text).into_owned(),
            )
          })
          .collect();
        if pre_clean && !diverged_now {
          st.label("search_compared");
          if got != edits {
            fail!(
              format!("C10:search-after-edit:{}", case.lang),
              "step {i}: replace{}({pattern:?}) on the edited document proposes (only there) {:?}, on a fresh parse of the same text (only there) {:?}",
              if all { "_all" } else { "" },
              got.iter().filter(|e| !edits.contains(e)).take(4).collect::<Vec<_>>(),
              edits.iter().filter(|e| !got.contains(e)).take(4).collect::<Vec<_>>()
            );
          }
        } else {
          st.label("search_on_error_text_not_compared");
          if got != edits {
            uncompared_search = true;
          }
        }
        if !edits_applicable(&model, &got) {
          // overlapping / out-of-range edits are C06's subject; this history cannot continue
          st.discard("pattern step produced unusable edits");
          return Ok(());
        }
        for (p, d, ins) in got.iter().rev() {
          apply_model(&mut model, *p, *d, ins);
          raw.edit(*p, *d, ins);
        }
        if all {
          for e in impl_edits.into_iter().rev() {
            if sg.edit(e).is_err() {
              fail!("C10:edit-error", "step {i}: AstGrep::edit returned an error");
            }
          }
          st.label("step_replace_all");
        } else {
          // the documented one-call form
          match sg.replace(&pat, template.as_str()) {
            Err(_) => fail!("C10:edit-error", "step {i}: AstGrep::replace returned an error"),
            Ok(found) => {
              if found != !got.is_empty() {
                fail!("C10:replace-found", "step {i}: AstGrep::replace returned {found} but Node::replace proposed {} edit(s)", got.len());
              }
            }
          }
          st.label("step_replace");
        }
      }
    }
    // ---- text
    if sg.source() != model {
      fail!(
        "C10:text-mismatch",
        "step {i} ({step:?}): document text differs from the spliced text\n impl: {:?}\n model: {:?}",
        trunc(sg.source()),
        trunc(&model)
      );
    }
    // ---- tree
    let fresh = parse(lang, &model);
    let fresh_root = fresh.root().get_ts_node();
    if tsutil::subtree_has_error(&fresh_root) {
      st.label("skipped_error_text");
      continue;
    }
    st.label("tree_compared");
    let a = tsutil::dump(sg.root().get_ts_node());
    let b = tsutil::dump(fresh_root);
    diverged_now = false;
    if a != b {
      let r = tsutil::dump(raw.tree.root_node());
      let idx = a.iter().zip(b.iter()).position(|(x, y)| x != y).unwrap_or(a.len().min(b.len()));
      let ts_lang = ast_grep_core::Language::get_ts_language(&lang);
      let kn = |r: Option<&tsutil::DumpRow>| -> String {
        r.map(|r| ts_lang.node_kind_for_id(r.kind).map(|k| k.to_string()).unwrap_or_else(|| format!("#{}", r.kind)))
          .unwrap_or_else(|| "end".into())
      };
      let msg = format!(
        "step {i} ({step:?}): tree after edit differs from fresh parse of the same text at pre-order index {idx}: edited={:?} ({}) fresh={:?} ({}) (sizes {} vs {})\n text: {:?}",
        a.get(idx),
        kn(a.get(idx)),
        b.get(idx),
        kn(b.get(idx)),
        a.len(),
        b.len(),
        trunc(&model)
      );
      if a == r {
        // ast-grep's tree is exactly what a correctly driven tree-sitter incremental parse
        // yields: the divergence from the fresh parse is tree-sitter's (known finding class)
        st.label(&format!("ts_divergence_{}", case.lang));
        diverged_now = true;
        if ts_diverged.is_none() {
          ts_diverged = Some(Fail::new(SIG_TS_DIVERGENCE, msg));
        }
        continue;
      }
      fail!("C10:tree-mismatch", "{} [also differs from the reference incremental chain]", msg);
    }
    let lines_changed = before.matches('\n').count() != model.matches('\n').count();
    let touches_mb = match step {
      Step::Edit { pos, del, ins } => !ins.is_ascii() || !before[*pos..pos + del].is_ascii(),
      _ => !model.is_ascii(),
    };
    if (lines_changed || touches_mb) && lines0 >= 10 {
      nontrivial = true;
      st.label(if lines_changed { "step_changes_lines" } else { "step_touches_multibyte" });
    }
  }
  // ---- follow-up search
  if let Some(p) = &case.probe {
    if let Ok(pat) = Pattern::try_new(p, lang) {
      let fresh = parse(lang, &model);
      let a: Vec<_> = sg.root().find_all(&pat).map(|m| m.range()).collect();
      let b: Vec<_> = fresh.root().find_all(&pat).map(|m| m.range()).collect();
      st.label("probe_searched");
      if !tsutil::subtree_has_error(&fresh.root().get_ts_node()) && !diverged_now && a != b {
        fail!(
          format!("C10:search-after-edit:{}", case.lang),
          "find_all({p:?}) on the edited document gives {:?}, on a fresh parse {:?}",
          a.iter().take(5).collect::<Vec<_>>(),
          b.iter().take(5).collect::<Vec<_>>()
        );
      }
    }
  }
  if let Some(f) = ts_diverged {
    return Err(f);
  }
  if nontrivial {
    st.label("nontrivial");
    st.nontrivial(&(&case.lang, &case.source, format!("{:?}", case.steps)));
    if st.wants_sample() {
      st.sample(json!({
        "lang": case.lang,
        "source_head": trunc(&case.source),
        "steps": case.steps,
        "probe": case.probe,
      }));
    }
  }
  Ok(())
}

fn trunc(s: &str) -> String {
  let mut t: String = s.chars().take(240).collect();
  if t.len() < s.len() {
    t.push('…');
  }
  t
}

#[allow(dead_code)]
fn _unused(_: StrDoc<SupportLang>) {}

fn stage_opts() -> SrcOpts {
  let opts = SrcOpts::all_langs().with_errors();
  opts
}

/// the same stage, driven by bytes (coverage-guided tier)
pub fn erased() -> crate::fuzz::Erased {
  let corpus: &'static Corpus = Box::leak(Box::new(Corpus::load()));
  let opts: &'static SrcOpts = Box::leak(Box::new(stage_opts()));
  crate::fuzz::Erased::generic("C10", "histories", move || strategy(opts), move |c, st| interpret(corpus, opts, c, st), check)
}

pub fn run(cfg: &RunCfg) -> i32 {
  let mut report = Report::new(
    cfg,
    "case = (language, source from corpus/synth + tree-aware mutations, history of 1-8 edits: insert/delete/replace at char boundaries, node-range replacements, AstGrep::replace / Node::replace_all from real matches). Non-trivial = distinct (source, history) where some step changes the line count or touches a multi-byte character in a file of >= 10 lines and the resulting text parses error-free (tree compared with a fresh parse).",
  );
  report.assume("tree equality is asserted only at steps whose text parses without ERROR/MISSING nodes (the property's quantifier); text equality always");
  report.assume("tree-sitter's own parser is the reference for the fresh parse");
  let known = Known::load(&cfg.prop);
  let corpus = Corpus::load();
  if let Some(path) = &cfg.replay {
    return crate::replay_main::<Case>(cfg, path, check);
  }
  crate::replay_known::<Case>(&mut report, &known, check);
  let opts = stage_opts();
  let total = cfg.budget(8_000, 300_000);
  let o = drive(
    cfg,
    "histories",
    total,
    &known,
    || strategy(&opts),
    |c, st| interpret(&corpus, &opts, c, st),
    check,
  );
  report.absorb("histories", o);
  report.floor("nontrivial", 0.20, "evaluations");
  crate::fuzz::stage(cfg, &mut report, &known, 15000);
  report.finish()
}
