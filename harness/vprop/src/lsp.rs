//! Minimal LSP client over the stdio of `sgv lsp` (framed JSON-RPC), answering the
//! server->client requests ast-grep's server makes.
use serde_json::{json, Value};
use std::io::{BufRead, BufReader, Read, Write};
use std::path::{Path, PathBuf};
use std::process::{Child, ChildStdin, Command, Stdio};
use std::sync::mpsc::{channel, Receiver, RecvTimeoutError};
use std::time::{Duration, Instant};

pub struct Publish {
  pub uri: String,
  pub version: Option<i64>,
  pub diagnostics: Vec<Value>,
}

pub struct Lsp {
  child: Child,
  stdin: ChildStdin,
  rx: Receiver<Value>,
  next_id: i64,
  pub root: PathBuf,
  pub log: Vec<String>,
  pub publishes: Vec<Publish>,
  pub applied_edits: Vec<Value>,
  pub responses: Vec<(i64, Value)>,
}

pub fn uri_of(p: &Path) -> String {
  format!("file://{}", p.display())
}

impl Lsp {
  pub fn start(project: &Path) -> Result<Lsp, String> {
    let mut child = Command::new(crate::cli::sgv_path())
      .arg("lsp")
      .current_dir(project)
      .stdin(Stdio::piped())
      .stdout(Stdio::piped())
      .stderr(Stdio::null())
      .spawn()
      .map_err(|e| format!("spawn lsp: {e}"))?;
    let stdin = child.stdin.take().unwrap();
    let stdout = child.stdout.take().unwrap();
    let (tx, rx) = channel();
    std::thread::spawn(move || {
      let mut r = BufReader::new(stdout);
      loop {
        let mut len: Option<usize> = None;
        loop {
          let mut line = String::new();
          match r.read_line(&mut line) {
            Ok(0) | Err(_) => return,
            Ok(_) => {}
          }
          let l = line.trim_end();
          if l.is_empty() {
            break;
          }
          if let Some(v) = l.strip_prefix("Content-Length:") {
            len = v.trim().parse().ok();
          }
        }
        let Some(n) = len else { return };
        let mut body = vec![0u8; n];
        if r.read_exact(&mut body).is_err() {
          return;
        }
        if let Ok(v) = serde_json::from_slice::<Value>(&body) {
          if tx.send(v).is_err() {
            return;
          }
        }
      }
    });
    let mut lsp = Lsp {
      child,
      stdin,
      rx,
      next_id: 1,
      root: project.to_path_buf(),
      log: vec![],
      publishes: vec![],
      applied_edits: vec![],
      responses: vec![],
    };
    let init = json!({
      "processId": null,
      "rootUri": uri_of(project),
      "workspaceFolders": [{"uri": uri_of(project), "name": "proj"}],
      "capabilities": {
        "workspace": {"workspaceFolders": true, "applyEdit": true},
        "textDocument": {"codeAction": {"codeActionLiteralSupport": {"codeActionKind": {"valueSet": ["quickfix", "source.fixAll"]}}},
                          "publishDiagnostics": {"versionSupport": true}}
      }
    });
    lsp.request("initialize", init, Duration::from_secs(20)).ok_or("no initialize response")?;
    lsp.notify("initialized", json!({}));
    lsp.pump_until(|l| l.log.iter().any(|m| m.contains("server initialized")), Duration::from_secs(10));
    Ok(lsp)
  }

  fn send(&mut self, v: &Value) {
    let body = serde_json::to_vec(v).unwrap();
    let _ = write!(self.stdin, "Content-Length: {}\r\n\r\n", body.len());
    let _ = self.stdin.write_all(&body);
    let _ = self.stdin.flush();
  }

  pub fn notify(&mut self, method: &str, params: Value) {
    self.send(&json!({"jsonrpc": "2.0", "method": method, "params": params}));
  }

  fn handle(&mut self, msg: Value) {
    let method = msg.get("method").and_then(|m| m.as_str()).map(String::from);
    let id = msg.get("id").cloned();
    match (method, id) {
      (Some(m), Some(id)) => {
        // server -> client request
        let result = match m.as_str() {
          "workspace/workspaceFolders" => json!([{"uri": uri_of(&self.root), "name": "proj"}]),
          "workspace/applyEdit" => {
            self.applied_edits.push(msg["params"].clone());
            json!({"applied": true})
          }
          _ => Value::Null,
        };
        self.send(&json!({"jsonrpc": "2.0", "id": id, "result": result}));
      }
      (Some(m), None) => match m.as_str() {
        "window/logMessage" => self.log.push(msg["params"]["message"].as_str().unwrap_or("").to_string()),
        "textDocument/publishDiagnostics" => self.publishes.push(Publish {
          uri: msg["params"]["uri"].as_str().unwrap_or("").to_string(),
          version: msg["params"]["version"].as_i64(),
          diagnostics: msg["params"]["diagnostics"].as_array().cloned().unwrap_or_default(),
        }),
        _ => {}
      },
      (None, Some(id)) => {
        if let Some(i) = id.as_i64() {
          self.responses.push((i, msg.get("result").cloned().unwrap_or(Value::Null)));
        }
      }
      _ => {}
    }
  }

  /// process incoming messages until `done` holds or the timeout expires
  pub fn pump_until(&mut self, done: impl Fn(&Lsp) -> bool, timeout: Duration) -> bool {
    let start = Instant::now();
    loop {
      if done(self) {
        return true;
      }
      let left = timeout.checked_sub(start.elapsed()).unwrap_or(Duration::ZERO);
      if left.is_zero() {
        return false;
      }
      match self.rx.recv_timeout(left.min(Duration::from_millis(50))) {
        Ok(m) => self.handle(m),
        Err(RecvTimeoutError::Timeout) => {}
        Err(RecvTimeoutError::Disconnected) => return done(self),
      }
    }
  }

  /// drain whatever arrives within `quiet`
  pub fn settle(&mut self, quiet: Duration) {
    let start = Instant::now();
    while start.elapsed() < quiet {
      if let Ok(m) = self.rx.recv_timeout(Duration::from_millis(5)) {
        self.handle(m);
      }
    }
  }

  pub fn request(&mut self, method: &str, params: Value, timeout: Duration) -> Option<Value> {
    let id = self.next_id;
    self.next_id += 1;
    self.send(&json!({"jsonrpc": "2.0", "id": id, "method": method, "params": params}));
    if !self.pump_until(|l| l.responses.iter().any(|(i, _)| *i == id), timeout) {
      return None;
    }
    let pos = self.responses.iter().position(|(i, _)| *i == id)?;
    Some(self.responses.remove(pos).1)
  }

  pub fn count_log(&self, needle: &str) -> usize {
    self.log.iter().filter(|m| m.contains(needle)).count()
  }

  pub fn last_publish(&self, uri: &str) -> Option<&Publish> {
    self.publishes.iter().rev().find(|p| p.uri == uri)
  }
}

impl Drop for Lsp {
  fn drop(&mut self) {
    let _ = self.child.kill();
    let _ = self.child.wait();
  }
}
