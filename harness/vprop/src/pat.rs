//! G-pattern: patterns cut from code. A pattern is the text of a node with some named
//! descendants replaced by `$V<i>` and optionally a trailing run of siblings by `$$$W`.
use crate::tsutil;
use ast_grep_core::matcher::PatternNode;
use ast_grep_core::meta_var::MetaVariable;
use ast_grep_core::{MatchStrictness, Pattern};
use ast_grep_language::SupportLang;
use proptest::sample::Index;
use serde::{Deserialize, Serialize};
use tree_sitter::Node as TsNode;

pub const STRICTNESS: &[&str] = &["cst", "smart", "ast", "relaxed", "signature"];

pub fn strictness(name: &str) -> MatchStrictness {
  name.parse().expect("strictness")
}

#[derive(Clone, Debug, Serialize, Deserialize, PartialEq, Eq, Hash)]
pub struct Hole {
  pub name: String,
  /// absolute byte span in the source
  pub start: usize,
  pub end: usize,
}

#[derive(Clone, Debug, Serialize, Deserialize, PartialEq, Eq, Hash)]
pub struct Run {
  pub name: String,
  /// absolute byte span of the replaced run (first named sibling start .. last named sibling end)
  pub start: usize,
  pub end: usize,
  /// spans of the named siblings inside the run
  pub named: Vec<(usize, usize)>,
}

#[derive(Clone, Debug, Serialize, Deserialize, PartialEq, Eq, Hash)]
pub struct PatSpec {
  /// node the pattern was cut from (absolute span) and its kind
  pub node_start: usize,
  pub node_end: usize,
  pub kind: String,
  pub text: String,
  pub holes: Vec<Hole>,
  pub run: Option<Run>,
  /// Some(kind) when the pattern has to be built as a contextual pattern
  pub selector: Option<String>,
}

/// error-free named nodes with non-empty `$`-free text of at most `max` bytes, sorted by size
pub fn cut_candidates<'a>(src: &str, root: TsNode<'a>, max: usize) -> Vec<TsNode<'a>> {
  let mut v: Vec<TsNode> = tsutil::preorder(root)
    .into_iter()
    .filter(|n| {
      n.is_named()
        && !tsutil::subtree_has_error(n)
        && n.end_byte() > n.start_byte()
        && ((n.end_byte() - n.start_byte()) as usize) <= max
        && n.parent().is_some()
        && {
          let t = tsutil::text(src, n);
          !t.contains('$') && !t.trim().is_empty()
        }
    })
    .collect();
  v.sort_by_key(|n| (n.end_byte() - n.start_byte(), n.start_byte()));
  v
}

fn proper_named_descendants<'a>(n: &TsNode<'a>) -> Vec<TsNode<'a>> {
  let mut v: Vec<TsNode> = tsutil::preorder(n.clone())
    .into_iter()
    .skip(1)
    .filter(|d| d.is_named() && d.end_byte() > d.start_byte() && d.byte_range() != n.byte_range())
    .collect();
  v.sort_by_key(|d| (d.end_byte() - d.start_byte(), d.start_byte()));
  v
}

/// Cut a pattern from node `n`: `hole_picks` choose descendants to abstract, `run_pick`
/// optionally chooses (list-parent, first sibling of the trailing run).
pub fn cut_pattern(src: &str, n: &TsNode, hole_picks: &[Index], run_pick: Option<(Index, Index)>) -> PatSpec {
  cut_pattern_pref(src, n, hole_picks, run_pick, 0)
}

/// `prefer` >= 1: holes are chosen among descendants spanning several lines when there are any;
/// >= 2: among those, the ones whose text starts with a space
pub fn cut_pattern_pref(
  src: &str,
  n: &TsNode,
  hole_picks: &[Index],
  run_pick: Option<(Index, Index)>,
  prefer: u8,
) -> PatSpec {
  let mut descendants = proper_named_descendants(n);
  let all_descendants = descendants.clone();
  if prefer >= 1 {
    let ml: Vec<TsNode> = descendants.iter().filter(|d| tsutil::text(src, d).contains('\n')).cloned().collect();
    if !ml.is_empty() {
      descendants = ml;
    }
  }
  if prefer >= 2 {
    // multi-line captures whose first line starts with white space (content nodes)
    let ws: Vec<TsNode> = descendants.iter().filter(|d| tsutil::text(src, d).starts_with(' ')).cloned().collect();
    if !ws.is_empty() {
      descendants = ws;
    }
  }
  let mut run: Option<Run> = None;
  if let Some((pi, ki)) = run_pick {
    // parents (n itself or descendants) with at least one named child
    let mut parents: Vec<TsNode> = std::iter::once(n.clone())
      .chain(all_descendants.iter().cloned())
      .filter(|p| p.named_child_count() >= 1 && p.child_count() >= 2)
      .collect();
    parents.sort_by_key(|p| (p.end_byte() - p.start_byte(), p.start_byte()));
    fn named_of<'a>(p: &TsNode<'a>) -> Vec<TsNode<'a>> {
      tsutil::children(p).into_iter().filter(|c| c.is_named() && c.end_byte() > c.start_byte()).collect()
    }
    // a run whose first node starts with white space and spans lines (content of comments,
    // strings, templates): its first line carries leading spaces that are content
    let spacey = |c: &TsNode| {
      let t = tsutil::text(src, c);
      t.starts_with(' ') && t.contains('\n')
    };
    let mut forced_k = None;
    if prefer >= 2 {
      let sp: Vec<TsNode> = parents.iter().filter(|p| named_of(p).iter().any(|c| spacey(c))).cloned().collect();
      if !sp.is_empty() {
        parents = sp;
        forced_k = Some(());
      }
    }
    if !parents.is_empty() {
      let p = &parents[pi.index(parents.len())];
      let named: Vec<TsNode> = named_of(p);
      if !named.is_empty() {
        let k = match forced_k {
          Some(()) => named.iter().position(|c| spacey(c)).unwrap_or(0),
          None => ki.index(named.len()),
        };
        let first = &named[k];
        let last = named.last().unwrap();
        // the run must be a proper part of its parent: a run covering the parent's whole span
        // would re-parse as a hole standing for the parent itself (not a run of p's children)
        if !(first.start_byte() == p.start_byte() && last.end_byte() == p.end_byte()) {
          // with `prefer`, a separator that trails the last named sibling (`foo(a, b,)`) belongs to
          // the abstracted text: the run then ends in an anonymous token
          let mut end = last.end_byte() as usize;
          if prefer >= 1 {
            let kids = tsutil::children(p);
            if let Some(i) = kids.iter().position(|c| c.id() == last.id()) {
              if let (Some(sep), Some(_closing)) = (kids.get(i + 1), kids.get(i + 2)) {
                if !sep.is_named() && matches!(tsutil::text(src, sep), "," | ";") {
                  end = sep.end_byte() as usize;
                }
              }
            }
          }
          run = Some(Run {
            name: "W".into(),
            start: first.start_byte() as usize,
            end,
            named: named[k..]
              .iter()
              .map(|c| (c.start_byte() as usize, c.end_byte() as usize))
              .collect(),
          });
        }
      }
    }
  }
  let mut holes: Vec<Hole> = vec![];
  if !descendants.is_empty() {
    for (i, pick) in hole_picks.iter().enumerate() {
      let d = &descendants[pick.index(descendants.len())];
      let (s, e) = (d.start_byte() as usize, d.end_byte() as usize);
      let overlaps_hole = holes.iter().any(|h| s < h.end && h.start < e);
      let overlaps_run = run.as_ref().map(|r| s < r.end && r.start < e).unwrap_or(false);
      if overlaps_hole || overlaps_run {
        continue;
      }
      holes.push(Hole {
        name: format!("V{i}"),
        start: s,
        end: e,
      });
    }
  }
  holes.sort_by_key(|h| h.start);
  // render
  let base = n.start_byte() as usize;
  let mut repl: Vec<(usize, usize, String)> = holes
    .iter()
    .map(|h| (h.start, h.end, format!("${}", h.name)))
    .collect();
  if let Some(r) = &run {
    repl.push((r.start, r.end, format!("$$${}", r.name)));
  }
  repl.sort_by_key(|r| r.0);
  let mut text = String::new();
  let mut at = base;
  for (s, e, t) in &repl {
    text.push_str(&src[at..*s]);
    text.push_str(t);
    at = *e;
  }
  text.push_str(&src[at..n.end_byte() as usize]);
  PatSpec {
    node_start: base,
    node_end: n.end_byte() as usize,
    kind: n.kind().to_string(),
    text,
    holes,
    run,
    selector: None,
  }
}

pub fn build(spec: &PatSpec, lang: SupportLang) -> Option<Pattern<SupportLang>> {
  match &spec.selector {
    None => Pattern::try_new(&spec.text, lang).ok(),
    Some(sel) => Pattern::contextual(&spec.text, sel, lang).ok(),
  }
}


/// The same precondition judged without ast-grep's pattern conversion: the pattern text (sigils
/// rewritten to the language's expando character, which is a property of the language, not of
/// the matcher) is parsed by tree-sitter alone, and the node a plain pattern stands for must have
/// the shape of the code node `n`, with a leaf spelling the variable where each hole / run was. Used when
/// the converted pattern tree differs from the code (e.g. a conversion that drops nodes): the
/// property's precondition speaks about how the pattern *parses*.
pub fn raw_shape_ok(lang: SupportLang, src: &str, spec: &PatSpec, n: &TsNode) -> bool {
  use ast_grep_core::Language;
  // the code is `$`-free, so every `$` of the pattern text belongs to one of our own variables:
  // the expando spelling is obtained without the implementation's pre-processing
  let ex = lang.expando_char();
  let processed = spec.text.replace('$', &ex.to_string());
  let sg = tsutil::parse(lang, &processed);
  let root = sg.root().get_ts_node();
  if tsutil::subtree_has_error(&root) {
    return false;
  }
  fn eq(src: &str, psrc: &str, spec: &PatSpec, ex: char, n: &TsNode, q: &TsNode) -> bool {
    let (s, e) = (n.start_byte() as usize, n.end_byte() as usize);
    if let Some(h) = spec.holes.iter().find(|h| h.start == s && h.end == e) {
      return tsutil::text(psrc, q) == format!("{ex}{}", h.name);
    }
    if n.kind_id() != q.kind_id() {
      return false;
    }
    let nk = tsutil::children(n);
    let qk = tsutil::children(q);
    if nk.is_empty() || qk.is_empty() {
      return nk.is_empty() && qk.is_empty() && tsutil::text(src, n) == tsutil::text(psrc, q);
    }
    let (mut i, mut j) = (0, 0);
    while i < nk.len() {
      let k = &nk[i];
      if let Some(r) = &spec.run {
        if k.start_byte() as usize == r.start && k.is_named() && k.end_byte() > k.start_byte() && (k.end_byte() as usize) <= r.end {
          let Some(qc) = qk.get(j) else { return false };
          if tsutil::text(psrc, qc) != format!("{ex}{ex}{ex}{}", r.name) {
            return false;
          }
          j += 1;
          while i < nk.len() && (nk[i].end_byte() as usize) <= r.end {
            i += 1;
          }
          continue;
        }
      }
      let Some(qc) = qk.get(j) else { return false };
      if !eq(src, psrc, spec, ex, k, qc) {
        return false;
      }
      i += 1;
      j += 1;
    }
    j == qk.len()
  }
  // a plain pattern stands for the innermost node of the leading single-child chain (the
  // documented convention: the first node with more than one child, or the leaf)
  let mut q = root;
  while q.child_count() == 1 {
    q = q.child(0).unwrap();
  }
  eq(src, &processed, spec, ex, n, &q)
}

/// The shape precondition of C02: the pattern tree equals the subtree of the node it was cut
/// from, except that a meta-variable node sits where each abstracted node / run was.
pub fn shape_matches(src: &str, spec: &PatSpec, pat: &PatternNode, n: &TsNode) -> Result<(), String> {
  let (s, e) = (n.start_byte() as usize, n.end_byte() as usize);
  if let Some(h) = spec.holes.iter().find(|h| h.start == s && h.end == e) {
    return match pat {
      PatternNode::MetaVar {
        meta_var: MetaVariable::Capture(name, true),
      } if *name == h.name => Ok(()),
      other => Err(format!("hole {} is {:?} in the pattern tree", h.name, other)),
    };
  }
  match pat {
    PatternNode::MetaVar { meta_var } => Err(format!("unexpected meta variable {meta_var:?} at {s}..{e}")),
    PatternNode::Terminal { text, kind_id, .. } => {
      if n.child_count() != 0 {
        return Err(format!("pattern terminal `{text}` where the source has an internal node at {s}..{e}"));
      }
      if *kind_id != n.kind_id() {
        return Err(format!("terminal kind {} vs {} at {s}..{e}", kind_id, n.kind_id()));
      }
      if text != tsutil::text(src, n) {
        return Err(format!("terminal text `{text}` vs `{}`", tsutil::text(src, n)));
      }
      Ok(())
    }
    PatternNode::Internal { kind_id, children } => {
      if *kind_id != n.kind_id() {
        return Err(format!("internal kind {} vs {} at {s}..{e}", kind_id, n.kind_id()));
      }
      let kids = tsutil::children(n);
      if kids.is_empty() {
        return Err(format!("pattern internal node where the source has a leaf at {s}..{e}"));
      }
      let mut pi = 0;
      let mut ki = 0;
      while ki < kids.len() {
        let k = &kids[ki];
        if let Some(r) = &spec.run {
          if k.start_byte() as usize == r.start && k.is_named() && (k.end_byte() as usize) <= r.end {
            // the run starts here: expect the ellipsis, then skip the run's children
            match children.get(pi) {
              Some(PatternNode::MetaVar {
                meta_var: MetaVariable::MultiCapture(name),
              }) if *name == r.name => {}
              other => return Err(format!("run is {:?} in the pattern tree", other)),
            }
            pi += 1;
            while ki < kids.len() && (kids[ki].end_byte() as usize) <= r.end {
              ki += 1;
            }
            continue;
          }
        }
        let Some(p) = children.get(pi) else {
          return Err(format!("pattern has fewer children at {s}..{e}"));
        };
        shape_matches(src, spec, p, k)?;
        pi += 1;
        ki += 1;
      }
      if pi != children.len() {
        return Err(format!("pattern has more children at {s}..{e}"));
      }
      Ok(())
    }
  }
}
