//! C01 — search completeness: kind dispatch, combined scan and overlap-free traversal never
//! drop or invent a match (library part; the CLI part lives in c01cli.rs).
use crate::c03;
use crate::c05;
use crate::engine::*;
use crate::fail;
use crate::gen::{self, Corpus, SrcChoice, SrcOpts};
use crate::langs;
use crate::pat;
use crate::rules::*;
use crate::tsutil::{self, parse, Sg, SgNode};
use ast_grep_config::{from_yaml_string, CombinedScan, GlobalRules, RuleConfig};
use ast_grep_core::matcher::MatcherExt;
use ast_grep_core::traversal::Visitor;
use ast_grep_core::{Matcher, Pattern};
use ast_grep_language::SupportLang;
use proptest::prelude::*;
use proptest::sample::Index;
use serde::{Deserialize, Serialize};
use serde_json::json;
use std::collections::{BTreeMap, HashSet};
use tree_sitter::Node as TsNode;

#[derive(Clone, Debug, Serialize, Deserialize)]
pub enum MatcherSpec {
  Pattern {
    text: String,
    selector: Option<String>,
    strictness: String,
  },
  Rule {
    rule: GRule,
    utils: Vec<(String, GRule)>,
  },
}

#[derive(Clone, Debug, Serialize, Deserialize)]
pub struct Case {
  pub lang: String,
  pub source: String,
  pub matchers: Vec<MatcherSpec>,
  /// pre-order index of an inner start node for the traversal clause
  pub inner_start: usize,
}

#[derive(Clone, Debug)]
pub enum MC {
  Pattern { node: Index, holes: Vec<(Index, u8)>, strict: u8, bare: u8 },
  Rule { utils: Vec<RC>, first: RC, rest: Vec<RC> },
}

#[derive(Clone, Debug)]
pub struct Choice {
  src: SrcChoice,
  matchers: Vec<MC>,
  inner: Index,
}

pub fn strategy(opts: &SrcOpts) -> BoxedStrategy<Choice> {
  let pat_mc = (
    any::<Index>(),
    prop::collection::vec((any::<Index>(), 0u8..10), 0..=3),
    0u8..5,
    0u8..20,
  )
    .prop_map(|(node, holes, strict, bare)| MC::Pattern { node, holes, strict, bare });
  // the first key of a rule is kind-determining so that the rule is accepted by RuleConfig
  let first = prop_oneof![
    (any::<Index>(), prop::collection::vec(any::<Index>(), 0..=2), 0u8..12, any::<u8>()).prop_map(|(node, holes, strict, var)| RC::Pattern {
      node,
      holes,
      run: None,
      strict,
      var
    }),
    any::<Index>().prop_map(RC::Kind),
    prop::collection::vec(any::<Index>().prop_map(RC::Kind), 1..4).prop_map(RC::Any),
  ];
  let rule_mc = (
    prop::collection::vec(rc_tree(2), 0..=2),
    first,
    prop::collection::vec(rc_tree(3), 0..=2),
  )
    .prop_map(|(utils, first, rest)| MC::Rule { utils, first, rest });
  (
    gen::src_choice(opts),
    prop::collection::vec(prop_oneof![1 => pat_mc, 1 => rule_mc], 1..=5),
    any::<Index>(),
  )
    .prop_map(|(src, matchers, inner)| Choice { src, matchers, inner })
    .boxed()
}

pub fn interpret(corpus: &Corpus, opts: &SrcOpts, ch: &Choice, st: &mut Stats) -> Option<Case> {
  let built = gen::build_source(corpus, &ch.src, opts);
  let lang = built.lang;
  let sg = parse(lang, &built.text);
  let root = sg.root().get_ts_node();
  let all = tsutil::preorder(root.clone());
  let mut ctx = RuleCtx::new(lang, &built.text, &sg);
  let mut matchers = vec![];
  for mc in &ch.matchers {
    match mc {
      MC::Pattern { node, holes, strict, bare } => {
        let strictness = pat::STRICTNESS[*strict as usize % 5].to_string();
        if *bare == 0 {
          matchers.push(MatcherSpec::Pattern {
            text: "$X".into(),
            selector: None,
            strictness,
          });
          continue;
        }
        let mut cands: Vec<TsNode> = all
          .iter()
          .filter(|n| {
            n.is_named()
              && n.parent().is_some()
              && n.end_byte() > n.start_byte()
              && n.end_byte() - n.start_byte() <= 200
              && !tsutil::text(&built.text, n).contains('$')
              && !tsutil::text(&built.text, n).trim().is_empty()
          })
          .cloned()
          .collect();
        cands.sort_by_key(|n| (n.end_byte() - n.start_byte(), n.start_byte()));
        if cands.is_empty() {
          continue;
        }
        let n = &cands[node.index(cands.len())];
        let text = c03::cut_free_pub(&built.text, n, holes);
        let (ok, selector) = if catch(|| Pattern::try_new(&text, lang).is_ok()).unwrap_or(false) {
          (true, None)
        } else {
          let sel = n.kind().to_string();
          (
            catch(|| Pattern::contextual(&text, &sel, lang).is_ok()).unwrap_or(false),
            Some(sel),
          )
        };
        if ok {
          matchers.push(MatcherSpec::Pattern {
            text,
            selector,
            strictness,
          });
        }
      }
      MC::Rule { utils, first, rest } => {
        ctx.util_names.clear();
        let mut us = vec![];
        let base = matchers.len();
        for (i, u) in utils.iter().enumerate() {
          let name = format!("m{base}u{i}");
          us.push((name.clone(), ctx.interpret(u, 0)));
          ctx.util_names.push(name);
        }
        let mut keys = vec![ctx.interpret(first, 0)];
        for r in rest {
          let g = ctx.interpret(r, 0);
          if !keys.iter().any(|k| k.key() == g.key()) && !matches!(g, GRule::Obj(_)) {
            keys.push(g);
          }
        }
        let rule = if keys.len() == 1 { keys.pop().unwrap() } else { GRule::Obj(keys) };
        matchers.push(MatcherSpec::Rule { rule, utils: us });
      }
    }
  }
  if ch.inner.index(3) == 0 && !ctx.kinds.is_empty() {
    // one more matcher: a utility that refers to itself through `has` (recursion over nesting);
    // its kind caches are computed while the utility is not registered yet
    let n = ctx.kinds.len();
    let kind = ctx.kinds[ch.inner.index(n)].clone();
    let base = ctx.kinds[(ch.inner.index(n * 7 + 1)) % n].clone();
    let name = format!("m{}urec", matchers.len());
    let rel = Box::new(Rel {
      rule: GRule::Any(vec![GRule::Kind(base), GRule::Matches(name.clone())]),
      stop: if ch.inner.index(2) == 0 { Stop::Neighbor } else { Stop::End },
      field: None,
    });
    matchers.push(MatcherSpec::Rule {
      rule: GRule::Matches(name.clone()),
      utils: vec![(name, GRule::Obj(vec![GRule::Kind(kind), GRule::Has(rel)]))],
    });
    st.label("recursive_utility_matcher");
  }
  if matchers.is_empty() {
    st.discard("no usable matcher");
    return None;
  }
  for l in &built.labels {
    st.label(l);
  }
  Some(Case {
    lang: langs::name(lang),
    source: built.text,
    matchers,
    inner_start: ch.inner.index(all.len()),
  })
}

type R = (usize, usize);

fn rule_config_yaml(lang: &str, id: &str, rule: &GRule, utils: &[(String, GRule)]) -> String {
  let mut m = serde_yaml::Mapping::new();
  let k = |s: &str| serde_yaml::Value::String(s.to_string());
  m.insert(k("id"), k(id));
  m.insert(k("language"), k(lang));
  m.insert(k("rule"), rule.to_yaml());
  if !utils.is_empty() {
    let mut u = serde_yaml::Mapping::new();
    for (n, r) in utils {
      u.insert(k(n), r.to_yaml());
    }
    m.insert(k("utils"), serde_yaml::Value::Mapping(u));
  }
  serde_yaml::to_string(&serde_yaml::Value::Mapping(m)).unwrap()
}

/// keep a match iff no proper ancestor (within the subtree of `top`) is a match
fn outermost(full: &[(usize, R)], parents: &BTreeMap<usize, Option<usize>>, top: usize) -> Vec<R> {
  let ids: HashSet<usize> = full.iter().map(|(id, _)| *id).collect();
  full
    .iter()
    .filter(|(id, _)| {
      if *id == top {
        return true;
      }
      let mut cur = parents.get(id).cloned().flatten();
      while let Some(p) = cur {
        if ids.contains(&p) {
          return false;
        }
        if p == top {
          break;
        }
        cur = parents.get(&p).cloned().flatten();
      }
      true
    })
    .map(|(_, r)| *r)
    .collect()
}

fn check_matcher<'a, M: Matcher<SupportLang>>(
  what: &str,
  desc: &str,
  m: &M,
  sg: &'a Sg,
  all: &[TsNode<'a>],
  reference: &dyn Fn(&TsNode<'a>) -> bool,
  inner: &TsNode<'a>,
  st: &mut Stats,
) -> Result<Vec<R>, Fail> {
  let kinds = m.potential_kinds();
  // brute force per node
  let mut full: Vec<(usize, R)> = vec![];
  let mut skipped_by_kind = false;
  for n in all {
    let node: SgNode = sg.inner.adopt(n.clone());
    let direct = m.match_node(node).is_some();
    let rf = reference(n);
    if direct != rf {
      // per-node disagreement between the matcher and the reference evaluator: C05's subject,
      // but a cached kind set inside All/Any/RuleCore also shows up here
      let in_kinds = kinds.as_ref().map(|k| k.contains(n.kind_id() as usize)).unwrap_or(true);
      fail!(
        format!("C01:{what}:per-node-vs-reference{}", if !in_kinds { ":outside-kind-set" } else { "" }),
        "{desc}: matcher={direct} reference={rf} on node {}..{} ({})",
        n.start_byte(),
        n.end_byte(),
        n.kind()
      );
    }
    if rf {
      full.push((n.id(), (n.start_byte() as usize, n.end_byte() as usize)));
      if let Some(k) = &kinds {
        if !k.contains(n.kind_id() as usize) {
          fail!(
            format!("C01:{what}:kind-set-too-small"),
            "{desc}: node {}..{} of kind {} (id {}) matches but its kind is not in potential_kinds()",
            n.start_byte(),
            n.end_byte(),
            n.kind(),
            n.kind_id()
          );
        }
      }
    } else if let Some(k) = &kinds {
      if !k.contains(n.kind_id() as usize) {
        skipped_by_kind = true;
      }
    }
  }
  // (1) find_all
  let root = sg.root();
  let found: Vec<R> = root.find_all(m).map(|x| (x.range().start, x.range().end)).collect();
  let expect: Vec<R> = full.iter().map(|(_, r)| *r).collect();
  if found != expect {
    fail!(
      format!("C01:{what}:find_all"),
      "{desc}: find_all reports {:?} but per-node matching gives {:?}",
      found.iter().filter(|r| !expect.contains(r)).take(5).collect::<Vec<_>>(),
      expect.iter().filter(|r| !found.contains(r)).take(5).collect::<Vec<_>>()
    );
  }
  // (3) overlap-free traversal
  let mut parents: BTreeMap<usize, Option<usize>> = BTreeMap::new();
  for n in all {
    parents.insert(n.id(), n.parent().map(|p| p.id()));
  }
  let outer = outermost(&full, &parents, all[0].id());
  let got: Vec<R> = Visitor::new(m)
    .reentrant(false)
    .visit(root.clone())
    .map(|x| (x.range().start, x.range().end))
    .collect();
  if got != outer {
    fail!(
      format!("C01:{what}:non-reentrant-visit"),
      "{desc}: non-reentrant visit yields {:?}, outermost(full) is {:?}",
      got.iter().take(8).collect::<Vec<_>>(),
      outer.iter().take(8).collect::<Vec<_>>()
    );
  }
  let got_re: Vec<R> = Visitor::new(m)
    .reentrant(true)
    .visit(root.clone())
    .map(|x| (x.range().start, x.range().end))
    .collect();
  if got_re != expect {
    fail!(format!("C01:{what}:reentrant-visit"), "{desc}: reentrant visit differs from per-node matching");
  }
  let edits = root.replace_all(m, "x");
  let edit_starts: Vec<usize> = edits.iter().map(|e| e.position).collect();
  let outer_starts: Vec<usize> = outer.iter().map(|r| r.0).collect();
  if edit_starts != outer_starts {
    fail!(
      format!("C01:{what}:replace_all"),
      "{desc}: replace_all edits start at {:?}, outermost matches start at {:?}",
      edit_starts.iter().take(8).collect::<Vec<_>>(),
      outer_starts.iter().take(8).collect::<Vec<_>>()
    );
  }
  // from an inner start node
  let sub: Vec<TsNode> = tsutil::preorder(inner.clone());
  let sub_ids: HashSet<usize> = sub.iter().map(|n| n.id()).collect();
  let sub_full: Vec<(usize, R)> = full.iter().filter(|(id, _)| sub_ids.contains(id)).cloned().collect();
  let sub_outer = outermost(&sub_full, &parents, inner.id());
  let got_inner: Vec<R> = Visitor::new(m)
    .reentrant(false)
    .visit(sg.inner.adopt(inner.clone()))
    .map(|x| (x.range().start, x.range().end))
    .collect();
  if got_inner != sub_outer {
    fail!(
      format!("C01:{what}:non-reentrant-visit-inner"),
      "{desc}: non-reentrant visit from inner node {}..{} yields {:?}, expected {:?}",
      inner.start_byte(),
      inner.end_byte(),
      got_inner.iter().take(8).collect::<Vec<_>>(),
      sub_outer.iter().take(8).collect::<Vec<_>>()
    );
  }
  let found_inner: Vec<R> = sg
    .inner
    .adopt(inner.clone())
    .find_all(m)
    .map(|x| (x.range().start, x.range().end))
    .collect();
  let expect_inner: Vec<R> = sub_full.iter().map(|(_, r)| *r).collect();
  if found_inner != expect_inner {
    fail!(format!("C01:{what}:find_all-inner"), "{desc}: find_all from an inner node differs from per-node matching");
  }
  st.eval();
  if !full.is_empty() && skipped_by_kind {
    st.label("filter_skipped_something_and_matches_exist");
  }
  if outer.len() < full.len() {
    st.label("nested_matches");
  }
  if kinds.is_none() {
    st.label("no_kind_set");
  }
  Ok(expect)
}

pub fn check(case: &Case, st: &mut Stats) -> CheckResult {
  let lang: SupportLang = case.lang.parse().map_err(|_| Fail::new("bad-case", "lang"))?;
  let sg = parse(lang, &case.source);
  let root = sg.root().get_ts_node();
  let all = tsutil::preorder(root.clone());
  let zero_width = tsutil::has_zero_width(root.clone());
  let inner = all.get(case.inner_start).cloned().unwrap_or_else(|| root.clone());
  st.label(&format!("lang_{}", case.lang));
  if tsutil::subtree_has_error(&root) {
    st.label("has_error");
  }
  let mut rule_docs: Vec<(String, String, Vec<R>)> = vec![]; // id, yaml, expected ranges
  let mut nontrivial = false;
  for (i, m) in case.matchers.iter().enumerate() {
    match m {
      MatcherSpec::Pattern { text, selector, strictness } => {
        let built = match selector {
          None => Pattern::try_new(text, lang),
          Some(s) => Pattern::contextual(text, s, lang),
        };
        let Ok(p) = built else {
          st.discard("pattern does not parse");
          continue;
        };
        let p = p.with_strictness(pat::strictness(strictness));
        let p2 = p.clone();
        let sgr = &sg;
        // Pattern::match_node has no kind shortcut of its own except the selector root kind
        let reference = move |n: &TsNode| p2.match_node(sgr.inner.adopt(n.clone())).is_some();
        let desc = format!("pattern {text:?} selector {selector:?} strictness {strictness}");
        let expect = check_matcher("pattern", &desc, &p, &sg, &all, &reference, &inner, st)?;
        st.label(&format!("pattern_{strictness}"));
        if p.has_error() {
          st.label("pattern_with_error_root");
        }
        if !expect.is_empty() {
          nontrivial = true;
        }
        // as a rule for the combined scan (smart strictness only: the YAML string form)
        if strictness == "smart" && selector.is_none() {
          let leaf = GRule::Pattern(PatLeaf {
            text: text.clone(),
            selector: None,
            strictness: None,
            singles: vec![],
            multis: vec![],
          });
          rule_docs.push((format!("r{i:02}"), rule_config_yaml(&case.lang, &format!("r{i:02}"), &leaf, &[]), expect));
        }
      }
      MatcherSpec::Rule { rule, utils } => {
        if zero_width {
          // O-eval's relational reading is only stated for trees without zero-width nodes
          st.discard("rule matcher on a source with zero-width nodes");
          continue;
        }
        // RuleCore through the public YAML entry point
        let id = format!("r{i:02}");
        let yaml = rule_config_yaml(&case.lang, &id, rule, utils);
        let globals = GlobalRules::default();
        let configs: Vec<RuleConfig<SupportLang>> = match catch(|| from_yaml_string::<SupportLang>(&yaml, &globals)) {
          Ok(Ok(c)) => c,
          Ok(Err(_)) => {
            st.discard("rule rejected at load");
            continue;
          }
          Err(p) => fail!(panic_signature(&p), "panic while loading rule: {p}\n{yaml}"),
        };
        let mut ev = Evaluator::new(lang, &case.source, &sg);
        for (n, u) in utils {
          ev.utils.insert(n.clone(), u.clone());
        }
        let reference = |n: &TsNode| ev.holds(rule, n);
        let desc = format!("rule\n{}", rule.yaml_string());
        let expect = check_matcher("rule", &desc, &configs[0].matcher, &sg, &all, &reference, &inner, st)?;
        if ev.stats.borrow().steps > ev.max_steps {
          st.discard("reference evaluator budget exceeded");
          continue;
        }
        // every utility's kind set must cover what it matches
        if let Ok((_, env)) = c05::build_impl_rule(lang, rule, utils) {
          for (uname, u) in utils {
            let ser: Result<ast_grep_config::SerializableRule, _> = ast_grep_config::from_str(&u.yaml_string());
            if let Ok(Ok(ur)) = ser.map(|s| env.deserialize_rule(s)) {
              if let Some(k) = ur.potential_kinds() {
                for n in &all {
                  if ev.holds(u, n) && !k.contains(n.kind_id() as usize) {
                    fail!("C01:util:kind-set-too-small", "utility {uname} matches node kind {} outside its potential_kinds()\n{}", n.kind(), u.yaml_string());
                  }
                }
              }
            }
          }
        }
        st.label("rule_matcher");
        if !expect.is_empty() {
          nontrivial = true;
        }
        rule_docs.push((id, yaml, expect));
      }
    }
  }
  // (2) combined scan of all rule documents together
  if !rule_docs.is_empty() && !case.source.contains("ast-grep-ignore") {
    let doc = rule_docs.iter().map(|(_, y, _)| y.clone()).collect::<Vec<_>>().join("---\n");
    let globals = GlobalRules::default();
    if let Ok(Ok(configs)) = catch(|| from_yaml_string::<SupportLang>(&doc, &globals)) {
      let refs: Vec<&RuleConfig<SupportLang>> = configs.iter().collect();
      let scan = CombinedScan::new(refs);
      let result = scan.scan(&sg, false);
      let mut got: BTreeMap<String, Vec<R>> = BTreeMap::new();
      for (rule, ms) in &result.matches {
        got
          .entry(rule.id.clone())
          .or_default()
          .extend(ms.iter().map(|m| (m.range().start, m.range().end)));
      }
      for (id, _, expect) in &rule_docs {
        let g = got.remove(id).unwrap_or_default();
        if &g != expect {
          fail!(
            "C01:combined-scan",
            "CombinedScan over {} rules reports for {id} (only there) {:?}; the rule alone finds (only there) {:?}\n{}",
            rule_docs.len(),
            g.iter().filter(|r| !expect.contains(r)).take(5).collect::<Vec<_>>(),
            expect.iter().filter(|r| !g.contains(r)).take(5).collect::<Vec<_>>(),
            doc
          );
        }
      }
      if let Some((id, _)) = got.iter().next() {
        fail!("C01:combined-scan", "CombinedScan reports unknown rule id {id}");
      }
      st.label("combined_scan");
      if rule_docs.len() >= 2 {
        st.label("combined_scan_multi_rule");
      }
    } else {
      st.discard("combined document rejected");
    }
  }
  if nontrivial {
    st.label("nontrivial");
    st.nontrivial(&(&case.lang, &case.source, format!("{:?}", case.matchers)));
    if st.wants_sample() {
      st.sample(json!({"lang": case.lang, "source_head": case.source.chars().take(160).collect::<String>(),
        "matchers": case.matchers.iter().map(|m| match m {
          MatcherSpec::Pattern{text, selector, strictness} => json!({"pattern": text, "selector": selector, "strictness": strictness}),
          MatcherSpec::Rule{rule, utils} => json!({"rule": rule.yaml_string(), "utils": utils.len()}),
        }).collect::<Vec<_>>()}));
    }
  }
  Ok(())
}

fn stage_opts() -> SrcOpts {
  let mut opts = SrcOpts::all_langs().with_errors();
  opts.max_bytes = 900;
  opts.max_muts = 2;
  opts.synth_weight = 4;
  opts
}

/// the same stage, driven by bytes (coverage-guided tier)
pub fn erased() -> crate::fuzz::Erased {
  let corpus: &'static Corpus = Box::leak(Box::new(Corpus::load()));
  let opts: &'static SrcOpts = Box::leak(Box::new(stage_opts()));
  crate::fuzz::Erased::generic("C01", "library", move || strategy(opts), move |c, st| interpret(corpus, opts, c, st), check)
}

pub fn run(cfg: &RunCfg) -> i32 {
  let mut report = Report::new(
    cfg,
    "library part: case = (language, source incl. syntax errors, 1-5 matchers: free-form patterns (holes of every spelling, bare $X, contextual, ERROR-rooted; all 5 strictness levels) and kind-determined rule trees with utilities). Per matcher: find_all / reentrant and non-reentrant Visitor (from the root and from an inner node) / replace_all vs brute-force per-node matching and vs O-eval, potential_kinds containment; all rules together through CombinedScan vs each rule alone. evaluations = matchers checked. Non-trivial = distinct case with at least one match. CLI part: see stage cli.",
  );
  report.assume("rule matchers are compared with O-eval only on sources without zero-width nodes");
  let known = Known::load(&cfg.prop);
  if let Some(path) = &cfg.replay {
    let rf = read_replay(path);
    if rf.stage == "cli" {
      return crate::replay_main::<crate::c01cli::Case>(cfg, path, crate::c01cli::check);
    }
    return crate::replay_main::<Case>(cfg, path, check);
  }
  let corpus = Corpus::load();
  crate::replay_known_staged::<Case>(&mut report, &known, "cli", false, check);
  crate::replay_known_staged::<crate::c01cli::Case>(&mut report, &known, "cli", true, crate::c01cli::check);
  let opts = stage_opts();
  let total = cfg.budget(15_000, 300_000);
  let o = drive(cfg, "library", total, &known, || strategy(&opts), |c, st| interpret(&corpus, &opts, c, st), check);
  report.absorb("library", o);
  crate::c01cli::run_stage(cfg, &known, &corpus, &mut report);
  report.floor("nested_matches", 0.03, "evaluations");
  crate::fuzz::stage(cfg, &mut report, &known, 20000);
  report.finish()
}
