//! C05 — rule objects mean what the rule reference says (O-eval differential).
use crate::engine::*;
use crate::fail;
use crate::gen::{self, Corpus, SrcChoice, SrcOpts};
use crate::langs;
use crate::rules::*;
use crate::tsutil::{self, parse, Sg};
use ast_grep_config::{DeserializeEnv, Rule, SerializableRule};
use ast_grep_core::matcher::MatcherExt;
use ast_grep_language::SupportLang;
use proptest::prelude::*;
use proptest::sample::Index;
use serde::{Deserialize, Serialize};
use serde_json::json;
use std::collections::HashMap;
use tree_sitter::Node as TsNode;

#[derive(Clone, Debug, Serialize, Deserialize)]
pub struct Case {
  pub lang: String,
  pub source: String,
  pub rule: GRule,
  pub utils: Vec<(String, GRule)>,
}

#[derive(Clone, Debug)]
pub struct Choice {
  pub src: SrcChoice,
  pub utils: Vec<RC>,
  pub rule: RC,
  /// a utility that refers to itself through a relation (legitimate recursion over the tree):
  /// (kind of the utility, kind of the base case, relation / stop form)
  pub rec: Option<(Index, Index, u8)>,
}

pub fn strategy(opts: &SrcOpts, depth: u32) -> BoxedStrategy<Choice> {
  (
    gen::src_choice(opts),
    prop::collection::vec(rc_tree(2), 0..=2),
    rc_tree(depth),
    prop::option::weighted(0.3, (any::<Index>(), any::<Index>(), 0u8..16)),
  )
    .prop_map(|(src, utils, rule, rec)| Choice { src, utils, rule, rec })
    .boxed()
}

pub fn build_impl_rule(
  lang: SupportLang,
  rule: &GRule,
  utils: &[(String, GRule)],
) -> Result<(Rule<SupportLang>, DeserializeEnv<SupportLang>), String> {
  let mut map: HashMap<String, SerializableRule> = HashMap::new();
  for (name, u) in utils {
    let s: SerializableRule = ast_grep_config::from_str(&u.yaml_string()).map_err(|e| format!("util yaml: {e}"))?;
    map.insert(name.clone(), s);
  }
  let env = DeserializeEnv::new(lang)
    .with_utils(&map)
    .map_err(|e| format!("utils: {e:?}"))?;
  let ser: SerializableRule = ast_grep_config::from_str(&rule.yaml_string()).map_err(|e| format!("rule yaml: {e}"))?;
  let r = env.deserialize_rule(ser).map_err(|e| format!("rule: {e:?}"))?;
  Ok((r, env))
}

pub fn interpret_with(
  corpus: &Corpus,
  opts: &SrcOpts,
  ch: &Choice,
  st: &mut Stats,
  var_pool: Option<Vec<&'static str>>,
) -> Option<Case> {
  let built = gen::build_source(corpus, &ch.src, opts);
  let lang = built.lang;
  let sg = parse(lang, &built.text);
  if tsutil::has_zero_width(sg.root().get_ts_node()) {
    st.discard("source has zero-width / MISSING nodes");
    return None;
  }
  let mut ctx = RuleCtx::new(lang, &built.text, &sg);
  ctx.var_pool = var_pool;
  let mut utils = vec![];
  for (i, u) in ch.utils.iter().enumerate() {
    let g = ctx.interpret(u, 0);
    let name = format!("u{i}");
    utils.push((name.clone(), g));
    // later utilities and the main rule may reference earlier ones only (acyclic)
    ctx.util_names.push(name);
  }
  if let (Some((k, b, form)), false) = (&ch.rec, ctx.kinds.is_empty()) {
    // `urec: {kind: K, has|inside: {any: [{kind: B}, {matches: urec}], stopBy}}`: its kind caches
    // are built while `urec` itself is not registered yet
    let kind = ctx.kinds[k.index(ctx.kinds.len())].clone();
    let base = ctx.kinds[b.index(ctx.kinds.len())].clone();
    let rel = Box::new(Rel {
      rule: if form & 4 == 0 {
        GRule::Any(vec![GRule::Kind(base), GRule::Matches("urec".into())])
      } else {
        GRule::Any(vec![GRule::Matches("urec".into()), GRule::Kind(base)])
      },
      stop: if form & 2 == 0 { Stop::Neighbor } else { Stop::End },
      field: None,
    });
    let body = GRule::Obj(vec![GRule::Kind(kind), if form & 1 == 0 { GRule::Has(rel) } else { GRule::Inside(rel) }]);
    utils.push(("urec".to_string(), body));
    ctx.util_names.push("urec".to_string());
    st.label("recursive_utility");
  }
  let mut rule = ctx.interpret(&ch.rule, 0);
  if let (Some((_, _, form)), true) = (&ch.rec, ctx.util_names.iter().any(|n| n == "urec")) {
    if form & 8 != 0 {
      // the recursive utility is the rule itself (or one alternative of it)
      rule = if form & 4 == 0 { GRule::Matches("urec".into()) } else { GRule::Any(vec![GRule::Matches("urec".into()), rule]) };
    }
  }
  for l in &built.labels {
    st.label(l);
  }
  Some(Case {
    lang: langs::name(lang),
    source: built.text,
    rule,
    utils,
  })
}

pub fn interpret(corpus: &Corpus, opts: &SrcOpts, ch: &Choice, st: &mut Stats) -> Option<Case> {
  interpret_with(corpus, opts, ch, st, None)
}

fn rel_sig(name: &str, rel: &Rel) -> String {
  format!(
    "{name}:stopBy={}:field={}",
    match rel.stop {
      Stop::Neighbor => "neighbor",
      Stop::End => "end",
      Stop::Rule(_) => "rule",
    },
    rel.field.is_some()
  )
}

/// Find the smallest sub-rule on which implementation and reference disagree and name it.
pub fn localise<'a>(
  lang: SupportLang,
  sg: &'a Sg,
  ev: &Evaluator<'a>,
  utils: &[(String, GRule)],
  rule: &GRule,
  all_nodes: &[TsNode<'a>],
  depth: usize,
) -> Option<String> {
  let disagree = |r: &GRule| -> Option<bool> {
    let (imp, _env) = build_impl_rule(lang, r, utils).ok()?;
    Some(all_nodes.iter().any(|n| {
      let i = imp.match_node(sg.inner.adopt(n.clone())).is_some();
      i != ev.holds(r, n)
    }))
  };
  if depth > 8 {
    return None;
  }
  let children: Vec<&GRule> = match rule {
    GRule::All(v) | GRule::Any(v) | GRule::Obj(v) => v.iter().collect(),
    GRule::Not(r) => vec![r],
    GRule::Nth { of_rule: Some(r), .. } => vec![r],
    GRule::Inside(r) | GRule::Has(r) | GRule::Precedes(r) | GRule::Follows(r) => {
      let mut v = vec![&r.rule];
      if let Stop::Rule(s) = &r.stop {
        v.push(s);
      }
      v
    }
    GRule::Matches(name) => utils.iter().filter(|(n, _)| n == name).map(|(_, r)| r).collect(),
    _ => vec![],
  };
  for c in children {
    if disagree(c) == Some(true) {
      return localise(lang, sg, ev, utils, c, all_nodes, depth + 1);
    }
  }
  Some(match rule {
    GRule::Inside(r) => rel_sig("inside", r),
    GRule::Has(r) => rel_sig("has", r),
    GRule::Precedes(r) => rel_sig("precedes", r),
    GRule::Follows(r) => rel_sig("follows", r),
    GRule::Nth { reverse, of_rule, .. } => format!(
      "nthChild:reverse={reverse}:ofRule={}",
      match of_rule.as_deref() {
        None => "none",
        Some(GRule::Inside(_) | GRule::Has(_) | GRule::Precedes(_) | GRule::Follows(_)) => "bare-relational",
        Some(_) => "rule",
      }
    ),
    other => other.key().to_string(),
  })
}

pub fn check(case: &Case, st: &mut Stats) -> CheckResult {
  let lang: SupportLang = case.lang.parse().map_err(|_| Fail::new("bad-case", "lang"))?;
  let sg = parse(lang, &case.source);
  let root = sg.root().get_ts_node();
  if tsutil::has_zero_width(root.clone()) {
    st.discard("source has zero-width / MISSING nodes");
    return Ok(());
  }
  let (imp, _env) = match catch(|| build_impl_rule(lang, &case.rule, &case.utils)) {
    Ok(Ok(r)) => r,
    Ok(Err(e)) => {
      // the generator produced a rule the implementation rejects: C11/C12 territory
      st.discard("rule rejected at load");
      st.note(format!("load error sample: {}", e.chars().take(120).collect::<String>()));
      return Ok(());
    }
    Err(p) => fail!(panic_signature(&p), "panic while loading the rule: {p}\n{}", case.rule.yaml_string()),
  };
  let mut ev = Evaluator::new(lang, &case.source, &sg);
  for (n, u) in &case.utils {
    ev.utils.insert(n.clone(), u.clone());
  }
  let all = tsutil::preorder(root);
  let mut matched = 0usize;
  let mut first_bad: Option<(usize, bool, bool)> = None;
  for (i, n) in all.iter().enumerate() {
    let im = imp.match_node(sg.inner.adopt(n.clone())).is_some();
    let rf = ev.holds(&case.rule, n);
    if rf {
      matched += 1;
    }
    if im != rf && first_bad.is_none() {
      first_bad = Some((i, im, rf));
    }
  }
  if ev.stats.borrow().steps > ev.max_steps {
    st.discard("reference evaluator budget exceeded");
    return Ok(());
  }
  st.evals(1);
  st.label_n("node_evaluations", all.len() as u64);
  st.label(&format!("lang_{}", case.lang));
  if let Some((i, im, rf)) = first_bad {
    let n = &all[i];
    let what = localise(lang, &sg, &ev, &case.utils, &case.rule, &all, 0).unwrap_or_else(|| "unlocalised".into());
    let at_root = n.parent().is_none();
    fail!(
      format!("C05:{what}{}", if at_root { ":at-root" } else { "" }),
      "rule and reference disagree on node #{i} {}..{} ({}) {:?}: implementation={im} reference={rf}\nrule:\n{}utils: {:?}",
      n.start_byte(),
      n.end_byte(),
      n.kind(),
      tsutil::text(&case.source, n).chars().take(80).collect::<String>(),
      case.rule.yaml_string(),
      case.utils.iter().map(|(k, v)| (k, v.yaml_string())).collect::<Vec<_>>()
    );
  }
  // labels
  let mut has_rel = false;
  case.rule.walk(&mut |r| match r {
    GRule::Inside(rel) | GRule::Has(rel) | GRule::Precedes(rel) | GRule::Follows(rel) => {
      has_rel = true;
      st.label(&format!("op_{}", rel_sig(r.key(), rel)));
    }
    GRule::Nth { reverse, of_rule, .. } => {
      has_rel = true;
      st.label(&format!("op_nthChild:reverse={reverse}:ofRule={}", of_rule.is_some()));
    }
    other => st.label(&format!("op_{}", other.key())),
  });
  if has_rel && matched > 0 && matched < all.len() {
    st.label("nontrivial");
    st.nontrivial(&(&case.lang, &case.source, case.rule.yaml_string()));
    if st.wants_sample() {
      st.sample(json!({"lang": case.lang, "rule": case.rule.yaml_string(), "utils": case.utils.iter().map(|(k, v)| (k.clone(), v.yaml_string())).collect::<Vec<_>>(),
        "source_head": case.source.chars().take(160).collect::<String>(), "nodes": all.len(), "matching_nodes": matched}));
    }
  }
  if matched == 0 {
    st.label("no_node_matches");
  }
  Ok(())
}

pub fn small_opts() -> SrcOpts {
  let mut opts = SrcOpts::all_langs();
  opts.max_bytes = 700;
  opts.max_muts = 2;
  opts.synth_weight = 4;
  opts
}

fn stage_opts() -> SrcOpts {
  let opts = small_opts();
  opts
}

/// the same stage, driven by bytes (coverage-guided tier)
pub fn erased() -> crate::fuzz::Erased {
  let corpus: &'static Corpus = Box::leak(Box::new(Corpus::load()));
  let opts: &'static SrcOpts = Box::leak(Box::new(stage_opts()));
  crate::fuzz::Erased::generic("C05", "rules", move || strategy(opts, 4), move |c, st| interpret(corpus, opts, c, st), check)
}

pub fn run(cfg: &RunCfg) -> i32 {
  let mut report = Report::new(
    cfg,
    "case = (language, small source without zero-width nodes, 0-2 acyclic utility rules, variable-disjoint rule tree of depth <= 5 over pattern/kind/regex/range/nthChild(An+B, reverse, ofRule)/inside/has/precedes/follows(stopBy neighbor|end|rule, field)/all/any/not/matches and multi-key rule objects); the rule is evaluated on EVERY node (root and unnamed included) by the implementation and by O-eval. evaluations = rules; labels.node_evaluations = (rule, node) pairs. Non-trivial = distinct (source, rule) with a relational/positional operator whose match set is neither empty nor everything.",
  );
  report.assume("pattern leaves are delegated to Pattern::match_node_with_env (decided by C02/C03)");
  report.assume("`field` is generated only for fields that never label two children of one node in the source (property restriction)");
  let known = Known::load(&cfg.prop);
  if let Some(path) = &cfg.replay {
    return crate::replay_main::<Case>(cfg, path, check);
  }
  let corpus = Corpus::load();
  crate::replay_known::<Case>(&mut report, &known, check);
  let opts = stage_opts();
  let total = cfg.budget(12_000, 300_000);
  let o = drive(cfg, "rules", total, &known, || strategy(&opts, 4), |c, st| interpret(&corpus, &opts, c, st), check);
  report.absorb("rules", o);
  // the rule families of C04 (relational candidate loops around binding sub-rules, negation,
  // utilities) judged by this property's oracle: verdict on every node against O-eval
  let total = cfg.budget(8_000, 150_000);
  let o = drive(
    cfg,
    "families",
    total,
    &known,
    crate::c04::family_strategy,
    |c, st| {
      let k = crate::c04::interpret_family(c, st)?;
      if !k.globals.is_empty() {
        return None;
      }
      Some(Case {
        lang: k.lang,
        source: k.source,
        rule: k.rule,
        utils: k.utils,
      })
    },
    check,
  );
  report.absorb("families", o);
  report.floor("nontrivial", 0.15, "evaluations");
  crate::fuzz::stage(cfg, &mut report, &known, 20000);
  report.finish()
}
