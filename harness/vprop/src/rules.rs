//! G-rule (my own rule AST, rendered to YAML for the implementation) and O-eval, the
//! reference rule evaluator over raw tree-sitter nodes with clean-attempt environments.
use crate::pat::{self, PatSpec};
use crate::tsutil::{self, Sg};
use ast_grep_core::meta_var::MetaVarEnv;
use ast_grep_core::{Matcher, Pattern};
use ast_grep_language::SupportLang;
use proptest::prelude::*;
use proptest::sample::Index;
use serde::{Deserialize, Serialize};
use serde_yaml::{Mapping, Value as Y};
use std::borrow::Cow;
use std::collections::BTreeMap;
use tree_sitter::Node as TsNode;

// ---------------------------------------------------------------------------------------
// rule AST

#[derive(Clone, Debug, Serialize, Deserialize, PartialEq, Eq, Hash)]
pub enum Stop {
  Neighbor,
  End,
  Rule(Box<GRule>),
}

#[derive(Clone, Debug, Serialize, Deserialize, PartialEq, Eq, Hash)]
pub struct Rel {
  pub rule: GRule,
  pub stop: Stop,
  pub field: Option<String>,
}

#[derive(Clone, Debug, Serialize, Deserialize, PartialEq, Eq, Hash)]
pub struct PatLeaf {
  pub text: String,
  pub selector: Option<String>,
  pub strictness: Option<String>,
  /// single-capture variable names and multi-capture names occurring in the pattern
  pub singles: Vec<String>,
  pub multis: Vec<String>,
}

#[derive(Clone, Debug, Serialize, Deserialize, PartialEq, Eq, Hash)]
pub enum GRule {
  Pattern(PatLeaf),
  Kind(String),
  Regex(String),
  Range { sl: usize, sc: usize, el: usize, ec: usize },
  Nth { position: String, numeric: bool, reverse: bool, of_rule: Option<Box<GRule>>, simple: bool },
  Inside(Box<Rel>),
  Has(Box<Rel>),
  Precedes(Box<Rel>),
  Follows(Box<Rel>),
  All(Vec<GRule>),
  Any(Vec<GRule>),
  Not(Box<GRule>),
  Matches(String),
  /// a rule object with several keys (conjunction); children have pairwise distinct keys
  Obj(Vec<GRule>),
}

impl GRule {
  pub fn key(&self) -> &'static str {
    match self {
      GRule::Pattern(_) => "pattern",
      GRule::Kind(_) => "kind",
      GRule::Regex(_) => "regex",
      GRule::Range { .. } => "range",
      GRule::Nth { .. } => "nthChild",
      GRule::Inside(_) => "inside",
      GRule::Has(_) => "has",
      GRule::Precedes(_) => "precedes",
      GRule::Follows(_) => "follows",
      GRule::All(_) => "all",
      GRule::Any(_) => "any",
      GRule::Not(_) => "not",
      GRule::Matches(_) => "matches",
      GRule::Obj(_) => "obj",
    }
  }
  /// order in which the implementation evaluates the keys of one rule object
  fn key_rank(&self) -> usize {
    [
      "pattern", "kind", "regex", "nthChild", "range", "all", "any", "not", "matches", "inside", "has",
      "precedes", "follows",
    ]
    .iter()
    .position(|k| *k == self.key())
    .unwrap_or(99)
  }

  pub fn to_yaml(&self) -> Y {
    let mut m = Mapping::new();
    self.fill(&mut m);
    Y::Mapping(m)
  }

  fn fill(&self, m: &mut Mapping) {
    let k = |s: &str| Y::String(s.to_string());
    match self {
      GRule::Pattern(p) => {
        if p.selector.is_none() && p.strictness.is_none() {
          m.insert(k("pattern"), k(&p.text));
        } else {
          let mut o = Mapping::new();
          o.insert(k("context"), k(&p.text));
          if let Some(s) = &p.selector {
            o.insert(k("selector"), k(s));
          }
          if let Some(s) = &p.strictness {
            o.insert(k("strictness"), k(s));
          }
          m.insert(k("pattern"), Y::Mapping(o));
        }
      }
      GRule::Kind(s) => {
        m.insert(k("kind"), k(s));
      }
      GRule::Regex(s) => {
        m.insert(k("regex"), k(s));
      }
      GRule::Range { sl, sc, el, ec } => {
        let pos = |l: usize, c: usize| {
          let mut p = Mapping::new();
          p.insert(k("line"), Y::Number((l as u64).into()));
          p.insert(k("column"), Y::Number((c as u64).into()));
          Y::Mapping(p)
        };
        let mut r = Mapping::new();
        r.insert(k("start"), pos(*sl, *sc));
        r.insert(k("end"), pos(*el, *ec));
        m.insert(k("range"), Y::Mapping(r));
      }
      GRule::Nth {
        position,
        numeric,
        reverse,
        of_rule,
        simple,
      } => {
        let pos = if *numeric {
          Y::Number(position.parse::<u64>().unwrap_or(1).into())
        } else {
          k(position)
        };
        if *simple && !*reverse && of_rule.is_none() {
          m.insert(k("nthChild"), pos);
        } else {
          let mut o = Mapping::new();
          o.insert(k("position"), pos);
          if *reverse {
            o.insert(k("reverse"), Y::Bool(true));
          }
          if let Some(r) = of_rule {
            o.insert(k("ofRule"), r.to_yaml());
          }
          m.insert(k("nthChild"), Y::Mapping(o));
        }
      }
      GRule::Inside(r) | GRule::Has(r) | GRule::Precedes(r) | GRule::Follows(r) => {
        let mut o = Mapping::new();
        r.rule.fill(&mut o);
        match &r.stop {
          Stop::Neighbor => {}
          Stop::End => {
            o.insert(k("stopBy"), k("end"));
          }
          Stop::Rule(s) => {
            o.insert(k("stopBy"), s.to_yaml());
          }
        }
        if let Some(f) = &r.field {
          o.insert(k("field"), k(f));
        }
        m.insert(k(self.key()), Y::Mapping(o));
      }
      GRule::All(v) => {
        m.insert(k("all"), Y::Sequence(v.iter().map(|r| r.to_yaml()).collect()));
      }
      GRule::Any(v) => {
        m.insert(k("any"), Y::Sequence(v.iter().map(|r| r.to_yaml()).collect()));
      }
      GRule::Not(r) => {
        m.insert(k("not"), r.to_yaml());
      }
      GRule::Matches(s) => {
        m.insert(k("matches"), k(s));
      }
      GRule::Obj(v) => {
        for r in v {
          r.fill(m);
        }
      }
    }
  }

  pub fn yaml_string(&self) -> String {
    serde_yaml::to_string(&self.to_yaml()).unwrap_or_default()
  }

  pub fn walk(&self, f: &mut impl FnMut(&GRule)) {
    f(self);
    match self {
      GRule::Nth { of_rule: Some(r), .. } => r.walk(f),
      GRule::Inside(r) | GRule::Has(r) | GRule::Precedes(r) | GRule::Follows(r) => {
        r.rule.walk(f);
        if let Stop::Rule(s) = &r.stop {
          s.walk(f);
        }
      }
      GRule::All(v) | GRule::Any(v) | GRule::Obj(v) => v.iter().for_each(|r| r.walk(f)),
      GRule::Not(r) => r.walk(f),
      _ => {}
    }
  }
  pub fn depth(&self) -> usize {
    match self {
      GRule::Nth { of_rule: Some(r), .. } => 1 + r.depth(),
      GRule::Inside(r) | GRule::Has(r) | GRule::Precedes(r) | GRule::Follows(r) => {
        1 + r.rule.depth().max(match &r.stop {
          Stop::Rule(s) => s.depth(),
          _ => 0,
        })
      }
      GRule::All(v) | GRule::Any(v) | GRule::Obj(v) => 1 + v.iter().map(|r| r.depth()).max().unwrap_or(0),
      GRule::Not(r) => 1 + r.depth(),
      _ => 1,
    }
  }
}

// ---------------------------------------------------------------------------------------
// choices

#[derive(Clone, Debug)]
pub enum StopC {
  Neighbor,
  End,
  Rule(Box<RC>),
}

#[derive(Clone, Debug)]
pub enum RC {
  Pattern { node: Index, holes: Vec<Index>, run: Option<(Index, Index)>, strict: u8, var: u8 },
  Kind(Index),
  Regex(Index, u8),
  Range(Index, u8),
  Nth { pos: u8, reverse: bool, of: Option<Box<RC>>, simple: bool },
  Rel { which: u8, rule: Box<RC>, stop: StopC, field: Option<Index> },
  All(Vec<RC>),
  Any(Vec<RC>),
  Not(Box<RC>),
  Matches(Index),
  Obj(Vec<RC>),
}

pub fn rc_leaf() -> BoxedStrategy<RC> {
  prop_oneof![
    5 => (any::<Index>(), prop::collection::vec(any::<Index>(), 0..=2), prop::option::weighted(0.15, (any::<Index>(), any::<Index>())), 0u8..12, any::<u8>())
      .prop_map(|(node, holes, run, strict, var)| RC::Pattern { node, holes, run, strict, var }),
    4 => any::<Index>().prop_map(RC::Kind),
    2 => (any::<Index>(), 0u8..6).prop_map(|(i, f)| RC::Regex(i, f)),
    1 => (any::<Index>(), 0u8..4).prop_map(|(i, o)| RC::Range(i, o)),
    2 => (0u8..14, any::<bool>(), any::<bool>()).prop_map(|(pos, reverse, simple)| RC::Nth { pos, reverse, of: None, simple }),
    1 => any::<Index>().prop_map(RC::Matches),
  ]
  .boxed()
}

pub fn rc_tree(depth: u32) -> BoxedStrategy<RC> {
  rc_leaf()
    .prop_recursive(depth, 24, 3, |inner| {
      let stop = prop_oneof![
        3 => Just(StopC::Neighbor),
        3 => Just(StopC::End),
        3 => inner.clone().prop_map(|r| StopC::Rule(Box::new(r))),
      ];
      prop_oneof![
        6 => (0u8..4, inner.clone(), stop, prop::option::weighted(0.3, any::<Index>()))
          .prop_map(|(which, rule, stop, field)| RC::Rel { which, rule: Box::new(rule), stop, field }),
        2 => prop::collection::vec(inner.clone(), 0..4).prop_map(RC::All),
        2 => prop::collection::vec(inner.clone(), 0..4).prop_map(RC::Any),
        2 => inner.clone().prop_map(|r| RC::Not(Box::new(r))),
        2 => (0u8..14, any::<bool>(), inner.clone()).prop_map(|(pos, reverse, of)| RC::Nth { pos, reverse, of: Some(Box::new(of)), simple: false }),
        3 => prop::collection::vec(inner, 2..4).prop_map(RC::Obj),
      ]
    })
    .boxed()
}

pub const NTH_FORMULAS: &[&str] = &[
  "1", "2", "3", "n", "2n", "2n+1", "-n+3", "n+2", "2n-1", "3n+1", "-2n+5", " 2n + 1 ", "+n", "0n+2",
];

/// independent An+B parser (CSS micro-syntax, whitespace tolerated around tokens)
pub fn parse_anb(s: &str) -> Option<(i64, i64)> {
  let t: String = s.chars().filter(|c| !c.is_whitespace()).collect();
  let t = t.to_ascii_lowercase();
  if t.is_empty() {
    return None;
  }
  if let Some(npos) = t.find('n') {
    let (a_str, rest) = (&t[..npos], &t[npos + 1..]);
    let a = match a_str {
      "" | "+" => 1,
      "-" => -1,
      x => {
        let digits = x.trim_start_matches(['+', '-']);
        if digits.is_empty() || !digits.chars().all(|c| c.is_ascii_digit()) || x.len() - digits.len() > 1 {
          return None;
        }
        x.parse::<i64>().ok()?
      }
    };
    let b = if rest.is_empty() {
      0
    } else {
      let sign = match rest.as_bytes()[0] {
        b'+' => 1,
        b'-' => -1,
        _ => return None,
      };
      let digits = &rest[1..];
      if digits.is_empty() || !digits.chars().all(|c| c.is_ascii_digit()) {
        return None;
      }
      sign * digits.parse::<i64>().ok()?
    };
    Some((a, b))
  } else {
    let digits = t.trim_start_matches(['+', '-']);
    if digits.is_empty() || !digits.chars().all(|c| c.is_ascii_digit()) || t.len() - digits.len() > 1 {
      return None;
    }
    Some((0, t.parse::<i64>().ok()?))
  }
}

pub fn anb_selects(a: i64, b: i64, i: i64) -> bool {
  // exists n >= 0 with i = a*n + b
  if a == 0 {
    return i == b;
  }
  let d = i - b;
  d % a == 0 && d / a >= 0
}

// ---------------------------------------------------------------------------------------
// interpretation of choices against a source

#[derive(Clone, Debug)]
pub struct Dict {
  /// pattern templates; `$X` / `$Y` are replaced by pool variables, `$$$XS` by a multi name
  pub patterns: Vec<&'static str>,
  pub regexes: Vec<&'static str>,
}

pub struct RuleCtx<'a> {
  pub lang: SupportLang,
  pub src: &'a str,
  pub root: TsNode<'a>,
  pub kinds: Vec<String>,
  pub fields: Vec<String>,
  pub leaves: Vec<TsNode<'a>>,
  pub named: Vec<TsNode<'a>>,
  pub util_names: Vec<String>,
  /// None = variable-disjoint (fresh names per leaf); Some(pool) = variable sharing
  pub var_pool: Option<Vec<&'static str>>,
  /// dictionary mode (C04 scenarios): patterns / regexes come from a fixed small dictionary
  /// fitted to a fixed-shape source instead of being cut from the source
  pub dict: Option<Dict>,
  pub counter: std::cell::Cell<usize>,
}

impl<'a> RuleCtx<'a> {
  pub fn new(lang: SupportLang, src: &'a str, sg: &'a Sg) -> RuleCtx<'a> {
    let root = sg.root().get_ts_node();
    let all = tsutil::preorder(root.clone());
    let mut kinds: Vec<String> = all
      .iter()
      .filter(|n| n.is_named() && !n.is_error() && !n.is_missing())
      .map(|n| n.kind().to_string())
      .collect();
    // `kind: ERROR` is a legal rule (tree-sitter's built-in kind, id 65535): it must match the
    // ERROR nodes of a source with syntax errors and nothing else
    kinds.push("ERROR".to_string());
    kinds.sort();
    kinds.dedup();
    // fields that never label two children of one node in this source
    let mut ok: BTreeMap<String, bool> = BTreeMap::new();
    for n in &all {
      let wf = tsutil::children_with_fields(n);
      let mut count: BTreeMap<&str, usize> = BTreeMap::new();
      for (f, _) in &wf {
        if let Some(f) = f {
          *count.entry(f.as_str()).or_insert(0) += 1;
        }
      }
      for (f, c) in count {
        let e = ok.entry(f.to_string()).or_insert(true);
        if c > 1 {
          *e = false;
        }
      }
    }
    let fields: Vec<String> = ok.into_iter().filter(|(_, v)| *v).map(|(k, _)| k).collect();
    let mut leaves: Vec<TsNode> = all
      .iter()
      .filter(|n| n.child_count() == 0 && n.end_byte() > n.start_byte())
      .cloned()
      .collect();
    leaves.sort_by_key(|n| (n.end_byte() - n.start_byte(), n.start_byte()));
    let mut named: Vec<TsNode> = all
      .iter()
      .filter(|n| n.is_named() && n.end_byte() > n.start_byte())
      .cloned()
      .collect();
    named.sort_by_key(|n| (n.end_byte() - n.start_byte(), n.start_byte()));
    RuleCtx {
      lang,
      src,
      root,
      kinds,
      fields,
      leaves,
      named,
      util_names: vec![],
      var_pool: None,
      dict: None,
      counter: std::cell::Cell::new(0),
    }
  }

  fn fresh(&self) -> usize {
    let c = self.counter.get();
    self.counter.set(c + 1);
    c
  }

  pub fn pattern_leaf(&self, node: &Index, holes: &[Index], run: Option<(Index, Index)>, strict: u8, var: u8) -> Option<PatLeaf> {
    let cands = pat::cut_candidates(self.src, self.root.clone(), 160);
    if cands.is_empty() {
      return None;
    }
    let n = &cands[node.index(cands.len())];
    let mut spec: PatSpec = pat::cut_pattern(self.src, n, holes, run);
    // rename variables
    let id = self.fresh();
    let mut singles = vec![];
    let mut multis = vec![];
    let mut text = spec.text.clone();
    // replace longest names first to avoid prefix clashes ($$$W before $V..)
    if let Some(r) = &spec.run {
      let new = match &self.var_pool {
        None => format!("P{id}W"),
        Some(pool) => format!("{}S", pool[(var as usize / 3) % pool.len()]),
      };
      text = text.replace(&format!("$$${}", r.name), &format!("$$${new}"));
      multis.push(new);
    }
    for (i, h) in spec.holes.iter().enumerate() {
      let new = match &self.var_pool {
        None => format!("P{id}V{i}"),
        Some(pool) => pool[(var as usize + i) % pool.len()].to_string(),
      };
      // `$V1` must not clobber `$V10` (never generated: at most 4 holes)
      text = text.replace(&format!("${}", h.name), &format!("${new}"));
      if !singles.contains(&new) {
        singles.push(new);
      }
    }
    spec.text = text;
    let strictness = match strict {
      0 => Some("cst"),
      1 => Some("ast"),
      2 => Some("relaxed"),
      3 => Some("signature"),
      4 => Some("smart"),
      _ => None,
    }
    .map(String::from);
    let plain_ok = Pattern::try_new(&spec.text, self.lang).is_ok();
    let selector = if plain_ok && strict % 5 != 4 {
      None
    } else {
      Some(spec.kind.clone())
    };
    let ok = match &selector {
      None => plain_ok,
      Some(sel) => crate::engine::catch(|| Pattern::contextual(&spec.text, sel, self.lang).is_ok()).unwrap_or(false),
    };
    if !ok {
      return None;
    }
    Some(PatLeaf {
      text: spec.text,
      selector,
      strictness,
      singles,
      multis,
    })
  }

  pub fn interpret(&self, rc: &RC, depth: usize) -> GRule {
    let fallback_kind = || {
      if self.kinds.is_empty() {
        GRule::Regex(".".into())
      } else {
        GRule::Kind(self.kinds[0].clone())
      }
    };
    if let (Some(d), Some(pool)) = (&self.dict, &self.var_pool) {
      match rc {
        RC::Pattern { node, var, .. } => {
          let t = d.patterns[node.index(d.patterns.len())];
          let x = pool[*var as usize % pool.len()];
          let y = pool[(*var as usize / 3 + 1 + *var as usize) % pool.len()];
          let text = t.replace("$$$XS", &format!("$$${x}S")).replace("$X", &format!("${x}")).replace("$Y", &format!("${y}"));
          let mut singles = vec![];
          let mut multis = vec![];
          if t.contains("$$$XS") {
            multis.push(format!("{x}S"));
          }
          if t.replace("$$$XS", "").contains("$X") {
            singles.push(x.to_string());
          }
          if t.contains("$Y") && !singles.contains(&y.to_string()) {
            singles.push(y.to_string());
          }
          if Pattern::try_new(&text, self.lang).is_ok() {
            return GRule::Pattern(PatLeaf {
              text,
              selector: None,
              strictness: None,
              singles,
              multis,
            });
          }
        }
        RC::Regex(i, _) => return GRule::Regex(d.regexes[i.index(d.regexes.len())].to_string()),
        _ => {}
      }
    }
    match rc {
      RC::Pattern { node, holes, run, strict, var } => match self.pattern_leaf(node, holes, *run, *strict, *var) {
        Some(p) => GRule::Pattern(p),
        None => fallback_kind(),
      },
      RC::Kind(i) => {
        if self.kinds.is_empty() {
          fallback_kind()
        } else {
          GRule::Kind(self.kinds[i.index(self.kinds.len())].clone())
        }
      }
      RC::Regex(i, form) => {
        if self.leaves.is_empty() {
          return GRule::Regex(".".into());
        }
        let leaf = &self.leaves[i.index(self.leaves.len())];
        let t = tsutil::text(self.src, leaf);
        let esc = regex::escape(t);
        GRule::Regex(match form {
          0 => format!("^{esc}$"),
          1 => esc,
          2 => "^[a-z]+$".into(),
          3 => r"\d".into(),
          4 => format!("^{}", regex::escape(&t.chars().take(1).collect::<String>())),
          _ => "^.{1,3}$".into(),
        })
      }
      RC::Range(i, off) => {
        if self.named.is_empty() {
          return fallback_kind();
        }
        let n = &self.named[i.index(self.named.len())];
        let (sl, sc) = tsutil::o_pos(self.src.as_bytes(), n.start_byte() as usize);
        let (el, mut ec) = tsutil::o_pos(self.src.as_bytes(), n.end_byte() as usize);
        if *off == 3 {
          ec += 1;
        }
        GRule::Range { sl, sc, el, ec }
      }
      RC::Nth { pos, reverse, of, simple } => {
        let f = NTH_FORMULAS[*pos as usize % NTH_FORMULAS.len()];
        let numeric = f.chars().all(|c| c.is_ascii_digit());
        GRule::Nth {
          position: f.to_string(),
          numeric,
          reverse: *reverse,
          of_rule: of.as_ref().map(|r| Box::new(self.interpret(r, depth + 1))),
          simple: *simple,
        }
      }
      RC::Rel { which, rule, stop, field } => {
        let stop = match stop {
          StopC::Neighbor => Stop::Neighbor,
          StopC::End => Stop::End,
          StopC::Rule(r) => Stop::Rule(Box::new(self.interpret(r, depth + 1))),
        };
        let field = match (which, field) {
          (0 | 1, Some(i)) if !self.fields.is_empty() => Some(self.fields[i.index(self.fields.len())].clone()),
          _ => None,
        };
        let rel = Box::new(Rel {
          rule: self.interpret(rule, depth + 1),
          stop,
          field,
        });
        match which {
          0 => GRule::Inside(rel),
          1 => GRule::Has(rel),
          2 => GRule::Precedes(rel),
          _ => GRule::Follows(rel),
        }
      }
      RC::All(v) => GRule::All(v.iter().map(|r| self.interpret(r, depth + 1)).collect()),
      RC::Any(v) => GRule::Any(v.iter().map(|r| self.interpret(r, depth + 1)).collect()),
      RC::Not(r) => GRule::Not(Box::new(self.interpret(r, depth + 1))),
      RC::Matches(i) => {
        if self.util_names.is_empty() {
          fallback_kind()
        } else {
          GRule::Matches(self.util_names[i.index(self.util_names.len())].clone())
        }
      }
      RC::Obj(v) => {
        let mut out: Vec<GRule> = vec![];
        for r in v {
          let g = self.interpret(r, depth + 1);
          let g = match g {
            GRule::Obj(inner) => {
              for x in inner {
                if !out.iter().any(|o| o.key() == x.key()) {
                  out.push(x);
                }
              }
              continue;
            }
            g => g,
          };
          if !out.iter().any(|o| o.key() == g.key()) {
            out.push(g);
          }
        }
        if out.len() == 1 {
          out.pop().unwrap()
        } else {
          GRule::Obj(out)
        }
      }
    }
  }
}

// ---------------------------------------------------------------------------------------
// O-eval

#[derive(Clone, Debug, PartialEq, Eq)]
pub struct Bind {
  pub start: usize,
  pub end: usize,
  pub id: usize,
}

#[derive(Clone, Debug, Default)]
pub struct REnv<'a> {
  pub single: BTreeMap<String, TsNode<'a>>,
  pub multi: BTreeMap<String, Vec<TsNode<'a>>>,
  /// pattern leaves that matched on the winning derivation, with the node they matched
  pub trace: Vec<(PatLeaf, TsNode<'a>)>,
}

impl<'a> REnv<'a> {
  pub fn exposed_single(&self) -> BTreeMap<String, (usize, usize)> {
    self
      .single
      .iter()
      .map(|(k, n)| (k.clone(), (n.start_byte() as usize, n.end_byte() as usize)))
      .collect()
  }
  pub fn exposed_multi(&self) -> BTreeMap<String, Vec<(usize, usize)>> {
    self
      .multi
      .iter()
      .map(|(k, v)| {
        (
          k.clone(),
          v.iter()
            .filter(|n| n.is_named())
            .map(|n| (n.start_byte() as usize, n.end_byte() as usize))
            .collect(),
        )
      })
      .collect()
  }
}

#[derive(Default)]
pub struct EvalStats {
  /// a global utility's constraint failed after its rule had bound something new
  pub global_constraint_failures: u64,
  /// ... and a later evaluation of the same utility succeeded (the pollution-sensitive shape)
  pub global_success_after_failure: u64,
  /// number of failed attempts that had bound a variable before failing (clean-attempt relevance)
  pub failed_attempts_with_bindings: u64,
  pub pattern_calls: u64,
  pub steps: u64,
}

pub struct Evaluator<'a> {
  pub lang: SupportLang,
  pub src: &'a str,
  pub sg: &'a Sg,
  pub utils: BTreeMap<String, GRule>,
  /// global utilities: rule + constraints
  pub globals: BTreeMap<String, (GRule, Vec<(String, GRule)>)>,
  pub patterns: std::cell::RefCell<BTreeMap<(String, Option<String>, Option<String>), Option<Pattern<SupportLang>>>>,
  pub regexes: std::cell::RefCell<BTreeMap<String, Option<regex::Regex>>>,
  pub stats: std::cell::RefCell<EvalStats>,
  /// budget guard against pathological blow-up
  pub max_steps: u64,
}

impl<'a> Evaluator<'a> {
  pub fn new(lang: SupportLang, src: &'a str, sg: &'a Sg) -> Self {
    Evaluator {
      lang,
      src,
      sg,
      utils: BTreeMap::new(),
      globals: BTreeMap::new(),
      patterns: Default::default(),
      regexes: Default::default(),
      stats: Default::default(),
      max_steps: 3_000_000,
    }
  }

  pub fn pattern(&self, p: &PatLeaf) -> Option<Pattern<SupportLang>> {
    let key = (p.text.clone(), p.selector.clone(), p.strictness.clone());
    if let Some(v) = self.patterns.borrow().get(&key) {
      return v.clone();
    }
    let built = match &p.selector {
      None => Pattern::try_new(&p.text, self.lang).ok(),
      Some(s) => Pattern::contextual(&p.text, s, self.lang).ok(),
    }
    .map(|pt| match &p.strictness {
      Some(s) => pt.with_strictness(pat::strictness(s)),
      None => pt,
    });
    self.patterns.borrow_mut().insert(key, built.clone());
    built
  }

  fn eval_pattern(&self, p: &PatLeaf, n: &TsNode<'a>, env: &REnv<'a>) -> Option<REnv<'a>> {
    self.stats.borrow_mut().pattern_calls += 1;
    let pattern = self.pattern(p)?;
    // rebuild the implementation's environment from the reference environment through the public API
    let mut menv = MetaVarEnv::new();
    for (k, v) in &env.single {
      menv.insert(k, self.sg.inner.adopt(v.clone()))?;
    }
    for (k, v) in &env.multi {
      menv.insert_multi(k, v.iter().map(|x| self.sg.inner.adopt(x.clone())).collect())?;
    }
    let mut cow = Cow::Owned(menv);
    let node = self.sg.inner.adopt(n.clone());
    pattern.match_node_with_env(node, &mut cow)?;
    let out = cow.into_owned();
    let mut new = env.clone();
    for name in &p.singles {
      if let Some(b) = out.get_match(name) {
        new.single.insert(name.clone(), b.get_ts_node());
      }
    }
    for name in &p.multis {
      // a multi capture may legitimately be bound to an empty list
      let v = out.get_multiple_matches(name);
      new.multi.insert(name.clone(), v.iter().map(|x| x.get_ts_node()).collect());
    }
    new.trace.push((p.clone(), n.clone()));
    Some(new)
  }

  fn regex(&self, r: &str) -> Option<regex::Regex> {
    if let Some(v) = self.regexes.borrow().get(r) {
      return v.clone();
    }
    let built = regex::Regex::new(r).ok();
    self.regexes.borrow_mut().insert(r.to_string(), built.clone());
    built
  }

  fn note_fail(&self, before: &REnv<'a>, attempt: Option<&REnv<'a>>) {
    // an attempt that failed after binding: only visible to us when sub-evaluations succeeded
    // partially; approximated by the caller (see eval_all)
    let _ = (before, attempt);
  }

  pub fn holds(&self, r: &GRule, n: &TsNode<'a>) -> bool {
    self.eval(r, n, &REnv::default()).is_some()
  }

  pub fn eval(&self, r: &GRule, n: &TsNode<'a>, env: &REnv<'a>) -> Option<REnv<'a>> {
    {
      let mut st = self.stats.borrow_mut();
      st.steps += 1;
      if st.steps > self.max_steps {
        return None;
      }
    }
    match r {
      GRule::Pattern(p) => self.eval_pattern(p, n, env),
      GRule::Kind(k) => (n.is_named() && n.kind() == k.as_str()).then(|| env.clone()),
      GRule::Regex(re) => {
        let re = self.regex(re)?;
        re.is_match(tsutil::text(self.src, n)).then(|| env.clone())
      }
      GRule::Range { sl, sc, el, ec } => {
        let s = tsutil::o_pos(self.src.as_bytes(), n.start_byte() as usize);
        let e = tsutil::o_pos(self.src.as_bytes(), n.end_byte() as usize);
        (s == (*sl, *sc) && e == (*el, *ec)).then(|| env.clone())
      }
      GRule::Nth {
        position,
        reverse,
        of_rule,
        ..
      } => {
        let (a, b) = parse_anb(position)?;
        let parent = n.parent()?;
        if !n.is_named() {
          return None;
        }
        let sibs: Vec<TsNode<'a>> = tsutil::children(&parent).into_iter().filter(|c| c.is_named()).collect();
        let mut own_env: Option<REnv<'a>> = None;
        let mut list: Vec<TsNode<'a>> = vec![];
        for s in sibs {
          match of_rule {
            None => list.push(s),
            Some(of) => {
              // every sibling test is a clean attempt on the incoming environment
              if let Some(e2) = self.eval(of, &s, env) {
                if s.id() == n.id() {
                  own_env = Some(e2);
                }
                list.push(s);
              }
            }
          }
        }
        if *reverse {
          list.reverse();
        }
        let idx = list.iter().position(|s| s.id() == n.id())? as i64 + 1;
        if !anb_selects(a, b, idx) {
          return None;
        }
        Some(own_env.unwrap_or_else(|| env.clone()))
      }
      GRule::All(v) => {
        let mut cur = env.clone();
        for (i, sub) in v.iter().enumerate() {
          match self.eval(sub, n, &cur) {
            Some(e) => cur = e,
            None => {
              if i > 0 && (cur.single.len() > env.single.len() || cur.multi.len() > env.multi.len()) {
                self.stats.borrow_mut().failed_attempts_with_bindings += 1;
              }
              return None;
            }
          }
        }
        Some(cur)
      }
      GRule::Obj(v) => {
        let mut sorted: Vec<&GRule> = v.iter().collect();
        sorted.sort_by_key(|r| r.key_rank());
        let mut cur = env.clone();
        for (i, sub) in sorted.iter().enumerate() {
          match self.eval(sub, n, &cur) {
            Some(e) => cur = e,
            None => {
              if i > 0 && (cur.single.len() > env.single.len() || cur.multi.len() > env.multi.len()) {
                self.stats.borrow_mut().failed_attempts_with_bindings += 1;
              }
              return None;
            }
          }
        }
        Some(cur)
      }
      GRule::Any(v) => v.iter().find_map(|sub| self.eval(sub, n, env)),
      GRule::Not(sub) => match self.eval(sub, n, env) {
        Some(_) => None,
        None => Some(env.clone()),
      },
      GRule::Matches(name) => {
        if let Some(u) = self.utils.get(name) {
          self.eval(u, n, env)
        } else if let Some((rule, constraints)) = self.globals.get(name) {
          let mut cur = self.eval(rule, n, env)?;
          for (var, c) in constraints {
            if let Some(bound) = cur.single.get(var).cloned() {
              match self.eval(c, &bound, &cur) {
                Some(e) => cur = e,
                None => {
                  let mut st = self.stats.borrow_mut();
                  st.failed_attempts_with_bindings += 1;
                  if cur.single.len() > env.single.len() {
                    st.global_constraint_failures += 1;
                  }
                  return None;
                }
              }
            }
          }
          {
            let mut st = self.stats.borrow_mut();
            if st.global_constraint_failures > 0 && cur.single.len() > env.single.len() {
              st.global_success_after_failure += 1;
            }
          }
          Some(cur)
        } else {
          None
        }
      }
      GRule::Inside(rel) => {
        let mut path_child = n.clone();
        let mut cur = n.parent();
        let mut first = true;
        while let Some(a) = cur {
          if matches!(rel.stop, Stop::Neighbor) && !first {
            break;
          }
          first = false;
          let field_ok = match &rel.field {
            None => true,
            Some(f) => a
              .child_by_field_name(f.as_str())
              .map(|c| c.id() == path_child.id())
              .unwrap_or(false),
          };
          if field_ok {
            if let Some(e) = self.eval(&rel.rule, &a, env) {
              return Some(e);
            }
          }
          if let Stop::Rule(s) = &rel.stop {
            if self.holds(s, &a) {
              break;
            }
          }
          path_child = a.clone();
          cur = a.parent();
        }
        None
      }
      GRule::Has(rel) => {
        let roots: Vec<TsNode<'a>> = match &rel.field {
          None => tsutil::children(n),
          Some(f) => n.child_by_field_name(f.as_str()).into_iter().collect(),
        };
        for c in roots {
          if let Some(e) = self.has_search(rel, &c, env) {
            return Some(e);
          }
        }
        None
      }
      GRule::Precedes(rel) | GRule::Follows(rel) => {
        let forward = matches!(r, GRule::Precedes(_));
        let mut cur = if forward { n.next_sibling() } else { n.prev_sibling() };
        let mut first = true;
        while let Some(s) = cur {
          if matches!(rel.stop, Stop::Neighbor) && !first {
            break;
          }
          first = false;
          if let Some(e) = self.eval(&rel.rule, &s, env) {
            return Some(e);
          }
          if let Stop::Rule(st) = &rel.stop {
            if self.holds(st, &s) {
              break;
            }
          }
          cur = if forward { s.next_sibling() } else { s.prev_sibling() };
        }
        None
      }
    }
  }

  /// pre-order search rooted at `c` (inclusive) for `has`
  fn has_search(&self, rel: &Rel, c: &TsNode<'a>, env: &REnv<'a>) -> Option<REnv<'a>> {
    if let Some(e) = self.eval(&rel.rule, c, env) {
      return Some(e);
    }
    match &rel.stop {
      Stop::Neighbor => None,
      Stop::End => {
        for k in tsutil::children(c) {
          if let Some(e) = self.has_search(rel, &k, env) {
            return Some(e);
          }
        }
        None
      }
      Stop::Rule(s) => {
        if self.holds(s, c) {
          return None;
        }
        for k in tsutil::children(c) {
          if let Some(e) = self.has_search(rel, &k, env) {
            return Some(e);
          }
        }
        None
      }
    }
  }
}
