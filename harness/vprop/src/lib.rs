//! vprop — property-based checks for the 20 ast-grep properties in /verif/properties.jsonl.
pub mod cli;
pub mod engine;
pub mod fuzz;
pub mod gen;
pub mod langs;
pub mod tsutil;

pub mod c01;
pub mod c01cli;
pub mod c02;
pub mod c03;
pub mod c04;
pub mod c05;
pub mod c06;
pub mod c07;
pub mod rules;
pub mod c08;
pub mod c09;
pub mod c10;
pub mod lsp;
pub mod c11;
pub mod c12;
pub mod c13;
pub mod c14;
pub mod c15;
pub mod c16;
pub mod c17;
pub mod c18;
pub mod pat;
pub mod c19;
pub mod c20;

use engine::*;
use serde::de::DeserializeOwned;
use std::path::Path;

/// `--replay FILE`: run exactly that case through the oracle, strictly.
pub fn replay_main<C: DeserializeOwned>(
  cfg: &RunCfg,
  path: &Path,
  check: impl Fn(&C, &mut Stats) -> CheckResult,
) -> i32 {
  let rf = read_replay(path);
  match replay_case::<C>(&rf, check) {
    Ok(()) => {
      println!("replay {}: property {} held on this case", path.display(), cfg.prop);
      0
    }
    Err(f) => {
      println!("VIOLATION property={} replay={}", cfg.prop, path.display());
      println!("  signature: {}", f.signature);
      println!("  {}", f.message.replace('\n', "\n  "));
      1
    }
  }
}

/// Replay the witnesses of known / fixed findings at the start of every run.
pub fn replay_known<C: DeserializeOwned>(
  report: &mut Report,
  known: &Known,
  check: impl Fn(&C, &mut Stats) -> CheckResult,
) {
  replay_known_staged(report, known, "", false, check)
}

/// Same, for properties whose stages have different case types: only witnesses whose
/// replay file has `stage == stage` (want_match) or `stage != stage` (!want_match) are run.
pub fn replay_known_staged<C: DeserializeOwned>(
  report: &mut Report,
  known: &Known,
  stage: &str,
  want_match: bool,
  check: impl Fn(&C, &mut Stats) -> CheckResult,
) {
  // development aid for sensitivity runs: measure what the generators find without the witnesses
  let skip_fixed = std::env::var("VPROP_NO_WITNESS").is_ok();
  for e in &known.entries {
    if skip_fixed && e.status == "fixed" {
      continue;
    }
    let Some(w) = &e.witness else { continue };
    let path = crate::engine::verif_root().join(w);
    if path.exists() && !stage.is_empty() && (read_replay(&path).stage == stage) != want_match {
      continue;
    }
    if !path.exists() {
      report
        .inconclusive
        .push(format!("witness {} of known finding is missing", path.display()));
      continue;
    }
    let rf = read_replay(&path);
    let r = replay_case::<C>(&rf, &check);
    match (e.status.as_str(), r) {
      ("known", Err(f)) if f.signature == e.signature => {
        report.known_finding(format!("signature={} witness={} — {}", e.signature, w, e.what));
      }
      ("known", Err(f)) => {
        // the witness fails differently: that is a different violation
        report.violations.push((
          "known-witness".into(),
          Violation {
            signature: f.signature,
            message: format!("witness {w} of a known finding now fails differently: {}", f.message),
            case: rf.case.clone(),
          },
        ));
      }
      ("known", Ok(())) => {
        report.stats.note(format!(
          "known finding {} no longer reproduces on its witness {w}",
          e.signature
        ));
      }
      ("fixed", Err(f)) if known.tolerated(&f.signature) => {
        // the witness runs into a different, listed finding: not a regression of this one
        report.stats.label("fixed_witness_hits_other_known");
      }
      ("fixed", Err(f)) => {
        report.violations.push((
          "fixed-regression".into(),
          Violation {
            signature: f.signature,
            message: format!("regression of fixed finding ({}): {}", e.what, f.message),
            case: rf.case.clone(),
          },
        ));
      }
      _ => {
        report.stats.label("fixed_witness_ok");
      }
    }
  }
}
