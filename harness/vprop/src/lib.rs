pub fn x(){}
