//! C17 — files are processed independently, whatever the thread count or schedule.
use crate::cli::{self, TempDir};
use crate::engine::*;
use crate::fail;
use proptest::prelude::*;
use serde::{Deserialize, Serialize};
use serde_json::{json, Value};
use std::process::Command;

#[derive(Clone, Debug, Serialize, Deserialize, PartialEq, Eq, Hash)]
pub enum Kind {
  /// normal source made of these statement indices
  Source(Vec<u8>),
  Empty,
  InvalidUtf8,
  Oversized,
  Unreadable,
  DanglingSymlink,
  Directory,
}

#[derive(Clone, Debug, Serialize, Deserialize)]
pub struct Case {
  pub files: Vec<(String, Kind)>,
  /// true: `scan -r rule.yml`; false: `run -p 'foo($A)' -l js`
  pub scan: bool,
  pub threads: Vec<usize>,
  pub sched: Vec<u64>,
  /// pass `--follow`: symbolic links are followed, so a dangling one is an I/O error of the walk
  #[serde(default)]
  pub follow: bool,
  /// a project config whose languageGlobs send `*.view.js` to tsx: files of one extension then
  /// belong to two languages, by name
  #[serde(default)]
  pub lang_globs: bool,
}

#[derive(Clone, Debug)]
pub struct Choice {
  files: Vec<(u8, u8, Vec<u8>)>,
  scan: bool,
  threads: Vec<u8>,
  sched: Vec<u64>,
}

pub fn strategy(runs: usize) -> BoxedStrategy<Choice> {
  let file = (0u8..40, 0u8..8, prop::collection::vec(0u8..8, 1..12));
  (
    prop_oneof![3 => prop::collection::vec(file.clone(), 5..25), 1 => prop::collection::vec(file, 25..100)],
    any::<bool>(),
    prop::collection::vec(0u8..6, runs..=runs),
    prop::collection::vec(any::<u64>(), runs..=runs),
  )
    .prop_map(|(files, scan, threads, sched)| Choice { files, scan, threads, sched })
    .boxed()
}

const STMTS: &[&str] = &["foo(1);", "foo(\"é\");", "bar(2);", "foo(foo(3));", "let x = 1;", "// foo(9)", "baz(foo(4), 5);", "qux();"];
const THREADS: &[usize] = &[1, 2, 3, 4, 8, 16];

pub fn have_setpriv() -> bool {
  Command::new("setpriv").arg("--version").output().map(|o| o.status.success()).unwrap_or(false)
}

pub fn interpret(ch: &Choice, _st: &mut Stats) -> Option<Case> {
  let mut files = vec![];
  let mut seen = std::collections::BTreeSet::new();
  for (i, (k, d, stmts)) in ch.files.iter().enumerate() {
    let dir = ["", "src/", "src/a/", "src/a/b/", "lib/", "lib/x/", "t/", "u/v/"][*d as usize % 8];
    let (ext, kind) = match k {
      0 => ("js", Kind::Empty),
      1 => ("js", Kind::InvalidUtf8),
      2 => ("js", Kind::Unreadable),
      3 => ("js", Kind::DanglingSymlink),
      4 => ("js", Kind::Directory),
      5 if i % 7 == 0 => ("js", Kind::Oversized),
      6 | 7 => ("ts", Kind::Source(stmts.clone())),
      8 | 9 => ("html", Kind::Source(stmts.clone())),
      10 => ("txt", Kind::Source(stmts.clone())),
      11..=14 => ("view.js", Kind::Source(stmts.clone())),
      _ => ("js", Kind::Source(stmts.clone())),
    };
    let name = format!("{dir}f{i}.{ext}");
    if seen.insert(name.clone()) {
      files.push((name, kind));
    }
  }
  let unreadable = files.iter().any(|(_, k)| *k == Kind::Unreadable);
  if unreadable && !have_setpriv() {
    files.retain(|(_, k)| *k != Kind::Unreadable);
  }
  Some(Case {
    files,
    scan: ch.scan,
    follow: ch.sched.first().map(|s| s % 3 == 1).unwrap_or(false),
    lang_globs: ch.sched.get(1).map(|s| s % 2 == 0).unwrap_or(false),
    threads: ch.threads.iter().map(|t| THREADS[*t as usize % THREADS.len()]).collect(),
    sched: ch.sched.clone(),
  })
}

fn content(name: &str, stmts: &[u8]) -> String {
  let body: String = stmts.iter().map(|s| STMTS[*s as usize % STMTS.len()]).collect::<Vec<_>>().join("\n");
  if name.ends_with(".html") {
    format!("<div>\n<script>\n{body}\n</script>\n</div>\n")
  } else {
    format!("{body}\n")
  }
}

fn materialise(case: &Case) -> TempDir {
  let dir = TempDir::new("c17");
  for (name, kind) in &case.files {
    let rel = format!("tree/{name}");
    match kind {
      Kind::Source(s) => {
        dir.write(&rel, content(name, s).as_bytes());
      }
      Kind::Empty => {
        dir.write(&rel, b"");
      }
      Kind::InvalidUtf8 => {
        dir.write(&rel, b"foo(1);\n\xff\xfe\xfa foo(2);\n");
      }
      Kind::Oversized => {
        let mut big = String::with_capacity(3_400_000);
        for _ in 0..210_000 {
          big.push_str("foo(1); // pad\n");
        }
        dir.write(&rel, big.as_bytes());
      }
      Kind::Unreadable => {
        let p = dir.write(&rel, b"foo(1);\n");
        let _ = Command::new("chmod").arg("000").arg(&p).output();
      }
      Kind::DanglingSymlink => {
        let p = dir.path.join(&rel);
        if let Some(d) = p.parent() {
          let _ = std::fs::create_dir_all(d);
        }
        let _ = std::os::unix::fs::symlink("/nonexistent/target.js", &p);
      }
      Kind::Directory => {
        let _ = std::fs::create_dir_all(dir.path.join(&rel));
      }
    }
  }
  dir.write(
    "rule.yml",
    b"id: r-foo\nlanguage: JavaScript\nseverity: error\nmessage: found $A\nrule:\n  pattern: foo($A)\n---\nid: r-bar\nlanguage: JavaScript\nseverity: warning\nrule:\n  pattern: bar($$$)\nfix: baz()\n",
  );
  if case.lang_globs {
    dir.write("sgconfig.yml", b"ruleDirs: [norules]\nlanguageGlobs:\n  tsx: ['*.view.js']\n");
  }
  // the unprivileged user must be able to traverse the tree
  let _ = Command::new("chmod").arg("-R").arg("a+rX").arg(dir.path.join("tree")).output();
  for (name, kind) in &case.files {
    if *kind == Kind::Unreadable {
      let _ = Command::new("chmod").arg("000").arg(dir.path.join(format!("tree/{name}"))).output();
    }
  }
  dir
}

fn run_sg(case: &Case, dir: &TempDir, target: &str, threads: usize, sched: Option<u64>, unprivileged: bool) -> cli::Out {
  run_sg_stall(case, dir, target, threads, sched, unprivileged, None)
}

/// `stall`: with the hook, about one file in eight is held back that many milliseconds before
/// it is processed (a slow file)
fn run_sg_stall(case: &Case, dir: &TempDir, target: &str, threads: usize, sched: Option<u64>, unprivileged: bool, stall: Option<u64>) -> cli::Out {
  let j = threads.to_string();
  let mut args: Vec<String> = if case.scan {
    vec!["scan".into(), "-r".into(), "rule.yml".into()]
  } else {
    vec!["run".into(), "--pattern=foo($A)".into(), "-l".into(), "js".into()]
  };
  args.extend(["--json=stream".to_string(), "--inspect".into(), "summary".into(), "-j".into(), j]);
  if case.follow {
    args.push("--follow".into());
  }
  args.push(target.to_string());
  let mut cmd = if unprivileged {
    let mut c = Command::new("setpriv");
    c.args(["--reuid=65534", "--regid=65534", "--clear-groups"]).arg(cli::sgv_path());
    c
  } else {
    Command::new(cli::sgv_path())
  };
  cmd.args(&args).current_dir(&dir.path);
  if let Some(s) = sched {
    cmd.env("AST_GREP_VERIF_SCHED", s.to_string());
    if let Some(ms) = stall {
      cmd.env("AST_GREP_VERIF_SCHED_STALL", ms.to_string());
    }
  }
  let out = cli::run_cmd(cmd, None, cli::WATCHDOG);
  if out.timed_out {
    let mut cmd2 = Command::new(cli::sgv_path());
    cmd2.args(&args).current_dir(&dir.path);
    return cli::run_cmd(cmd2, None, cli::WATCHDOG * 3);
  }
  out
}

type Rec = (String, String, u64, u64, String);

fn records(out: &cli::Out) -> Result<Vec<Rec>, String> {
  let mut v: Vec<Rec> = out
    .json_lines()?
    .iter()
    .map(|r: &Value| {
      (
        cli::norm_path(r["file"].as_str().unwrap_or("")),
        r.get("ruleId").and_then(|x| x.as_str()).unwrap_or("").to_string(),
        r["range"]["byteOffset"]["start"].as_u64().unwrap_or(0),
        r["range"]["byteOffset"]["end"].as_u64().unwrap_or(0),
        r["text"].as_str().unwrap_or("").to_string(),
      )
    })
    .collect();
  v.sort();
  Ok(v)
}

pub fn check(case: &Case, st: &mut Stats) -> CheckResult {
  let dir = materialise(case);
  let unprivileged = case.files.iter().any(|(_, k)| *k == Kind::Unreadable);
  // ---- reference: every file alone, single-threaded
  let mut reference: Vec<Rec> = vec![];
  let mut ref_error = false;
  for (name, kind) in &case.files {
    if matches!(kind, Kind::DanglingSymlink | Kind::Directory) {
      continue;
    }
    if !(name.ends_with(".js") || name.ends_with(".html")) {
      // not a file of the walked language when given a directory root
      continue;
    }
    let out = run_sg(case, &dir, &format!("tree/{name}"), 1, None, unprivileged);
    if out.timed_out {
      return Err(Fail::new("inconclusive:watchdog", "single-file run did not finish"));
    }
    let recs = records(&out).map_err(|e| Fail::new("C17:single-file-json", e))?;
    if !matches!(kind, Kind::Source(_)) && !recs.is_empty() {
      fail!("C17:fault-file-produces-findings", "fault file {name} ({kind:?}) produced findings when scanned alone");
    }
    if case.scan && recs.iter().any(|r| r.1 == "r-foo") {
      ref_error = true;
    }
    reference.extend(recs);
  }
  reference.sort();
  let walked: Vec<&(String, Kind)> = case
    .files
    .iter()
    .filter(|(n, k)| (n.ends_with(".js") || n.ends_with(".html")) && !matches!(k, Kind::DanglingSymlink | Kind::Directory))
    .collect();
  let want_scanned = walked.len();
  let want_skipped = walked.iter().filter(|(_, k)| !matches!(k, Kind::Source(_))).count();
  // ---- the whole tree under several thread counts / schedules
  let mut seen_reorder = false;
  for (i, (threads, sched)) in case.threads.iter().zip(case.sched.iter()).enumerate() {
    let use_sched = i % 3 != 2;
    // one run of some trees has slow files: nothing reaches the printer for more than a second
    // (small trees only, the stalls add up on one thread)
    let stall = (i == 1 && sched % 3 == 0 && walked.len() <= 24).then_some(1200u64);
    if stall.is_some() {
      st.label("run_with_stalled_files");
    }
    let out = run_sg_stall(case, &dir, "tree", *threads, use_sched.then_some(*sched), unprivileged, stall);
    if out.timed_out {
      fail!("C17:hang", "sg did not terminate on the tree with -j {threads} (schedule seed {sched})");
    }
    if out.panicked() {
      fail!("C17:panic", "sg panicked with -j {threads}: {}", out.stderr_str().chars().take(300).collect::<String>());
    }
    st.eval();
    let recs = match records(&out) {
      Ok(r) => r,
      Err(e) => fail!("C17:malformed-output", "-j {threads}: {e}"),
    };
    // order in which files appear in the output vs. path order (a completion order different
    // from the walk order is what makes the schedule interesting)
    let order: Vec<String> = out
      .json_lines()
      .unwrap_or_default()
      .iter()
      .map(|r| r["file"].as_str().unwrap_or("").to_string())
      .collect();
    let mut dedup = order.clone();
    dedup.dedup();
    let mut sorted = dedup.clone();
    sorted.sort();
    if dedup != sorted {
      seen_reorder = true;
    }
    if recs != reference {
      let missing: Vec<&Rec> = reference.iter().filter(|r| !recs.contains(r)).take(4).collect();
      let extra: Vec<&Rec> = recs.iter().filter(|r| !reference.contains(r)).take(4).collect();
      let dup = recs.windows(2).any(|w| w[0] == w[1]);
      fail!(
        if dup { "C17:duplicate-records" } else if !missing.is_empty() { "C17:missing-findings" } else { "C17:extra-findings" },
        "-j {threads} (schedule {:?}): {} records vs {} from file-by-file runs; missing {:?}; extra {:?}",
        use_sched.then_some(sched),
        recs.len(),
        reference.len(),
        missing,
        extra
      );
    }
    if case.scan {
      let error_exit = out.status != Some(0);
      if error_exit != ref_error {
        fail!("C17:exit-status", "-j {threads}: exit status {:?} but error findings present = {ref_error}", out.status);
      }
    }
    // each eligible file accounted for exactly once
    let err = out.stderr_str();
    let re = regex::Regex::new(r"scannedFileCount=(\d+),skippedFileCount=(\d+)").unwrap();
    match re.captures(&err) {
      Some(c) => {
        let got = (c[1].parse::<usize>().unwrap_or(0), c[2].parse::<usize>().unwrap_or(0));
        if got != (want_scanned, want_skipped) {
          fail!(
            "C17:file-accounting",
            "-j {threads}: summary reports scanned={} skipped={}, the tree has {want_scanned} regular files of the walked types of which {want_skipped} are empty / invalid / oversized / unreadable",
            got.0,
            got.1
          );
        }
      }
      None => fail!("C17:no-summary", "no `--inspect summary` line on stderr: {}", err.chars().take(200).collect::<String>()),
    }
    st.label(&format!("threads_{threads}"));
  }
  if case.lang_globs && case.files.iter().any(|(n, _)| n.ends_with(".view.js")) {
    st.label("one_extension_two_languages(languageGlobs)");
  }
  for (_, k) in &case.files {
    match k {
      Kind::Source(_) => {}
      other => st.label(&format!("fault_{other:?}")),
    }
  }
  if seen_reorder {
    st.label("completion_order_differs_from_path_order");
  }
  let matching_files = reference.iter().map(|r| &r.0).collect::<std::collections::BTreeSet<_>>().len();
  if matching_files >= 8 && case.threads.iter().any(|t| *t >= 2) {
    st.label("nontrivial");
    st.nontrivial(&(&case.files, case.scan, &case.threads, &case.sched));
    if st.wants_sample() {
      st.sample(json!({"files": case.files.len(), "matching_files": matching_files, "scan": case.scan, "threads": case.threads, "schedule_seeds": case.sched,
        "faults": case.files.iter().filter(|(_, k)| !matches!(k, Kind::Source(_))).map(|(n, k)| format!("{n}: {k:?}")).collect::<Vec<_>>() }));
    }
  }
  Ok(())
}

pub fn run(cfg: &RunCfg) -> i32 {
  let mut report = Report::new(
    cfg,
    "case = directory tree of 5-99 files (JavaScript, TypeScript, HTML hosts, foreign files; faults: empty, invalid UTF-8, > 3 MB and > 200k lines, mode 000 under an unprivileged uid, dangling symlink, directory named like a source file) given as one root to `run -p foo($A) -l js` or `scan -r rule.yml`, in half of the cases inside a project whose languageGlobs send `*.view.js` to tsx (one extension, two languages), with 6 (quick) / 12 (thorough) runs per tree over --threads in {1,2,3,4,8,16}; two thirds of the runs use the cfg(ast_grep_verif) hook to delay producers by a generated schedule seed. Reference = union of single-file, single-thread runs. Per run: well-formed JSON stream, record multiset equal to the reference (no loss, no duplicate), exit status, and the --inspect summary accounting for every eligible file exactly once. evaluations = tree runs. Non-trivial = distinct case with >= 8 matching files and >= 2 threads.",
  );
  report.assume("the harness perturbs producer timing and thread counts; it does not enumerate interleavings nor control the OS scheduler");
  report.assume("mode-000 files are exercised with `setpriv --reuid=65534` when available");
  let known = Known::load(&cfg.prop);
  if let Some(path) = &cfg.replay {
    return crate::replay_main::<Case>(cfg, path, check);
  }
  crate::replay_known::<Case>(&mut report, &known, check);
  let thorough = cfg.tier == Tier::Thorough;
  let runs = if thorough { 12 } else { 6 };
  let total = cfg.budget(120, 5_000);
  let o = drive(cfg, "trees", total, &known, || strategy(runs), interpret, check);
  report.absorb("trees", o);
  cli::cleanup_work_root();
  report.finish()
}
