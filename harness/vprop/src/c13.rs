//! C13 — results do not depend on map order, hash seeds, repetition or file order.
use crate::cli::{self, TempDir};
use crate::engine::*;
use crate::fail;
use proptest::prelude::*;
use serde::{Deserialize, Serialize};
use serde_json::{json, Value};
use serde_yaml::{Mapping, Value as Y};
use std::collections::BTreeMap;

#[derive(Clone, Debug, Serialize, Deserialize)]
pub struct Case {
  /// rule templates in use (indices into TEMPLATES)
  pub rules: Vec<usize>,
  pub source: String,
  /// permutation seeds of the metamorphic variants (variant 0 = canonical order)
  pub perms: Vec<u64>,
  pub launches: usize,
  /// generated rule documents (id, YAML): utility graphs, overlapping fixable rules
  #[serde(default)]
  pub extra_docs: Vec<(String, String)>,
  /// HTML hosts (attribute + script holding the source) next to the two JavaScript files: files
  /// with several documents, each with its own fixes
  #[serde(default)]
  pub html_files: usize,
}

#[derive(Clone, Debug)]
pub struct Choice {
  rules: Vec<u8>,
  stmts: Vec<(u8, u8, u8)>,
  perms: Vec<u64>,
  extra: Vec<u8>,
}

pub fn strategy(perms: usize) -> BoxedStrategy<Choice> {
  (
    prop::collection::vec(0u8..8, 2..=5),
    prop::collection::vec((0u8..8, 0u8..7, 0u8..7), 2..8),
    prop::collection::vec(any::<u64>(), perms..=perms),
    prop::collection::vec(any::<u8>(), 24..=24),
  )
    .prop_map(|(rules, stmts, perms, extra)| Choice { rules, stmts, perms, extra })
    .boxed()
}

const ATOMS: &[&str] = &["1", "x", "\"s\"", "y", "22", "bar(3)", "x"];

fn stmt(k: u8, a: u8, b: u8) -> String {
  let x = ATOMS[a as usize % ATOMS.len()];
  let y = ATOMS[b as usize % ATOMS.len()];
  match k {
    0 | 1 => format!("foo({x}, {y});"),
    2 => format!("foo({x});"),
    3 => format!("bar({x}, {y}, {x});"),
    4 => format!("user_account_name({x});"),
    5 => format!("foo({y}, {x}, {y});"),
    6 => format!("baz([{x}, {y}]);"),
    _ => format!("qux(foo({x}, {y}));"),
  }
}

/// rule documents as ordered maps: (id, top-level key/value pairs); maps named in PERMUTABLE get
/// their keys permuted
fn templates() -> Vec<(&'static str, &'static str)> {
  vec![
    (
      "shared-constraint-var",
      r#"
id: shared-constraint-var
language: JavaScript
message: "$A | $B | $X"
rule: {pattern: "foo($A, $B)"}
constraints:
  A: {any: [{pattern: $X}, {kind: number}]}
  B: {any: [{pattern: $X}, {kind: identifier}]}
"#,
    ),
    (
      "util-diamond",
      r#"
id: util-diamond
language: JavaScript
message: "has literal in $$$ARGS"
rule:
  pattern: foo($$$ARGS)
  has: {matches: u1, stopBy: end}
utils:
  u1: {matches: u2}
  u2: {any: [{matches: u3}, {matches: u4}]}
  u3: {kind: number}
  u4: {kind: string}
  u5: {all: [{matches: u3}, {regex: "^2"}]}
"#,
    ),
    (
      "transform-chain",
      r#"
id: transform-chain
language: JavaScript
message: "$T1 $T2 $T3"
rule: {pattern: "user_account_name($A)"}
transform:
  T1: {substring: {source: $A, startChar: 0, endChar: 3}}
  T2: {replace: {source: $T1, replace: "[a-z]", by: "z"}}
  T3: {convert: {source: $T2, toCase: upperCase}}
  T4: {replace: {source: $T3, replace: "Z", by: "q"}}
fix: "f($T1, $T2, $T3, $T4)"
"#,
    ),
    (
      "rewriters",
      r#"
id: rewriters
language: JavaScript
message: "rewritten $NEW"
rule: {pattern: "bar($$$ARGS)"}
rewriters:
- id: num
  rule: {kind: number}
  fix: "N"
- id: ident
  rule: {kind: identifier}
  fix: "I"
- id: str
  rule: {kind: string}
  fix: "S"
transform:
  NEW: {rewrite: {source: $$$ARGS, rewriters: [num, ident, str], joinBy: "+"}}
  LOW: {convert: {source: $NEW, toCase: lowerCase}}
fix: "bar($NEW, $LOW)"
"#,
    ),
    (
      "many-constraints",
      r#"
id: many-constraints
language: JavaScript
message: "$A $B $C"
rule: {pattern: "foo($A, $B, $C)"}
constraints:
  A: {kind: identifier}
  B: {any: [{kind: number}, {kind: identifier}]}
  C: {regex: "^[a-z0-9]+$"}
"#,
    ),
    (
      "constraint-binds-in-both",
      r#"
id: constraint-binds-in-both
language: JavaScript
message: "$F: $Y / $Z"
rule: {pattern: "$F($Y, $Z)"}
constraints:
  Y: {any: [{pattern: $W}, {kind: string}]}
  Z: {any: [{pattern: $W}, {kind: number}]}
  F: {regex: "^(foo|qux)$"}
fix: "$F($Z, $Y, $W)"
"#,
    ),
    (
      // several secondary labels per match (inside + has + a second has): their order in the
      // test snapshot must not depend on the process
      "labels",
      r#"
id: labels
language: JavaScript
message: "labelled call"
rule:
  pattern: foo($$$ARGS)
  inside: {kind: expression_statement, stopBy: end}
  has: {kind: arguments, has: {kind: number}}
"#,
    ),
    (
      "labels-all",
      r#"
id: labels-all
language: JavaScript
message: "labelled args"
rule:
  all:
  - kind: arguments
  - has: {kind: identifier}
  - has: {kind: number}
  - inside: {kind: call_expression}
"#,
    ),
  ]
}


/// A rule whose kinds come from a generated graph of local utilities: 2-5 utilities, each refers
/// to later ones (acyclic) from inside any / all / not or, sometimes, by a top-level `matches`.
fn util_graph_doc(e: &[u8]) -> (String, String) {
  let n = 2 + e[0] as usize % 4;
  let kinds = ["number", "string", "identifier", "call_expression", "array", "true"];
  let mut utils = String::new();
  for i in 0..n {
    let k = kinds[e[1 + i] as usize % kinds.len()];
    let later = |j: usize| i + 1 + (e[6 + i + j] as usize % (n - i - 1).max(1));
    let body = if i + 1 >= n {
      format!("{{kind: {k}}}")
    } else {
      match e[12 + i] % 6 {
        0 => format!("{{any: [{{kind: {k}}}, {{matches: v{}}}]}}", later(0)),
        1 => format!("{{any: [{{matches: v{}}}, {{matches: v{}}}, {{kind: {k}}}]}}", later(0), later(1)),
        2 => format!("{{all: [{{any: [{{kind: {k}}}, {{matches: v{}}}]}}, {{regex: \"^.\"}}]}}", later(0)),
        3 => format!("{{kind: {k}, not: {{matches: v{}}}}}", later(0)),
        4 => format!("{{matches: v{}}}", later(0)),
        _ => format!("{{any: [{{kind: {k}}}, {{all: [{{matches: v{}}}]}}]}}", later(0)),
      }
    };
    utils.push_str(&format!("  v{i}: {body}\n"));
  }
  let rule = match e[18] % 3 {
    0 => "{matches: v0, inside: {kind: arguments, stopBy: end}}".to_string(),
    1 => "{matches: v0}".to_string(),
    _ => "{any: [{matches: v0}, {kind: number}], inside: {pattern: \"foo($$$)\", stopBy: end}}".to_string(),
  };
  let id = format!("util-graph-{}", e[19] % 3);
  (id.clone(), format!("id: {id}\nlanguage: JavaScript\nmessage: \"graph\"\nrule: {rule}\nutils:\n{utils}"))
}

/// Fixable rules whose matches overlap on the generated statements; ids are chosen so that the
/// alphabetical order differs from the order of the documents
fn overlapping_fix_docs(e: &[u8]) -> Vec<(String, String)> {
  let pool = [
    ("pattern: \"foo($$$ARGS)\"", "fa($$$ARGS)"),
    ("pattern: \"foo($A, $B)\"", "fb($B, $A)"),
    ("{kind: call_expression, regex: \"^(foo|qux)\"}", "q()"),
    ("pattern: \"$F($$$X)\"", "g($$$X)"),
    ("{kind: number}", "0"),
    ("{kind: arguments, has: {kind: number}}", "(n)"),
  ];
  let ids = ["zz-late", "aa-early", "mm-middle", "b", "Z-upper"];
  let n = 2 + e[0] as usize % 2;
  (0..n)
    .map(|i| {
      let (rule, fix) = pool[e[1 + i] as usize % pool.len()];
      let id = format!("{}-{i}", ids[e[4 + i] as usize % ids.len()]);
      let rule = if rule.starts_with('{') { rule.to_string() } else { format!("{{{rule}}}") };
      (id.clone(), format!("id: {id}\nlanguage: JavaScript\nmessage: \"fixable {i}\"\nrule: {rule}\nfix: \"{fix}\"\n"))
    })
    .collect()
}

/// Two different rules that carry the same id (a copied rule that was not renamed): both apply,
/// whatever the order of documents and files. They have no fix and get no test file.
fn same_id_docs(e: &[u8]) -> Vec<(String, String)> {
  let pool = ["{kind: number}", "{kind: string}", "{pattern: \"baz($$$)\"}", "{kind: identifier, regex: \"^x$\"}", "{kind: array}"];
  let a = e[0] as usize % pool.len();
  let b = (a + 1 + e[1] as usize % (pool.len() - 1)) % pool.len();
  let id = SAME_ID.to_string();
  [a, b]
    .iter()
    .enumerate()
    .map(|(i, k)| (id.clone(), format!("id: {id}\nlanguage: JavaScript\nseverity: {}\nmessage: \"copy {i}\"\nrule: {}\n", ["warning", "error"][(e[2] as usize + i) % 2], pool[*k])))
    .collect()
}

const SAME_ID: &str = "copied-rule";

const PERMUTABLE: &[&str] = &["utils", "transform", "constraints", "rewriters"];

fn shuffle<T>(v: &mut [T], seed: u64, tag: &str) {
  // deterministic Fisher-Yates driven by the fingerprint function
  for i in (1..v.len()).rev() {
    let j = (fingerprint(&(seed, tag, i as u64)) % (i as u64 + 1)) as usize;
    v.swap(i, j);
  }
}

fn permute_doc(doc: &Y, seed: u64) -> Y {
  let Y::Mapping(m) = doc else { return doc.clone() };
  let mut out = Mapping::new();
  let mut top: Vec<(Y, Y)> = m.iter().map(|(k, v)| (k.clone(), v.clone())).collect();
  if seed != 0 {
    shuffle(&mut top, seed, "top");
  }
  for (k, v) in top {
    let key = k.as_str().unwrap_or("");
    let v = if seed != 0 && PERMUTABLE.contains(&key) {
      match v {
        Y::Mapping(mm) => {
          let mut items: Vec<(Y, Y)> = mm.into_iter().collect();
          shuffle(&mut items, seed, key);
          Y::Mapping(items.into_iter().collect())
        }
        Y::Sequence(mut s) => {
          shuffle(&mut s, seed, key);
          Y::Sequence(s)
        }
        other => other,
      }
    } else {
      v
    };
    out.insert(k, v);
  }
  Y::Mapping(out)
}

pub fn interpret(ch: &Choice, _st: &mut Stats) -> Option<Case> {
  let mut rules: Vec<usize> = ch.rules.iter().map(|r| *r as usize % templates().len()).collect();
  rules.sort();
  rules.dedup();
  let source = ch.stmts.iter().map(|(k, a, b)| stmt(*k, *a, *b)).collect::<Vec<_>>().join("\n") + "\n";
  let mut perms = vec![0u64];
  perms.extend(ch.perms.iter().map(|p| p | 1));
  let mut extra_docs = vec![];
  if ch.extra[20] % 3 != 0 {
    extra_docs.push(util_graph_doc(&ch.extra[..20]));
  }
  if ch.extra[21] % 3 != 0 {
    extra_docs.extend(overlapping_fix_docs(&ch.extra[8..]));
  }
  if ch.extra[22] % 3 == 0 {
    extra_docs.extend(same_id_docs(&ch.extra[..8]));
  }
  let html_files = if ch.extra[23] % 2 == 0 { 3 + ch.extra[23] as usize % 6 } else { 0 };
  if html_files > 0 {
    extra_docs.push(("html-attr".to_string(), "id: html-attr\nlanguage: Html\nmessage: \"attribute\"\nrule: {kind: attribute_value}\nfix: changed\n".to_string()));
  }
  Some(Case {
    rules,
    source,
    perms,
    launches: 0,
    extra_docs,
    html_files,
  })
}

fn materialise(case: &Case, seed: u64) -> TempDir {
  let dir = TempDir::new("c13");
  dir.write("sgconfig.yml", b"ruleDirs:\n- rules\ntestConfigs:\n- testDir: tests\n");
  let t = templates();
  let mut docs: Vec<(String, Y)> = case
    .rules
    .iter()
    .map(|i| {
      let y: Y = serde_yaml::from_str(t[*i].1).expect("template yaml");
      (t[*i].0.to_string(), permute_doc(&y, seed))
    })
    .collect();
  for (id, y) in &case.extra_docs {
    let y: Y = serde_yaml::from_str(y).expect("generated yaml");
    docs.push((id.clone(), permute_doc(&y, seed)));
  }
  if seed != 0 {
    shuffle(&mut docs, seed, "docs");
  }
  // distribute over 1-3 files, names permuted too
  let mut names = vec!["a.yml", "m.yml", "z.yml"];
  if seed != 0 {
    shuffle(&mut names, seed, "names");
  }
  let mut files: BTreeMap<&str, Vec<String>> = BTreeMap::new();
  for (i, (_, d)) in docs.iter().enumerate() {
    files.entry(names[i % names.len()]).or_default().push(serde_yaml::to_string(d).unwrap());
  }
  for (n, ds) in files {
    dir.write(&format!("rules/{n}"), ds.join("---\n").as_bytes());
  }
  write_sources(&dir, case);
  for (id, _) in &docs {
    if id == SAME_ID || id == "html-attr" {
      continue;
    }
    let mut m = Mapping::new();
    m.insert("id".into(), Y::String(id.clone()));
    m.insert("invalid".into(), Y::Sequence(case.source.lines().map(|l| Y::String(l.to_string())).collect()));
    // lines that do not match are reported as noisy/missing by `sg test`; keep only matching ones later
    dir.write(&format!("tests/{id}-test.yml"), serde_yaml::to_string(&Y::Mapping(m)).unwrap().as_bytes());
  }
  dir
}

fn source_files(case: &Case) -> Vec<(String, String)> {
  let mut v = vec![("src/a.js".to_string(), case.source.clone()), ("src/deep/b.js".to_string(), case.source.clone())];
  for i in 0..case.html_files {
    v.push((
      format!("src/{}p{i}.html", ["", "deep/", "w/"][i % 3]),
      format!("<div title=\"t{i}\">\n<script>\n{}</script>\n<p class=\"c{i}\">x</p>\n</div>\n", case.source),
    ));
  }
  v
}

fn write_sources(dir: &TempDir, case: &Case) {
  for (n, t) in source_files(case) {
    dir.write(&n, t.as_bytes());
  }
}

fn read_sources(dir: &TempDir, case: &Case) -> Vec<(String, Vec<u8>)> {
  source_files(case).into_iter().map(|(n, _)| (n.clone(), dir.read(&n).unwrap_or_default())).collect()
}

fn normalised_scan(dir: &TempDir) -> Result<(Vec<Value>, Option<i32>), Fail> {
  let out = cli::sgv(&["scan", "--json=stream"], &dir.path, None);
  if out.timed_out {
    return Err(Fail::new("inconclusive:watchdog", "sgv scan did not finish"));
  }
  if out.panicked() {
    return Err(Fail::new("C13:cli-panic", out.stderr_str()));
  }
  let mut recs = out.json_lines().map_err(|e| Fail::new("C13:json", e))?;
  recs.sort_by_key(|r| {
    (
      r["file"].as_str().unwrap_or("").to_string(),
      r["ruleId"].as_str().unwrap_or("").to_string(),
      r["range"]["byteOffset"]["start"].as_u64().unwrap_or(0),
      r["range"]["byteOffset"]["end"].as_u64().unwrap_or(0),
      // records of two rules with one id on one node: the whole record decides
      r.to_string(),
    )
  });
  Ok((recs, out.status))
}

fn first_difference(a: &[Value], b: &[Value]) -> String {
  if a.len() != b.len() {
    return format!("{} vs {} records", a.len(), b.len());
  }
  for (x, y) in a.iter().zip(b) {
    if x != y {
      let keys: Vec<&String> = x.as_object().map(|o| o.keys().filter(|k| x[*k] != y[*k]).collect()).unwrap_or_default();
      return format!(
        "rule {} at {}: fields {:?} differ: {} vs {}",
        x["ruleId"],
        x["range"]["byteOffset"],
        keys,
        keys.first().map(|k| x[*k].to_string()).unwrap_or_default().chars().take(200).collect::<String>(),
        keys.first().map(|k| y[*k].to_string()).unwrap_or_default().chars().take(200).collect::<String>()
      );
    }
  }
  "no difference".into()
}

fn snapshot_digest(dir: &TempDir) -> BTreeMap<String, u64> {
  let mut out = BTreeMap::new();
  if let Ok(rd) = std::fs::read_dir(dir.path.join("tests/__snapshots__")) {
    for e in rd.flatten() {
      if let Ok(b) = std::fs::read(e.path()) {
        out.insert(e.file_name().to_string_lossy().into_owned(), fingerprint(&b));
      }
    }
  }
  out
}

pub fn check(case: &Case, st: &mut Stats) -> CheckResult {
  let launches = if case.launches == 0 { 4 } else { case.launches };
  let mut reference: Option<(Vec<Value>, Option<i32>)> = None;
  let mut snap_ref: Option<BTreeMap<String, u64>> = None;
  let mut update_ref: Option<Vec<(String, Vec<u8>)>> = None;
  for (pi, seed) in case.perms.iter().enumerate() {
    let dir = materialise(case, *seed);
    for k in 0..launches {
      let got = normalised_scan(&dir)?;
      st.eval();
      match &reference {
        None => reference = Some(got),
        Some(r) => {
          if r.0 != got.0 || r.1 != got.1 {
            let which = if pi == 0 { "relaunch" } else { "permuted-project" };
            let diff = first_difference(&r.0, &got.0);
            let shared_var = diff.contains("shared-constraint-var") || diff.contains("constraint-binds-in-both");
            fail!(
              if shared_var { format!("C13:{which}:constraints-binding-a-shared-variable") } else { format!("C13:{which}") },
              "scan output differs between launches (variant {pi}, launch {k}): {diff}\nexit {:?} vs {:?}",
              r.1,
              got.1
            );
          }
        }
      }
    }
    // snapshots: -U, then test must pass, and regenerated snapshots are byte-identical
    for rep in 0..2 {
      let _ = std::fs::remove_dir_all(dir.path.join("tests/__snapshots__"));
      let out = cli::sgv(&["test", "-U"], &dir.path, None);
      if out.timed_out {
        return Err(Fail::new("inconclusive:watchdog", "sgv test -U did not finish"));
      }
      let out2 = cli::sgv(&["test"], &dir.path, None);
      if out2.timed_out {
        return Err(Fail::new("inconclusive:watchdog", "sgv test did not finish"));
      }
      let d = snapshot_digest(&dir);
      // `sg test` may legitimately fail because some invalid lines do not match (noisy cases);
      // what is claimed: after -U a second run agrees with the first about every snapshot
      let out3 = cli::sgv(&["test", "-U"], &dir.path, None);
      let d2 = snapshot_digest(&dir);
      if d != d2 {
        fail!("C13:snapshot-not-stable", "snapshot files changed on a second `sg test -U` (variant {pi}, repetition {rep}); status {:?}/{:?}/{:?}", out.status, out2.status, out3.status);
      }
      match &snap_ref {
        None => snap_ref = Some(d),
        Some(r) => {
          if *r != d {
            let changed: Vec<&String> = r.keys().filter(|k| r.get(*k) != d.get(*k)).collect();
            let shared = changed.iter().any(|k| k.contains("shared-constraint-var") || k.contains("constraint-binds-in-both"));
            fail!(
              if shared { "C13:snapshots-differ:constraints-binding-a-shared-variable" } else { "C13:snapshots-differ" },
              "snapshot files differ between runs / permuted projects (variant {pi}, repetition {rep}): {:?}",
              changed
            );
          }
        }
      }
      st.label("snapshot_rounds");
    }
    // `scan -U`: the bytes written must not depend on the variant or the launch
    let reps = if pi == 0 { 2 } else { 1 };
    for rep in 0..reps {
      write_sources(&dir, case);
      // hosts with several documents: more than one worker, producers delayed by the hook
      let sched = seed.wrapping_add(rep as u64).to_string();
      let out = if case.html_files > 0 {
        cli::sgv_env(&["scan", "-U", "-j", ["2", "4", "8"][(*seed as usize + rep) % 3]], &dir.path, None, &[("AST_GREP_VERIF_SCHED", sched.as_str())])
      } else {
        cli::sgv(&["scan", "-U"], &dir.path, None)
      };
      if out.timed_out {
        return Err(Fail::new("inconclusive:watchdog", "sgv scan -U did not finish"));
      }
      if out.panicked() {
        return Err(Fail::new("C13:cli-panic", out.stderr_str()));
      }
      let written = read_sources(&dir, case);
      match &update_ref {
        None => update_ref = Some(written),
        Some(r) => {
          if *r != written {
            let which = if pi == 0 { "relaunch" } else { "permuted-project" };
            fail!(
              format!("C13:{which}:update-all-result-differs"),
              "`scan -U` writes different bytes (variant {pi}, repetition {rep}):\n--- reference\n{}\n--- this run\n{}\nrules: {:?}",
              r.iter().zip(&written).find(|(x, y)| x != y).map(|(x, _)| format!("{}:\n{}", x.0, String::from_utf8_lossy(&x.1))).unwrap_or_default(),
              r.iter().zip(&written).find(|(x, y)| x != y).map(|(_, y)| String::from_utf8_lossy(&y.1).into_owned()).unwrap_or_default(),
              case.extra_docs.iter().map(|(i, _)| i).collect::<Vec<_>>()
            );
          }
        }
      }
      st.label("update_all_rounds");
    }
  }
  st.label("cases");
  let findings = reference.as_ref().map(|r| r.0.len()).unwrap_or(0);
  let interdependent = case.rules.iter().any(|r| matches!(r, 0 | 1 | 2 | 3 | 5)) || !case.extra_docs.is_empty();
  if interdependent && findings > 0 {
    st.label("nontrivial");
    st.nontrivial(&(&case.rules, &case.source, &case.perms));
    if st.wants_sample() {
      st.sample(json!({"rules": case.rules.iter().map(|i| templates()[*i].0).collect::<Vec<_>>(), "source": case.source, "variants": case.perms.len(), "launches_per_variant": launches, "findings": findings}));
    }
  }
  Ok(())
}

pub fn run(cfg: &RunCfg) -> i32 {
  let mut report = Report::new(
    cfg,
    "case = JavaScript project with 2-5 of 6 rule templates (two constraints that can both bind a shared variable, a utility diamond/chain, a 4-step transformation chain, three rewriters with joinBy feeding a second transformation, several variable-free constraints; generated utility graphs, overlapping fixable rules, two different rules that share one id) in 1-3 multi-document rule files, two source files of 2-7 statements and, in half of the cases, 3-8 HTML hosts with the same statements in a <script> and a fixable host-language rule (`scan -U` then runs with -j 2/4/8 and hook-delayed producers). Metamorphic variants: keys of every utils/transform/constraints map, the rewriters list, top-level keys, documents and rule file names are permuted by generated seeds. Every variant is scanned K times in fresh processes (fresh hash seeds); all normalised outputs (records incl. metaVariables, message, replacement; exit status) must be identical; `sg test -U` twice must leave identical snapshot files, identical across variants. evaluations = scan launches. Non-trivial = distinct case with an inter-dependent template and >= 1 finding.",
  );
  report.assume("hash seeds cannot be chosen: non-determinism is established by disagreement between launches (quick K=4 x 4 variants, thorough K=8 x 7 variants)");
  let known = Known::load(&cfg.prop);
  if let Some(path) = &cfg.replay {
    // replay re-launches 20 times per variant
    let rf = read_replay(path);
    let mut case: Case = serde_json::from_value(rf.case.clone()).expect("case");
    case.launches = 20;
    let mut st = Stats::new();
    return match check(&case, &mut st) {
      Ok(()) => {
        println!("replay {}: property C13 held on this case (20 launches per variant)", path.display());
        0
      }
      Err(f) => {
        println!("VIOLATION property=C13 replay={}", path.display());
        println!("  signature: {}\n  {}", f.signature, f.message);
        1
      }
    };
  }
  crate::replay_known::<Case>(&mut report, &known, check);
  let thorough = cfg.tier == Tier::Thorough;
  let perms = if thorough { 6 } else { 3 };
  let total = cfg.budget(160, 5_000);
  let launches = if thorough { 8 } else { 4 };
  let o = drive(
    cfg,
    "projects",
    total,
    &known,
    || strategy(perms),
    |c, st| {
      interpret(c, st).map(|mut k| {
        k.launches = launches;
        k
      })
    },
    check,
  );
  report.absorb("projects", o);
  cli::cleanup_work_root();
  report.floor("nontrivial", 0.5, "cases");
  report.finish()
}
