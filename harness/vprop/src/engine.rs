//! The engine shared by all property checks: deterministic proptest driving, statistics,
//! failure signatures, known findings, replay files and the evidence writer.

use proptest::strategy::Strategy;
use proptest::test_runner::{Config, RngAlgorithm, TestCaseError, TestError, TestRng, TestRunner};
use serde::de::DeserializeOwned;
use serde::Serialize;
use serde_json::{json, Value};
use std::cell::{Cell, RefCell};
use std::collections::{BTreeMap, BTreeSet, HashSet};
use std::hash::{Hash, Hasher};
use std::path::{Path, PathBuf};
use std::time::Instant;

pub const VERIF: &str = "/verif";

/// Root of the verification tree: VERIF_ROOT if set, else the directory that holds
/// `properties.jsonl` above the running binary (…/harness/target/release/vprop), else /verif.
pub fn verif_root() -> &'static Path {
  static ROOT: std::sync::OnceLock<PathBuf> = std::sync::OnceLock::new();
  ROOT.get_or_init(|| {
    if let Ok(r) = std::env::var("VERIF_ROOT") {
      return PathBuf::from(r);
    }
    if let Ok(exe) = std::env::current_exe() {
      for a in exe.ancestors().skip(1).take(6) {
        if a.join("properties.jsonl").exists() {
          return a.to_path_buf();
        }
      }
    }
    PathBuf::from(VERIF)
  })
}

#[derive(Clone, Copy, PartialEq, Eq, Debug)]
pub enum Tier {
  Quick,
  Thorough,
}
impl Tier {
  pub fn name(self) -> &'static str {
    match self {
      Tier::Quick => "quick",
      Tier::Thorough => "thorough",
    }
  }
  /// pick the case budget for this tier
  pub fn pick(self, quick: u64, thorough: u64) -> u64 {
    match self {
      Tier::Quick => quick,
      Tier::Thorough => thorough,
    }
  }
}

#[derive(Clone, Debug)]
pub struct RunCfg {
  pub prop: String,
  pub tier: Tier,
  pub seed: u64,
  pub replay: Option<PathBuf>,
  /// multiply every case budget (debugging aid; 1.0 in registered commands)
  pub scale: f64,
  pub selftest: bool,
  /// strict = do not tolerate known signatures (used by --replay)
  pub strict: bool,
  /// survey = tolerate every failure, count by signature (development aid, never registered)
  pub survey: bool,
}

impl RunCfg {
  pub fn workers(&self) -> usize {
    match self.tier {
      Tier::Quick => 8,
      Tier::Thorough => 16,
    }
  }
  pub fn budget(&self, quick: u64, thorough: u64) -> u64 {
    ((self.tier.pick(quick, thorough) as f64) * self.scale).max(1.0) as u64
  }
}

/// A failed oracle: `signature` names *what* failed independent of the random input.
#[derive(Clone, Debug)]
pub struct Fail {
  pub signature: String,
  pub message: String,
}
impl Fail {
  pub fn new(signature: impl Into<String>, message: impl Into<String>) -> Self {
    Fail {
      signature: signature.into(),
      message: message.into(),
    }
  }
}
pub type CheckResult = Result<(), Fail>;

#[macro_export]
macro_rules! fail {
  ($sig:expr, $($arg:tt)*) => {
    return Err($crate::engine::Fail::new($sig, format!($($arg)*)))
  };
}

pub fn fingerprint<T: Hash + ?Sized>(t: &T) -> u64 {
  // DefaultHasher::new() uses fixed keys: deterministic across processes.
  #[allow(deprecated)]
  let mut h = std::collections::hash_map::DefaultHasher::new();
  t.hash(&mut h);
  h.finish()
}

#[derive(Default, Clone)]
pub struct Stats {
  pub evaluations: u64,
  pub labels: BTreeMap<String, u64>,
  pub nontrivial: HashSet<u64>,
  pub samples: Vec<Value>,
  pub excluded_known: BTreeMap<String, u64>,
  pub discarded: BTreeMap<String, u64>,
  pub notes: BTreeSet<String>,
  pub sample_cap: usize,
}

impl Stats {
  pub fn new() -> Self {
    Stats {
      sample_cap: 3,
      ..Default::default()
    }
  }
  pub fn eval(&mut self) {
    self.evaluations += 1;
  }
  pub fn evals(&mut self, n: u64) {
    self.evaluations += n;
  }
  pub fn label(&mut self, l: &str) {
    *self.labels.entry(l.to_string()).or_insert(0) += 1;
  }
  pub fn label_n(&mut self, l: &str, n: u64) {
    if n > 0 {
      *self.labels.entry(l.to_string()).or_insert(0) += n;
    }
  }
  pub fn discard(&mut self, why: &str) {
    *self.discarded.entry(why.to_string()).or_insert(0) += 1;
  }
  pub fn nontrivial<T: Hash + ?Sized>(&mut self, t: &T) {
    self.nontrivial.insert(fingerprint(t));
  }
  pub fn wants_sample(&self) -> bool {
    self.samples.len() < self.sample_cap
  }
  pub fn sample(&mut self, v: Value) {
    if self.samples.len() < self.sample_cap {
      self.samples.push(v);
    }
  }
  pub fn note(&mut self, s: impl Into<String>) {
    if self.notes.len() < 400 {
      self.notes.insert(s.into());
    }
  }
  pub fn merge(&mut self, o: Stats) {
    self.evaluations += o.evaluations;
    for (k, v) in o.labels {
      *self.labels.entry(k).or_insert(0) += v;
    }
    for (k, v) in o.excluded_known {
      *self.excluded_known.entry(k).or_insert(0) += v;
    }
    for (k, v) in o.discarded {
      *self.discarded.entry(k).or_insert(0) += v;
    }
    self.nontrivial.extend(o.nontrivial);
    for s in o.samples {
      if self.samples.len() < 12 {
        self.samples.push(s);
      }
    }
    self.notes.extend(o.notes);
  }
}

// ---------------------------------------------------------------------------------------
// known findings

#[derive(Clone, Debug, serde::Deserialize)]
pub struct KnownEntry {
  pub property: String,
  pub signature: String,
  #[serde(default)]
  pub witness: Option<String>,
  pub status: String, // "known" | "fixed"
  #[serde(default)]
  pub commit: Option<String>,
  pub what: String,
}

#[derive(Clone, Debug, Default)]
pub struct Known {
  pub entries: Vec<KnownEntry>,
}
impl Known {
  pub fn load(prop: &str) -> Known {
    let p = crate::engine::verif_root().join("known_findings.json");
    let Ok(text) = std::fs::read_to_string(&p) else {
      return Known::default();
    };
    let all: Vec<KnownEntry> = match serde_json::from_str::<Value>(&text) {
      Ok(v) => serde_json::from_value(v.get("findings").cloned().unwrap_or(json!([])))
        .expect("known_findings.json: bad entry"),
      Err(e) => panic!("known_findings.json does not parse: {e}"),
    };
    Known {
      entries: all.into_iter().filter(|e| e.property == prop).collect(),
    }
  }
  /// signatures that are tolerated while searching (status == known)
  pub fn tolerated(&self, sig: &str) -> bool {
    self
      .entries
      .iter()
      .any(|e| e.status == "known" && e.signature == sig)
  }
}

// ---------------------------------------------------------------------------------------
// panic capture

thread_local! {
  static LAST_PANIC: RefCell<Option<String>> = const { RefCell::new(None) };
  static QUIET: Cell<bool> = const { Cell::new(false) };
}

pub fn install_panic_hook() {
  let default = std::panic::take_hook();
  std::panic::set_hook(Box::new(move |info| {
    let quiet = QUIET.with(|q| q.get());
    if quiet {
      let msg = if let Some(s) = info.payload().downcast_ref::<&str>() {
        s.to_string()
      } else if let Some(s) = info.payload().downcast_ref::<String>() {
        s.clone()
      } else {
        "non-string panic".to_string()
      };
      let loc = info
        .location()
        .map(|l| format!("{}:{}", l.file(), l.line()))
        .unwrap_or_default();
      LAST_PANIC.with(|p| *p.borrow_mut() = Some(format!("{msg} @ {loc}")));
    } else {
      default(info);
    }
  }));
}

/// Run `f`, turning a panic into Err(message @ location).
pub fn catch<R>(f: impl FnOnce() -> R) -> Result<R, String> {
  let prev = QUIET.with(|q| q.replace(true));
  let r = std::panic::catch_unwind(std::panic::AssertUnwindSafe(f));
  QUIET.with(|q| q.set(prev));
  match r {
    Ok(v) => Ok(v),
    Err(_) => Err(
      LAST_PANIC
        .with(|p| p.borrow_mut().take())
        .unwrap_or_else(|| "panic".into()),
    ),
  }
}

/// Normalise a panic message into a signature fragment: file:line stripped of the /repo prefix,
/// digits inside the message squashed.
pub fn panic_signature(msg: &str) -> String {
  let (m, loc) = msg.rsplit_once(" @ ").unwrap_or((msg, ""));
  // path relative to the repository root, wherever the tree is checked out
  let loc = loc.find("crates/").map(|i| &loc[i..]).unwrap_or(loc);
  let loc = loc
    .rsplit_once(':')
    .map(|(f, _)| f)
    .unwrap_or(loc);
  let mut short: String = m
    .chars()
    .take(60)
    .map(|c| if c.is_ascii_digit() { '#' } else { c })
    .collect();
  while short.contains("##") {
    short = short.replace("##", "#");
  }
  format!("panic:{loc}:{short}")
}

// ---------------------------------------------------------------------------------------
// driving

pub struct Violation {
  pub signature: String,
  pub message: String,
  pub case: Value,
}

pub struct Outcome {
  pub stats: Stats,
  pub violations: Vec<Violation>,
}

fn worker_seed(seed: u64, prop: &str, stage: &str, worker: usize) -> [u8; 32] {
  let mut out = [0u8; 32];
  for (i, chunk) in out.chunks_mut(8).enumerate() {
    let v = fingerprint(&(seed, prop, stage, worker as u64, i as u64));
    chunk.copy_from_slice(&v.to_le_bytes());
  }
  out
}

/// Drive one stage of a property: `total` cases split over the workers. Each worker owns a
/// proptest TestRunner seeded from (VERIF_SEED, property, stage, worker); on failure proptest
/// shrinks the choice value, which is then re-interpreted to give the minimal concrete case.
pub fn drive<S, C>(
  cfg: &RunCfg,
  stage: &str,
  total: u64,
  known: &Known,
  make_strategy: impl Fn() -> S + Sync,
  interpret: impl Fn(&S::Value, &mut Stats) -> Option<C> + Sync,
  check: impl Fn(&C, &mut Stats) -> CheckResult + Sync,
) -> Outcome
where
  S: Strategy,
  S::Value: Clone + std::fmt::Debug,
  C: Serialize,
{
  let workers = cfg.workers().min(total.max(1) as usize).max(1);
  let per = total.div_ceil(workers as u64);
  let strict = cfg.strict;
  let survey = cfg.survey;
  let results: Vec<(Stats, Option<Violation>)> = std::thread::scope(|scope| {
    let handles: Vec<_> = (0..workers)
      .map(|w| {
        let make_strategy = &make_strategy;
        let interpret = &interpret;
        let check = &check;
        let seed = worker_seed(cfg.seed, &cfg.prop, stage, w);
        std::thread::Builder::new()
          .stack_size(256 << 20)
          .spawn_scoped(scope, move || {
            let stats = RefCell::new(Stats::new());
            let failed = Cell::new(false);
            let config = Config {
              cases: per as u32,
              failure_persistence: None,
              max_shrink_iters: 4000,
              max_global_rejects: (per as u32).saturating_mul(50).max(10_000),
              max_local_rejects: 1_000_000,
              verbose: 0,
              ..Config::default()
            };
            let rng = TestRng::from_seed(RngAlgorithm::ChaCha, &seed);
            let mut runner = TestRunner::new_with_rng(config, rng);
            let strategy = make_strategy();
            let run_one = |v: &S::Value, st: &mut Stats| -> Result<Option<C>, (C, Fail)> {
              let case = match catch(|| interpret(v, st)) {
                Ok(Some(c)) => c,
                Ok(None) => return Ok(None),
                Err(p) => {
                  // a panic inside the generator is a harness defect, never a verdict
                  st.label("generator_panic");
                  st.note(format!("generator panic: {p}"));
                  return Ok(None);
                }
              };
              let r = match catch(|| check(&case, st)) {
                Ok(r) => r,
                Err(p) => Err(Fail::new(panic_signature(&p), format!("panic: {p}"))),
              };
              match r {
                Ok(()) => Ok(Some(case)),
                Err(f) if f.signature.starts_with("inconclusive:") => {
                  st.label("inconclusive");
                  st.note(format!("{}: {}", f.signature, f.message.chars().take(200).collect::<String>()));
                  Ok(Some(case))
                }
                Err(f) => {
                  if survey {
                    let n = st.excluded_known.entry(format!("SURVEY {}", f.signature)).or_insert(0);
                    *n += 1;
                    if *n == 1 {
                      let v = Violation {
                        signature: f.signature.clone(),
                        message: f.message.clone(),
                        case: serde_json::to_value(&case).unwrap_or(Value::Null),
                      };
                      let path = write_replay("SURVEY", "survey", &v);
                      st.notes.insert(format!("SURVEY-REPLAY {} -> {}", f.signature, path.display()));
                      st.notes.insert(format!("SURVEY {} :: {}", f.signature, f.message.chars().take(600).collect::<String>()));
                    }
                    Ok(Some(case))
                  } else if !strict && known.tolerated(&f.signature) {
                    *st.excluded_known.entry(f.signature.clone()).or_insert(0) += 1;
                    Ok(Some(case))
                  } else {
                    Err((case, f))
                  }
                }
              }
            };
            let result = runner.run(&strategy, |v| {
              // while shrinking (after the first failure) statistics go to a scratch object
              let mut scratch = Stats::new();
              let mut guard;
              let st: &mut Stats = if failed.get() {
                &mut scratch
              } else {
                guard = stats.borrow_mut();
                &mut guard
              };
              match run_one(&v, st) {
                Ok(Some(_)) => Ok(()),
                Ok(None) => {
                  st.discard("uninterpretable choice");
                  Ok(())
                }
                Err((_, f)) => {
                  failed.set(true);
                  Err(TestCaseError::fail(f.signature))
                }
              }
            });
            let violation = match result {
              Ok(()) => None,
              Err(TestError::Fail(_, minimal)) => {
                let mut scratch = Stats::new();
                match run_one(&minimal, &mut scratch) {
                  Err((case, f)) => Some(Violation {
                    signature: f.signature,
                    message: f.message,
                    case: serde_json::to_value(&case).unwrap_or(Value::Null),
                  }),
                  _ => Some(Violation {
                    signature: "unstable".into(),
                    message: format!(
                      "shrunk value no longer fails (flaky oracle?): {:?}",
                      minimal
                    ),
                    case: Value::Null,
                  }),
                }
              }
              Err(TestError::Abort(reason)) => {
                stats.borrow_mut().note(format!("proptest aborted: {reason}"));
                None
              }
            };
            (stats.into_inner(), violation)
          })
          .expect("spawn worker")
      })
      .collect();
    handles.into_iter().map(|h| h.join().expect("worker")).collect()
  });
  let mut stats = Stats::new();
  let mut violations = vec![];
  for (s, v) in results {
    stats.merge(s);
    if let Some(v) = v {
      violations.push(v);
    }
  }
  Outcome { stats, violations }
}

/// Run an explicit list of cases (bounded-exhaustive enumerations, replays) through a check,
/// in parallel chunks, preserving order of results.
pub fn drive_list<C: Sync + Serialize>(
  cfg: &RunCfg,
  known: &Known,
  cases: &[C],
  check: impl Fn(&C, &mut Stats) -> CheckResult + Sync,
) -> Outcome {
  let workers = cfg.workers().min(cases.len().max(1));
  let chunk = cases.len().div_ceil(workers.max(1)).max(1);
  let strict = cfg.strict;
  let survey = cfg.survey;
  let results: Vec<(Stats, Vec<Violation>)> = std::thread::scope(|scope| {
    let hs: Vec<_> = cases
      .chunks(chunk)
      .map(|part| {
        let check = &check;
        std::thread::Builder::new()
          .stack_size(256 << 20)
          .spawn_scoped(scope, move || {
            let mut st = Stats::new();
            let mut vs: Vec<Violation> = vec![];
            for c in part {
              let r = match catch(|| check(c, &mut st)) {
                Ok(r) => r,
                Err(p) => Err(Fail::new(panic_signature(&p), format!("panic: {p}"))),
              };
              if let Err(f) = r {
                if survey {
                  let n = st.excluded_known.entry(format!("SURVEY {}", f.signature)).or_insert(0);
                  *n += 1;
                  if *n == 1 {
                    st.notes.insert(format!("SURVEY {} :: {}", f.signature, f.message.chars().take(400).collect::<String>()));
                  }
                } else if !strict && known.tolerated(&f.signature) {
                  *st.excluded_known.entry(f.signature.clone()).or_insert(0) += 1;
                } else if vs.len() < 3 {
                  vs.push(Violation {
                    signature: f.signature,
                    message: f.message,
                    case: serde_json::to_value(c).unwrap_or(Value::Null),
                  });
                }
              }
            }
            (st, vs)
          })
          .expect("spawn")
      })
      .collect();
    hs.into_iter().map(|h| h.join().expect("worker")).collect()
  });
  let mut stats = Stats::new();
  let mut violations = vec![];
  for (s, v) in results {
    stats.merge(s);
    violations.extend(v);
  }
  Outcome { stats, violations }
}

// ---------------------------------------------------------------------------------------
// replay files and reporting

#[derive(serde::Serialize, serde::Deserialize)]
pub struct ReplayFile {
  pub property: String,
  pub signature: String,
  pub message: String,
  #[serde(default)]
  pub stage: String,
  pub case: Value,
}

pub fn write_replay(prop: &str, stage: &str, v: &Violation) -> PathBuf {
  let dir = crate::engine::verif_root().join("replays").join("new");
  let _ = std::fs::create_dir_all(&dir);
  let rf = ReplayFile {
    property: prop.into(),
    signature: v.signature.clone(),
    message: v.message.clone(),
    stage: stage.into(),
    case: v.case.clone(),
  };
  let text = serde_json::to_string_pretty(&rf).unwrap();
  let name = format!("{}-{:016x}.json", prop, fingerprint(&text));
  let path = dir.join(name);
  let _ = std::fs::write(&path, text);
  path
}

pub fn read_replay(path: &Path) -> ReplayFile {
  let text = std::fs::read_to_string(path).unwrap_or_else(|e| {
    eprintln!("cannot read replay {path:?}: {e}");
    std::process::exit(2)
  });
  serde_json::from_str(&text).unwrap_or_else(|e| {
    eprintln!("replay {path:?} does not parse: {e}");
    std::process::exit(2)
  })
}

pub fn replay_case<C: DeserializeOwned>(
  rf: &ReplayFile,
  check: impl Fn(&C, &mut Stats) -> CheckResult,
) -> CheckResult {
  let case: C = serde_json::from_value(rf.case.clone())
    .map_err(|e| Fail::new("replay-format", format!("case does not deserialize: {e}")))?;
  let mut st = Stats::new();
  match catch(|| check(&case, &mut st)) {
    Ok(r) => r,
    Err(p) => Err(Fail::new(panic_signature(&p), format!("panic: {p}"))),
  }
}

/// Accumulates stage outcomes for one property run and produces evidence + exit code.
pub struct Report {
  pub cfg: RunCfg,
  pub started: Instant,
  pub stats: Stats,
  pub stage_info: Vec<Value>,
  pub violations: Vec<(String, Violation)>,
  pub known_lines: Vec<String>,
  pub rule: String,
  pub assumptions: Vec<String>,
  pub exhaustive: Option<bool>,
  pub floors: Vec<(String, f64, String)>, // label, min fraction, denominator label
  pub extra: BTreeMap<String, Value>,
  pub inconclusive: Vec<String>,
}

impl Report {
  pub fn new(cfg: &RunCfg, rule: &str) -> Self {
    Report {
      cfg: cfg.clone(),
      started: Instant::now(),
      stats: Stats::new(),
      stage_info: vec![],
      violations: vec![],
      known_lines: vec![],
      rule: rule.into(),
      assumptions: vec![],
      exhaustive: None,
      floors: vec![],
      extra: BTreeMap::new(),
      inconclusive: vec![],
    }
  }
  pub fn assume(&mut self, s: &str) {
    self.assumptions.push(s.into());
  }
  pub fn floor(&mut self, label: &str, min_fraction: f64, of: &str) {
    self.floors.push((label.into(), min_fraction, of.into()));
  }
  pub fn absorb(&mut self, stage: &str, o: Outcome) {
    self.stage_info.push(json!({
      "stage": stage,
      "evaluations": o.stats.evaluations,
      "distinct_nontrivial": o.stats.nontrivial.len(),
      "violations": o.violations.len(),
    }));
    self.stats.merge(o.stats);
    for v in o.violations {
      self.violations.push((stage.to_string(), v));
    }
  }
  pub fn known_finding(&mut self, line: String) {
    self.known_lines.push(line);
  }

  pub fn finish(mut self) -> i32 {
    let prop = self.cfg.prop.clone();
    for l in &self.known_lines {
      println!("KNOWN-FINDING: property={prop} {l}");
    }
    let mut viol_out = vec![];
    // one VIOLATION line per distinct signature
    let mut seen = BTreeSet::new();
    for (stage, v) in &self.violations {
      if !seen.insert(v.signature.clone()) {
        continue;
      }
      let path = write_replay(&prop, stage, v);
      println!("VIOLATION property={} replay={}", prop, path.display());
      println!("  signature: {}", v.signature);
      let msg: String = v.message.chars().take(1500).collect();
      println!("  {}", msg.replace('\n', "\n  "));
      viol_out.push(json!({"signature": v.signature, "replay": path, "stage": stage}));
    }
    let mut warnings = vec![];
    for (label, min, of) in &self.floors {
      let num = *self.stats.labels.get(label).unwrap_or(&0) as f64;
      let den = if of == "evaluations" {
        self.stats.evaluations as f64
      } else {
        *self.stats.labels.get(of).unwrap_or(&0) as f64
      };
      let frac = if den > 0.0 { num / den } else { 0.0 };
      if frac < *min {
        warnings.push(format!(
          "label `{label}` is {:.2}% of `{of}` (< floor {:.2}%)",
          frac * 100.0,
          min * 100.0
        ));
      }
    }
    let mut samples = std::mem::take(&mut self.stats.samples);
    if samples.is_empty() {
      samples.push(json!({"note": "no sample recorded"}));
    }
    let mut coverage = serde_json::Map::new();
    coverage.insert("evaluations".into(), json!(self.stats.evaluations));
    coverage.insert(
      "distinct_nontrivial".into(),
      json!(self.stats.nontrivial.len()),
    );
    coverage.insert("rule".into(), json!(self.rule));
    coverage.insert("samples".into(), json!(samples));
    coverage.insert("labels".into(), json!(self.stats.labels));
    coverage.insert("discarded".into(), json!(self.stats.discarded));
    coverage.insert("excluded_known".into(), json!(self.stats.excluded_known));
    coverage.insert("stages".into(), json!(self.stage_info));
    coverage.insert("warnings".into(), json!(warnings));
    coverage.insert("notes".into(), json!(self.stats.notes));
    coverage.insert("known_findings_reported".into(), json!(self.known_lines));
    coverage.insert("violations_found".into(), json!(viol_out));
    if !self.inconclusive.is_empty() {
      coverage.insert("inconclusive".into(), json!(self.inconclusive));
    }
    if let Some(e) = self.exhaustive {
      coverage.insert("exhaustive".into(), json!(e));
    }
    for (k, v) in std::mem::take(&mut self.extra) {
      coverage.insert(k, v);
    }
    if let Some(n) = self.stats.labels.get("inconclusive") {
      self.inconclusive.push(format!("{n} case(s) hit the watchdog twice (see notes)"));
    }
    let wall = self.started.elapsed().as_secs_f64();
    let ev = json!({
      "property_id": prop,
      "tier": self.cfg.tier.name(),
      "seed": self.cfg.seed,
      "level": "exploration",
      "coverage": coverage,
      "assumptions": self.assumptions,
      "wall_s": (wall * 100.0).round() / 100.0,
      "violations": self.violations.len(),
    });
    if self.cfg.replay.is_none() {
      let dir = crate::engine::verif_root().join("evidence");
      let _ = std::fs::create_dir_all(&dir);
      let path = dir.join(format!("{prop}.json"));
      if let Err(e) = std::fs::write(&path, serde_json::to_string_pretty(&ev).unwrap()) {
        eprintln!("cannot write evidence {path:?}: {e}");
        return 2;
      }
    }
    if self.cfg.survey {
      for (k, v) in &self.stats.excluded_known {
        println!("  {v:>8}  {k}");
      }
      for n in &self.stats.notes {
        if n.starts_with("SURVEY") {
          println!("  {n}");
        }
      }
    }
    println!(
      "{} {}: evaluations={} distinct_nontrivial={} violations={} known={} wall={:.1}s",
      prop,
      self.cfg.tier.name(),
      self.stats.evaluations,
      self.stats.nontrivial.len(),
      self.violations.len(),
      self.known_lines.len(),
      wall
    );
    for w in &warnings {
      println!("  coverage warning: {w}");
    }
    if !self.violations.is_empty() {
      return 1;
    }
    if !self.inconclusive.is_empty() {
      for i in &self.inconclusive {
        println!("INCONCLUSIVE: {i}");
      }
      return 2;
    }
    if self.cfg.selftest && !warnings.is_empty() {
      println!("SELFTEST-FAILED: coverage floors missed");
      return 3;
    }
    0
  }
}

// ---------------------------------------------------------------------------------------
// isolated execution of one case in a child vprop process (aborts, stack overflows, hangs)

pub const CHILD_FAIL_EXIT: i32 = 10;

static ISO_COUNTER: std::sync::atomic::AtomicUsize = std::sync::atomic::AtomicUsize::new(0);

/// Outcome of a child run that did not come back with a verdict
pub fn run_isolated<C: Serialize>(prop: &str, stage: &str, case: &C, timeout: std::time::Duration) -> CheckResult {
  use std::io::Read;
  let n = ISO_COUNTER.fetch_add(1, std::sync::atomic::Ordering::SeqCst);
  let dir = crate::engine::verif_root().join(".work");
  let _ = std::fs::create_dir_all(&dir);
  let path = dir.join(format!("{}-iso-{}.json", std::process::id(), n));
  std::fs::write(&path, serde_json::to_vec(case).unwrap()).expect("write isolated case");
  let exe = std::env::current_exe().expect("exe");
  let run = |limit: std::time::Duration| -> Result<(Option<std::process::ExitStatus>, String, String), Fail> {
    let mut child = std::process::Command::new(&exe)
      .arg("__case")
      .arg(prop)
      .arg(stage)
      .arg(&path)
      .stdin(std::process::Stdio::null())
      .stdout(std::process::Stdio::piped())
      .stderr(std::process::Stdio::piped())
      .spawn()
      // the harness binary vanished or the system is out of processes: infrastructure, not a verdict
      .map_err(|e| Fail::new("inconclusive:child-spawn", format!("cannot start the child process {exe:?}: {e}")))?;
    let mut so = child.stdout.take().unwrap();
    let mut se = child.stderr.take().unwrap();
    let t1 = std::thread::spawn(move || {
      let mut s = String::new();
      let _ = so.read_to_string(&mut s);
      s
    });
    let t2 = std::thread::spawn(move || {
      let mut b = vec![];
      let _ = se.read_to_end(&mut b);
      String::from_utf8_lossy(&b).into_owned()
    });
    let start = Instant::now();
    let status = loop {
      match child.try_wait() {
        Ok(Some(s)) => break Some(s),
        Ok(None) => {
          if start.elapsed() > limit {
            let _ = child.kill();
            let _ = child.wait();
            break None;
          }
          std::thread::sleep(std::time::Duration::from_millis(1));
        }
        Err(_) => break None,
      }
    };
    Ok((status, t1.join().unwrap_or_default(), t2.join().unwrap_or_default()))
  };
  let (mut status, mut out, mut err) = run(timeout)?;
  if status.is_none() {
    // a hang is re-run twice with a longer limit before it counts
    for _ in 0..2 {
      let r = run(timeout * 3)?;
      status = r.0;
      out = r.1;
      err = r.2;
      if status.is_some() {
        break;
      }
    }
  }
  let _ = std::fs::remove_file(&path);
  let Some(status) = status else {
    return Err(Fail::new("hang", format!("the case did not terminate within {:?} (three attempts)", timeout * 3)));
  };
  match status.code() {
    Some(0) => Ok(()),
    Some(CHILD_FAIL_EXIT) => {
      let v: Value = serde_json::from_str(out.trim()).unwrap_or(Value::Null);
      Err(Fail::new(
        v.get("signature").and_then(|s| s.as_str()).unwrap_or("child-fail"),
        v.get("message").and_then(|s| s.as_str()).unwrap_or(&out),
      ))
    }
    other => {
      use std::os::unix::process::ExitStatusExt;
      let what = if err.contains("has overflowed its stack") {
        "stack-overflow".to_string()
      } else if let Some(sig) = status.signal() {
        format!("signal-{sig}")
      } else {
        format!("exit-{other:?}")
      };
      Err(Fail::new(
        format!("crash:{what}"),
        format!("child process died ({what}); stderr tail: {}", err.chars().rev().take(400).collect::<String>().chars().rev().collect::<String>()),
      ))
    }
  }
}

/// child side of run_isolated
pub fn child_case<C: DeserializeOwned + Sync>(path: &Path, check: impl Fn(&C, &mut Stats) -> CheckResult + Send + Sync) -> i32 {
  let text = std::fs::read_to_string(path).expect("read case");
  let case: C = serde_json::from_str(&text).expect("case json");
  // run on a thread with a generous stack: only unbounded recursion should overflow
  let r = std::thread::scope(|s| {
    std::thread::Builder::new()
      .stack_size(64 << 20)
      .spawn_scoped(s, || {
        let mut st = Stats::new();
        match catch(|| check(&case, &mut st)) {
          Ok(r) => r,
          Err(p) => Err(Fail::new(panic_signature(&p), format!("panic: {p}"))),
        }
      })
      .expect("spawn")
      .join()
      .unwrap_or_else(|_| Err(Fail::new("child-thread-died", "child thread died")))
  });
  match r {
    Ok(()) => 0,
    Err(f) => {
      println!("{}", json!({"signature": f.signature, "message": f.message}));
      CHILD_FAIL_EXIT
    }
  }
}
