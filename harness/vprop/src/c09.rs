//! C09 — all front ends report the same findings; the LSP follows the highest version.
use crate::cli::{self, TempDir};
use crate::engine::*;
use crate::fail;
use crate::lsp::{uri_of, Lsp};
use proptest::prelude::*;
use serde::{Deserialize, Serialize};
use serde_json::{json, Value};
use std::collections::BTreeMap;
use std::time::Duration;

#[derive(Clone, Debug, Serialize, Deserialize)]
pub struct RuleDoc {
  pub id: String,
  pub pattern: String,
  pub message: String,
  pub note: Option<String>,
  pub severity: String,
  /// a rule with a fix goes through the "diff" printers of every front end
  #[serde(default)]
  pub fix: Option<String>,
}

#[derive(Clone, Debug, Serialize, Deserialize)]
pub enum Op {
  Open { doc: usize, version: i64, text: usize },
  Change {
    doc: usize,
    version: i64,
    text: usize,
    /// 0: one content change; 1: two content changes, the text is the last one; 2: none at all
    /// (the document keeps its text and its version)
    #[serde(default)]
    shape: u8,
  },
  Close { doc: usize },
}

#[derive(Clone, Debug, Serialize, Deserialize)]
pub struct Case {
  pub lang: String,
  pub ext: String,
  pub rules: Vec<RuleDoc>,
  /// texts[0] is the text used for the CLI / test / first LSP comparison
  pub texts: Vec<String>,
  pub history: Vec<Op>,
  /// send the whole history without waiting for each notification to complete
  pub burst: bool,
  /// a rule of another language after the rules of the case (rule file and project)
  #[serde(default)]
  pub foreign_rule: bool,
}

#[derive(Clone, Debug)]
pub struct OpC {
  kind: u8,
  doc: u8,
  ver: u8,
  text: u8,
}

#[derive(Clone, Debug)]
pub struct Choice {
  lang: u8,
  rules: Vec<(u8, u8)>,
  texts: Vec<Vec<u8>>,
  history: Vec<OpC>,
  burst: bool,
}

pub fn strategy() -> BoxedStrategy<Choice> {
  let op = (0u8..10, 0u8..3, 0u8..8, 0u8..4).prop_map(|(kind, doc, ver, text)| OpC { kind, doc, ver, text });
  (
    0u8..4,
    prop::collection::vec((0u8..7, 0u8..9), 1..=4),
    prop::collection::vec(prop::collection::vec(0u8..14, 1..7), 2..=4),
    prop::collection::vec(op, 0..18),
    prop::bool::weighted(0.3),
  )
    .prop_map(|(lang, rules, texts, history, burst)| Choice {
      lang,
      rules,
      texts,
      history,
      burst,
    })
    .boxed()
}

const STMTS: &[&str] = &[
  "foo(1)",
  "bar(2, 3)",
  "foo(bar(1))",
  "baz(foo(1), bar(2))",
  "qux(3)",
  "baz(\"é😀\")",
  "foo(\"日本\"); foo(2)",
  "bar()",
  "x = 1",
  "foo(\n  1\n)",
  "qux(foo(8))",
  "bar(baz(6), 7)",
  // nested matches of one rule: with a fix their replaced ranges overlap
  "foo(foo(5))",
  "baz(foo(foo(1)), foo(2))",
];

fn render(lang: &str, stmts: &[u8]) -> String {
  let semi = matches!(lang, "JavaScript" | "TypeScript" | "Rust");
  let (head, tail, pad) = if lang == "Rust" { ("fn main() {\n", "}\n", "    ") } else { ("", "", "") };
  let mut out = String::from(head);
  for s in stmts {
    let mut st = STMTS[*s as usize % STMTS.len()].to_string();
    if lang == "Rust" {
      st = st.replace("x = 1", "let x = 1");
    }
    if lang == "Python" {
      st = st.replace("; ", "\n");
    }
    for (i, line) in st.split('\n').enumerate() {
      out.push_str(pad);
      out.push_str(line);
      if i + 1 == st.split('\n').count() && semi {
        out.push(';');
      }
      out.push('\n');
    }
  }
  out.push_str(tail);
  out
}

pub fn interpret(ch: &Choice, _st: &mut Stats) -> Option<Case> {
  let (lang, ext) = [("JavaScript", "js"), ("TypeScript", "ts"), ("Python", "py"), ("Rust", "rs")][ch.lang as usize % 4];
  let mut rules = vec![];
  for (i, (t, s)) in ch.rules.iter().enumerate() {
    let severity = match s {
      0 | 1 => "error",
      2 | 3 => "warning",
      4 | 5 => "info",
      6 | 7 => "hint",
      _ => "off",
    }
    .to_string();
    let fix = match t {
      5 => Some("bar($A)".to_string()),
      6 => Some("foo()".to_string()),
      _ => None,
    };
    let (pattern, message, note) = match t {
      0 | 5 => ("foo($A)", "found $A", None),
      1 => ("bar($$$ARGS)", "args: $$$ARGS end", Some("a note about bar")),
      2 => ("baz($A)", "", None),
      3 => ("qux($A)", "q $A $A", Some("note")),
      _ => ("foo($$$)", "any foo", None),
    };
    rules.push(RuleDoc {
      id: format!("rule-{i}-{t}"),
      pattern: pattern.into(),
      message: message.into(),
      note: note.map(String::from),
      severity,
      fix,
    });
  }
  let texts: Vec<String> = ch.texts.iter().map(|t| render(lang, t)).collect();
  // history with model-tracked versions
  let mut cur: BTreeMap<usize, i64> = BTreeMap::new();
  let mut history = vec![];
  for o in &ch.history {
    let doc = o.doc as usize % 3;
    let text = o.text as usize % texts.len();
    match (o.kind, cur.get(&doc).cloned()) {
      (0..=2, None) | (0, Some(_)) => {
        // (re)open; a re-open uses a higher version than anything seen
        let version = cur.get(&doc).cloned().unwrap_or(0) + 1 + (o.ver as i64 % 3);
        cur.insert(doc, version);
        history.push(Op::Open { doc, version, text });
      }
      (1..=7, Some(v)) => {
        // fresh or stale change (never equal to the current version)
        let version = if o.ver % 3 == 0 && v > 1 { (v - 1 - (o.ver as i64 % 2)).max(0) } else { v + 1 + (o.ver as i64 % 4) };
        let shape = match (o.ver, o.kind) {
          (1 | 5, 1..=4) => 1,
          (2, 7) => 2,
          _ => 0,
        };
        if version > v && shape != 2 {
          cur.insert(doc, version);
        }
        history.push(Op::Change { doc, version, text, shape });
      }
      (8 | 9, Some(_)) => {
        cur.remove(&doc);
        history.push(Op::Close { doc });
      }
      _ => {}
    }
  }
  Some(Case {
    lang: lang.into(),
    ext: ext.into(),
    rules,
    texts,
    history,
    burst: ch.burst,
    // the first enabled rule decides the language --stdin parses in: it must be one of the case
    foreign_rule: ch.rules.iter().any(|(_, s)| *s < 8),
  })
}

fn ys(s: &str) -> serde_yaml::Value {
  serde_yaml::Value::String(s.to_string())
}

fn rule_yaml(lang: &str, r: &RuleDoc) -> String {
  let mut m = serde_yaml::Mapping::new();
  m.insert(ys("id"), ys(&r.id));
  m.insert(ys("language"), ys(lang));
  m.insert(ys("severity"), ys(&r.severity));
  if !r.message.is_empty() {
    m.insert(ys("message"), ys(&r.message));
  }
  if let Some(n) = &r.note {
    m.insert(ys("note"), ys(n));
  }
  let mut rule = serde_yaml::Mapping::new();
  rule.insert(ys("pattern"), ys(&r.pattern));
  m.insert(ys("rule"), serde_yaml::Value::Mapping(rule));
  if let Some(f) = &r.fix {
    m.insert(ys("fix"), ys(f));
  }
  serde_yaml::to_string(&serde_yaml::Value::Mapping(m)).unwrap()
}

type Finding = (String, usize, usize, String);

fn findings_from_json(recs: &[Value]) -> Vec<Finding> {
  let mut v: Vec<Finding> = recs
    .iter()
    .filter_map(|r| {
      let (s, e) = cli::rec_range(r)?;
      Some((r["ruleId"].as_str()?.to_string(), s, e, r["message"].as_str().unwrap_or("").to_string()))
    })
    .collect();
  v.sort();
  v
}

/// (line, character column) -> byte offset, the inverse of O-pos
fn byte_of(text: &str, line: usize, col: usize) -> usize {
  let mut off = 0;
  for (i, l) in text.split('\n').enumerate() {
    if i == line {
      return off + l.char_indices().nth(col).map(|(b, _)| b).unwrap_or(l.len());
    }
    off += l.len() + 1;
  }
  text.len()
}

fn lsp_findings(text: &str, diags: &[Value]) -> Vec<Finding> {
  let mut v: Vec<Finding> = diags
    .iter()
    .map(|d| {
      let s = byte_of(text, d["range"]["start"]["line"].as_u64().unwrap_or(0) as usize, d["range"]["start"]["character"].as_u64().unwrap_or(0) as usize);
      let e = byte_of(text, d["range"]["end"]["line"].as_u64().unwrap_or(0) as usize, d["range"]["end"]["character"].as_u64().unwrap_or(0) as usize);
      (d["code"].as_str().unwrap_or("").to_string(), s, e, d["message"].as_str().unwrap_or("").to_string())
    })
    .collect();
  v.sort();
  v
}

/// the documented mapping of a finding's message into an LSP diagnostic message
fn lsp_message(rule: &RuleDoc, substituted: &str) -> String {
  let msg = if rule.message.is_empty() { rule.id.clone() } else { substituted.to_string() };
  match &rule.note {
    Some(n) => format!("{msg}\n\n{n}"),
    None => msg,
  }
}

fn expected_lsp(case: &Case, cli_findings: &[Finding]) -> Vec<Finding> {
  let mut v: Vec<Finding> = cli_findings
    .iter()
    .map(|(id, s, e, m)| {
      let rule = case.rules.iter().find(|r| r.id == *id).expect("rule");
      (id.clone(), *s, *e, lsp_message(rule, m))
    })
    .collect();
  v.sort();
  v
}

fn scan_json(dir: &TempDir, file: &str, style: &str) -> Result<Vec<Value>, Fail> {
  let flag = format!("--json={style}");
  let out = cli::sgv(&["scan", &flag, file], &dir.path, None);
  if out.timed_out {
    return Err(Fail::new("inconclusive:watchdog", "sgv scan did not finish"));
  }
  if out.panicked() {
    return Err(Fail::new("C09:cli-panic", out.stderr_str()));
  }
  let r = if style == "stream" { out.json_lines() } else { out.json_array() };
  r.map_err(|e| Fail::new(format!("C09:json-{style}"), e))
}

pub fn check(case: &Case, st: &mut Stats) -> CheckResult {
  let dir = TempDir::new("c09");
  dir.write("sgconfig.yml", b"ruleDirs:\n- rules\ntestConfigs:\n- testDir: tests\n");
  let mut all_rules = vec![];
  for r in &case.rules {
    let y = rule_yaml(&case.lang, r);
    dir.write(&format!("rules/{}.yml", r.id), y.as_bytes());
    all_rules.push(y);
  }
  if case.foreign_rule {
    // a rule of another language: it applies to no file of this project and to no input of
    // --stdin, which is parsed in the language of the first enabled rule
    let (fl, kinds) = if case.lang == "Python" {
      ("JavaScript", "[{kind: identifier}, {kind: call_expression}, {kind: string}, {kind: program}, {kind: expression_statement}, {kind: number}, {kind: arguments}]")
    } else {
      ("Python", "[{kind: identifier}, {kind: call}, {kind: string}, {kind: module}, {kind: expression_statement}, {kind: integer}, {kind: argument_list}]")
    };
    let y = format!("id: zz-foreign\nlanguage: {fl}\nseverity: warning\nmessage: foreign\nrule:\n  any: {kinds}\n");
    dir.write("rules/zz-foreign.yml", y.as_bytes());
    all_rules.push(y);
  }
  dir.write("all-rules.yml", all_rules.join("---\n").as_bytes());
  let file = format!("src/a.{}", case.ext);
  let text = &case.texts[0];
  dir.write(&file, text.as_bytes());
  st.eval();
  st.label(&format!("lang_{}", case.lang));
  // ---- (a) CLI styles
  let base = findings_from_json(&scan_json(&dir, &file, "stream")?);
  for style in ["pretty", "compact"] {
    let other = findings_from_json(&scan_json(&dir, &file, style)?);
    if other != base {
      fail!(format!("C09:json-{style}-differs"), "--json={style} lists {:?}, --json=stream lists {:?}", other, base);
    }
  }
  // stdin
  let out = cli::sgv(&["scan", "--stdin", "--json=stream", "-r", "all-rules.yml"], &dir.path, Some(text.as_bytes()));
  if out.timed_out {
    return Err(Fail::new("inconclusive:watchdog", "sgv scan --stdin did not finish"));
  }
  let stdin_recs = out.json_lines().map_err(|e| Fail::new("C09:json-stdin", e))?;
  let stdin_f = findings_from_json(&stdin_recs);
  if stdin_f != base {
    let off_rules: Vec<&String> = case.rules.iter().filter(|r| r.severity == "off").map(|r| &r.id).collect();
    let only_off_extra = stdin_f.iter().filter(|f| !base.contains(f)).all(|f| off_rules.contains(&&f.0)) && base.iter().all(|f| stdin_f.contains(f));
    fail!(
      if only_off_extra { "C09:stdin-reports-rule-with-severity-off" } else { "C09:stdin-differs" },
      "scan --stdin lists {:?}; scan on the file lists {:?}",
      stdin_f,
      base
    );
  }
  // github format
  let out = cli::sgv(&["scan", "--format", "github", &file], &dir.path, None);
  if out.timed_out {
    return Err(Fail::new("inconclusive:watchdog", "sgv scan --format github did not finish"));
  }
  let stream = scan_json(&dir, &file, "stream")?;
  let mut want_gh: Vec<(String, String, usize, usize, String)> = stream
    .iter()
    .filter_map(|r| {
      let level = match r["severity"].as_str()? {
        "error" => "error",
        "warning" => "warning",
        "info" => "notice",
        _ => return None,
      };
      let (s, e) = cli::rec_range(r)?;
      let l1 = crate::tsutil::o_pos(text.as_bytes(), s).0 + 1;
      let l2 = crate::tsutil::o_pos(text.as_bytes(), e).0 + 1;
      Some((level.to_string(), r["ruleId"].as_str()?.to_string(), l1, l2, r["message"].as_str().unwrap_or("").to_string()))
    })
    .collect();
  want_gh.sort();
  let re = regex::Regex::new(r"^::(\w+) file=([^,]*),line=(\d+),endLine=(\d+),title=([^:]*)::(.*)$").unwrap();
  let mut got_gh = vec![];
  for l in out.stdout_str().lines() {
    if l.is_empty() {
      continue;
    }
    let Some(c) = re.captures(l) else {
      fail!("C09:github-format", "unparsable GitHub line {l:?}");
    };
    got_gh.push((c[1].to_string(), c[5].to_string(), c[3].parse::<usize>().unwrap_or(0), c[4].parse::<usize>().unwrap_or(0), c[6].to_string()));
  }
  got_gh.sort();
  if got_gh != want_gh {
    fail!("C09:github-differs", "--format github lists {:?}; JSON findings with a GitHub level are {:?}", got_gh, want_gh);
  }
  // ---- (b) sg test verdicts
  let testable: Vec<&RuleDoc> = case.rules.iter().filter(|r| r.severity != "off").collect();
  if !testable.is_empty() {
    for flip in [false, true] {
      for r in &testable {
        let has = base.iter().any(|f| f.0 == r.id);
        let heading = if has != flip { "invalid" } else { "valid" };
        let mut m = serde_yaml::Mapping::new();
        m.insert(ys("id"), ys(&r.id));
        m.insert(ys(heading), serde_yaml::Value::Sequence(vec![ys(text)]));
        dir.write(&format!("tests/{}-test.yml", r.id), serde_yaml::to_string(&serde_yaml::Value::Mapping(m)).unwrap().as_bytes());
      }
      let out = cli::sgv(&["test", "--skip-snapshot-tests"], &dir.path, None);
      if out.timed_out {
        return Err(Fail::new("inconclusive:watchdog", "sgv test did not finish"));
      }
      let passed = out.status == Some(0);
      if passed == flip {
        fail!(
          "C09:test-verdict",
          "sg test {} although the text {} findings for its rules (headings {}): findings {:?}\nstdout: {}",
          if passed { "passes" } else { "fails" },
          if flip { "has the opposite" } else { "has exactly these" },
          if flip { "swapped" } else { "as scan says" },
          base,
          out.stdout_str().chars().take(300).collect::<String>()
        );
      }
    }
    st.label("test_verdicts_checked");
  }
  // ---- (c) + (d) LSP
  let mut lsp = match Lsp::start(&dir.path) {
    Ok(l) => l,
    Err(e) => return Err(Fail::new("inconclusive:lsp-start", e)),
  };
  let abs = dir.path.join(&file);
  let uri = uri_of(&abs);
  lsp.notify(
    "textDocument/didOpen",
    json!({"textDocument": {"uri": uri, "languageId": case.lang.to_lowercase(), "version": 1, "text": text}}),
  );
  if !lsp.pump_until(|l| l.publishes.iter().any(|p| p.uri == uri), Duration::from_secs(20)) {
    return Err(Fail::new("inconclusive:watchdog", "no publishDiagnostics after didOpen"));
  }
  let got = lsp_findings(text, &lsp.last_publish(&uri).unwrap().diagnostics);
  let want = expected_lsp(case, &base);
  if got != want {
    fail!("C09:lsp-diagnostics-differ", "publishDiagnostics lists {:?}; scan --json (mapped to LSP messages) lists {:?}\ntext {:?}", got, want, text);
  }
  st.label("lsp_open_checked");
  // (d) history on up to three other documents
  let mut model: BTreeMap<usize, (i64, usize)> = BTreeMap::new();
  let doc_uri = |d: usize| uri_of(&dir.path.join(format!("src/h{d}.{}", case.ext)));
  let mut stale_after_newer = false;
  for op in &case.history {
    let before_logs = (lsp.count_log("Parsing doc."), lsp.count_log("Parsing changed doc."), lsp.count_log("file closed!"));
    let before_pubs = lsp.publishes.len();
    let mut expect_publish: Option<(String, i64)> = None;
    match op {
      Op::Open { doc, version, text } => {
        model.insert(*doc, (*version, *text));
        lsp.notify(
          "textDocument/didOpen",
          json!({"textDocument": {"uri": doc_uri(*doc), "languageId": "x", "version": version, "text": case.texts[*text]}}),
        );
        expect_publish = Some((doc_uri(*doc), *version));
      }
      Op::Change { doc, version, text, shape } => {
        if let Some((v, _)) = model.get(doc).cloned() {
          if *shape == 2 {
            // no content change: nothing to apply
          } else if *version > v {
            model.insert(*doc, (*version, *text));
            expect_publish = Some((doc_uri(*doc), *version));
          } else {
            stale_after_newer = true;
          }
        }
        lsp.notify(
          "textDocument/didChange",
          json!({"textDocument": {"uri": doc_uri(*doc), "version": version}, "contentChanges": match shape {
            1 => json!([{"text": case.texts[(*text + 1) % case.texts.len()]}, {"text": case.texts[*text]}]),
            2 => json!([]),
            _ => json!([{"text": case.texts[*text]}]),
          }}),
        );
      }
      Op::Close { doc } => {
        model.remove(doc);
        lsp.notify("textDocument/didClose", json!({"textDocument": {"uri": doc_uri(*doc)}}));
      }
    }
    if matches!(op, Op::Change { shape: 2, .. }) {
      // nothing is applied and nothing is logged for a change without content
      lsp.settle(Duration::from_millis(20));
      continue;
    }
    if !case.burst {
      // sequential delivery: wait until this notification has been handled
      let ok = lsp.pump_until(
        |l| {
          let logs = (l.count_log("Parsing doc."), l.count_log("Parsing changed doc."), l.count_log("file closed!"));
          let logged = logs.0 + logs.1 + logs.2 > before_logs.0 + before_logs.1 + before_logs.2;
          let published = match &expect_publish {
            Some((u, v)) => l.publishes[before_pubs..].iter().any(|p| p.uri == *u && p.version == Some(*v)),
            None => true,
          };
          logged && published
        },
        Duration::from_secs(20),
      );
      if !ok {
        // the expected publication never came: that is a verdict only if the model expected one
        if let Some((u, v)) = &expect_publish {
          fail!("C09:lsp-history:missing-publication", "no publishDiagnostics for {u} version {v} after {op:?}");
        }
        return Err(Fail::new("inconclusive:watchdog", format!("no completion signal for {op:?}")));
      }
      if expect_publish.is_none() {
        lsp.settle(Duration::from_millis(15));
      }
    }
  }
  // quiescence: everything sent has been logged, a final request answered
  let (n_open, n_change, n_close) = case.history.iter().fold((1usize, 0usize, 0usize), |a, o| match o {
    Op::Open { .. } => (a.0 + 1, a.1, a.2),
    Op::Change { shape: 2, .. } => a,
    Op::Change { .. } => (a.0, a.1 + 1, a.2),
    Op::Close { .. } => (a.0, a.1, a.2 + 1),
  });
  let ok = lsp.pump_until(
    |l| l.count_log("Parsing doc.") >= n_open && l.count_log("Parsing changed doc.") >= n_change && l.count_log("file closed!") >= n_close,
    Duration::from_secs(20),
  );
  if !ok {
    return Err(Fail::new("inconclusive:watchdog", "not all notifications were logged"));
  }
  lsp.settle(Duration::from_millis(if case.burst { 150 } else { 30 }));
  let _ = lsp.request("workspace/executeCommand", json!({"command": "vprop.barrier", "arguments": []}), Duration::from_secs(20));
  lsp.settle(Duration::from_millis(10));
  for (doc, (version, text)) in &model {
    let u = doc_uri(*doc);
    let want_text = &case.texts[*text];
    // expected findings for that text: ask the CLI
    dir.write(&format!("probe/p.{}", case.ext), want_text.as_bytes());
    let probe = findings_from_json(&scan_json(&dir, &format!("probe/p.{}", case.ext), "stream")?);
    let want = expected_lsp(case, &probe);
    let Some(last) = lsp.last_publish(&u) else {
      fail!(
        if case.burst { "C09:lsp-history:burst:no-publication" } else { "C09:lsp-history:no-publication" },
        "no diagnostics were ever published for open document {u}"
      );
    };
    let got = lsp_findings(want_text, &last.diagnostics);
    if last.version != Some(*version) || got != want {
      fail!(
        if case.burst { "C09:lsp-history:burst" } else { "C09:lsp-history" },
        "last published diagnostics for {u} carry version {:?} with {} finding(s); the highest version received is {version} whose text has {} finding(s)\nhistory: {:?}",
        last.version,
        got.len(),
        want.len(),
        case.history
      );
    }
  }
  if !case.history.is_empty() {
    st.label(if case.burst { "history_burst" } else { "history_sequential" });
  }
  if stale_after_newer {
    st.label("stale_version_arrives_late");
  }
  let substituted = base.iter().any(|f| case.rules.iter().any(|r| r.id == f.0 && r.message.contains('$')));
  if substituted || stale_after_newer {
    st.label("nontrivial");
    st.nontrivial(&(&case.lang, format!("{:?}", case.rules), &case.texts, format!("{:?}", case.history), case.burst));
    if st.wants_sample() {
      st.sample(json!({"lang": case.lang, "rules": case.rules, "text": text, "findings": base.len(), "history": case.history, "burst": case.burst}));
    }
  }
  Ok(())
}

pub fn run(cfg: &RunCfg) -> i32 {
  let mut report = Report::new(
    cfg,
    "case = (JavaScript/TypeScript/Python/Rust project with 1-4 rules: messages with $VAR / $$$VAR, empty message, notes, every severity incl. off; a text of 1-6 statements incl. nested / multi-line calls and multi-byte arguments; a rule of another language next to them; an LSP history of 0-17 open/change/close notifications on 3 documents with fresh and stale versions, changes with one, two or no content change, delivered sequentially or as a burst). Findings are normalised to multisets of (ruleId, start byte, end byte, message) and compared across scan --json=stream|pretty|compact, scan --stdin -r, --format github, sg test verdicts (and the swapped headings must fail), publishDiagnostics after didOpen, and the last publication per open document after the history. Non-trivial = distinct case with a variable-substituting message among the findings or a stale version arriving after a newer one.",
  );
  report.assume("LSP ranges are compared in character columns (O-pos), the mapping the server documents");
  report.assume("equal versions are not generated (the property orders versions strictly)");
  let known = Known::load(&cfg.prop);
  if let Some(path) = &cfg.replay {
    return crate::replay_main::<Case>(cfg, path, check);
  }
  crate::replay_known::<Case>(&mut report, &known, check);
  let total = cfg.budget(1_000, 30_000);
  let o = drive(cfg, "front-ends", total, &known, strategy, interpret, check);
  report.absorb("front-ends", o);
  cli::cleanup_work_root();
  report.floor("stale_version_arrives_late", 0.25, "evaluations");
  report.finish()
}
