//! C16 — everything the CLI prints about a match agrees with the bytes on disk.
use crate::cli::{self, TempDir};
use crate::engine::*;
use crate::fail;
use crate::tsutil::o_pos;
use proptest::prelude::*;
use serde::{Deserialize, Serialize};
use serde_json::{json, Value};

#[derive(Clone, Debug, Serialize, Deserialize)]
pub struct Case {
  pub files: Vec<(String, String)>,
  /// "run" pattern or "scan" rule
  pub pattern: Option<String>,
  pub rewrite: Option<String>,
  pub rule_yaml: Option<String>,
  pub before: u16,
  pub after: u16,
  /// "pretty" | "stream" | "compact" | "default"
  pub json_style: String,
  /// language of `run -l` (default js); "c" for the files of preprocessor lines, whose matches
  /// end with their line break
  #[serde(default)]
  pub lang: Option<String>,
}

#[derive(Clone, Debug)]
pub enum Line {
  Call(u8, u8),
  MultiLineCall(u8, u8),
  Comment(u8),
  Blank,
  Long(u8),
  Other(u8),
}

#[derive(Clone, Debug)]
pub struct FileC {
  lines: Vec<Line>,
  crlf: bool,
  trailing_newline: bool,
  indent: u8,
}

#[derive(Clone, Debug)]
pub struct Choice {
  files: Vec<FileC>,
  query: u8,
  before: u16,
  after: u16,
  ctx_mode: u8,
  style: u8,
}

pub fn strategy() -> BoxedStrategy<Choice> {
  let line = prop_oneof![
    5 => (0u8..6, 0u8..8).prop_map(|(f, a)| Line::Call(f, a)),
    2 => (0u8..6, 0u8..8).prop_map(|(f, a)| Line::MultiLineCall(f, a)),
    2 => (0u8..6).prop_map(Line::Comment),
    2 => Just(Line::Blank),
    1 => (0u8..4).prop_map(Line::Long),
    2 => (0u8..8).prop_map(Line::Other),
  ];
  let file = (prop::collection::vec(line, 0..14), any::<bool>(), any::<bool>(), 0u8..4).prop_map(|(lines, crlf, trailing_newline, indent)| FileC {
    lines,
    crlf,
    trailing_newline,
    indent,
  });
  (
    prop_oneof![3 => prop::collection::vec(file.clone(), 1..5), 1 => prop::collection::vec(file, 5..30)],
    0u8..13,
    0u16..6,
    0u16..6,
    0u8..4,
    0u8..5,
  )
    .prop_map(|(files, query, before, after, ctx_mode, style)| Choice {
      files,
      query,
      before,
      after,
      ctx_mode,
      style,
    })
    .boxed()
}

const ARGS: &[&str] = &["1", "a", "\"héllo\"", "\"日本語\"", "'😀'", "a, b", "bar(2)", "\"x\" + é"];
const FUNCS: &[&str] = &["foo", "foo", "foo", "bar", "fóo", "foo"];

fn render(f: &FileC) -> String {
  let nl = if f.crlf { "\r\n" } else { "\n" };
  let pad = " ".repeat(f.indent as usize);
  let mut out: Vec<String> = vec![];
  for l in &f.lines {
    match l {
      Line::Call(fi, a) => out.push(format!("{pad}{}({});", FUNCS[*fi as usize % FUNCS.len()], ARGS[*a as usize % ARGS.len()])),
      Line::MultiLineCall(fi, a) => {
        out.push(format!("{pad}{}(", FUNCS[*fi as usize % FUNCS.len()]));
        // sometimes with an empty line inside the match
        if a % 3 == 0 {
          out.push(String::new());
        }
        out.push(format!("{pad}  {}", ARGS[*a as usize % ARGS.len()]));
        out.push(format!("{pad});"));
      }
      Line::Comment(c) => out.push(format!("{pad}// {}", ["note", "日本語のコメント", "émoji 😀😀", "foo(1) in a comment", "", "ü"][*c as usize % 6])),
      Line::Blank => out.push(String::new()),
      Line::Long(k) => {
        // multi-byte lines that pass 4 KiB and 8 KiB of one line, an ASCII line of 70 KB
        let n = [600usize, 5_200, 70_000, 9_000][*k as usize % 4];
        let body = if k % 2 == 0 { "x".repeat(n) } else { "é".repeat(n / 2) };
        out.push(format!("{pad}let s = \"{body}\"; foo(9);"));
      }
      Line::Other(o) => out.push(format!(
        "{pad}{}",
        [
          "let é = 1;",
          "bar();",
          "if (a) { foo(a) }",
          "x = [foo(1), foo(2)];",
          "return;",
          "baz(foo(bar(2)));",
          // a bare CR is not a line break for positions: columns keep counting from the last LF
          "foo(1);\rfoo(a); // é\r tail",
          "let t = `a\r${foo(2)} é`; foo(\"x\");",
        ][*o as usize % 8]
      )),
    }
  }
  let mut s = out.join(nl);
  if f.trailing_newline && !out.is_empty() {
    s.push_str(nl);
  }
  s
}

/// C files made of preprocessor lines (their nodes end with the line break), declarations and
/// comments
fn render_c(f: &FileC) -> String {
  let nl = if f.crlf { "\r\n" } else { "\n" };
  let mut out: Vec<String> = vec![];
  for (i, l) in f.lines.iter().enumerate() {
    out.push(match l {
      Line::Call(fi, a) if fi % 2 == 0 => format!("#include <a{a}.h>"),
      Line::Call(_, a) => format!("#define FOO{i} {a}"),
      Line::MultiLineCall(_, a) => format!("int x{i} = {a};"),
      Line::Comment(c) => format!("// é comment {c} 日本"),
      Line::Blank => String::new(),
      Line::Long(k) => format!("int y{i}; // {}", "é".repeat(300 + *k as usize * 50)),
      Line::Other(o) => format!("#include \"b{o}.h\""),
    });
  }
  let mut s = out.join(nl);
  if f.trailing_newline && !out.is_empty() {
    s.push_str(nl);
  }
  s
}

pub fn interpret(ch: &Choice, _st: &mut Stats) -> Option<Case> {
  let mut files = vec![];
  let c_lang = ch.query >= 10;
  for (i, f) in ch.files.iter().enumerate() {
    let dir = match i % 4 {
      0 => "",
      1 => "src/",
      2 => "src/deep/",
      _ => "lib/",
    };
    if c_lang {
      files.push((format!("{dir}f{i}.c"), render_c(f)));
    } else {
      files.push((format!("{dir}f{i}.js"), render(f)));
    }
  }
  let (before, after) = match ch.ctx_mode {
    0 => (0, 0),
    1 => (ch.before, ch.after),
    2 => (ch.before, ch.before),
    _ => (0, ch.after),
  };
  let json_style = ["pretty", "stream", "compact", "default", "stream"][ch.style as usize % 5].to_string();
  let (pattern, rewrite, rule_yaml) = match ch.query {
    0 | 1 => (Some("foo($A)".to_string()), None, None),
    2 => (Some("foo($$$ARGS)".to_string()), None, None),
    3 => (Some("foo($A)".to_string()), Some("bar($A, $A)".to_string()), None),
    4 => (Some("$F($$$)".to_string()), None, None),
    5 => (
      None,
      None,
      Some(
        "id: r1\nlanguage: JavaScript\nmessage: found $A\nrule:\n  pattern: foo($A)\ntransform:\n  UP:\n    convert: {source: $A, toCase: upperCase}\nfix: bar($UP)\n".to_string(),
      ),
    ),
    6 => (
      None,
      None,
      Some("id: r2\nlanguage: JavaScript\nseverity: warning\nrule:\n  kind: call_expression\n  has: {kind: arguments, has: {kind: string}}\nfix:\n  template: ''\n  expandEnd: {regex: '^;$'}\n".to_string()),
    ),
    7 => (Some("\"$S\"".to_string()), None, None),
    // matches that include the CR of a CRLF line ending (comments run to the end of the line)
    8 => (None, None, Some("id: r3\nlanguage: JavaScript\nmessage: comment\nrule:\n  kind: comment\n".to_string())),
    // matches that end with their line break
    10 => (Some("#include $A".to_string()), None, None),
    11 => (None, None, Some("id: r4\nlanguage: C\nmessage: define\nrule:\n  kind: preproc_def\n".to_string())),
    12 => (None, None, Some("id: r5\nlanguage: C\nmessage: include\nrule:\n  kind: preproc_include\nfix: ''\n".to_string())),
    _ => (Some("`$$$T`".to_string()), None, None),
  };
  Some(Case {
    files,
    pattern,
    rewrite,
    rule_yaml,
    before,
    after,
    json_style,
    lang: c_lang.then(|| "c".to_string()),
  })
}

fn line_start(bytes: &[u8], off: usize) -> usize {
  bytes[..off].iter().rposition(|b| *b == b'\n').map(|i| i + 1).unwrap_or(0)
}

fn check_range_obj(file: &[u8], obj: &Value, what: &str) -> Result<(usize, usize), Fail> {
  let r = obj.get("range").ok_or_else(|| Fail::new("C16:record-shape", format!("{what}: no range")))?;
  let s = r["byteOffset"]["start"].as_u64().ok_or_else(|| Fail::new("C16:record-shape", "byteOffset.start"))? as usize;
  let e = r["byteOffset"]["end"].as_u64().ok_or_else(|| Fail::new("C16:record-shape", "byteOffset.end"))? as usize;
  if s > e || e > file.len() {
    fail!("C16:range-out-of-bounds", "{what}: byteOffset {s}..{e} outside file of {} bytes", file.len());
  }
  let text = obj["text"].as_str().unwrap_or("");
  if text.as_bytes() != &file[s..e] {
    fail!("C16:text-differs-from-bytes", "{what}: text {:?} differs from the file bytes at {s}..{e}", text.chars().take(60).collect::<String>());
  }
  let (sl, sc) = o_pos(file, s);
  let (el, ec) = o_pos(file, e);
  let got = (
    r["start"]["line"].as_u64().unwrap_or(u64::MAX) as usize,
    r["start"]["column"].as_u64().unwrap_or(u64::MAX) as usize,
    r["end"]["line"].as_u64().unwrap_or(u64::MAX) as usize,
    r["end"]["column"].as_u64().unwrap_or(u64::MAX) as usize,
  );
  if got != (sl, sc, el, ec) {
    fail!(
      "C16:position",
      "{what}: start/end reported as {:?}, recomputed from offsets {s}..{e}: {:?}",
      got,
      (sl, sc, el, ec)
    );
  }
  Ok((s, e))
}

pub fn check(case: &Case, st: &mut Stats) -> CheckResult {
  let dir = TempDir::new("c16");
  for (p, t) in &case.files {
    dir.write(&format!("proj/{p}"), t.as_bytes());
  }
  let json_flag = match case.json_style.as_str() {
    "default" => "--json".to_string(),
    s => format!("--json={s}"),
  };
  let b = case.before.to_string();
  let a = case.after.to_string();
  let parg = case.pattern.as_ref().map(|p| format!("--pattern={p}"));
  let rarg = case.rewrite.as_ref().map(|r| format!("--rewrite={r}"));
  let mut base: Vec<&str> = vec![];
  let is_run = case.pattern.is_some();
  if let Some(p) = &parg {
    base.extend(["run", p.as_str(), "-l", case.lang.as_deref().unwrap_or("js")]);
    if let Some(r) = &rarg {
      base.push(r);
    }
  } else {
    dir.write("rule.yml", case.rule_yaml.as_ref().unwrap().as_bytes());
    base.extend(["scan", "-r", "../rule.yml"]);
  }
  // both commands take the context flags
  if case.before == case.after && case.before > 0 {
    base.extend(["-C", b.as_str()]);
  } else {
    if case.before > 0 {
      base.extend(["-B", b.as_str()]);
    }
    if case.after > 0 {
      base.extend(["-A", a.as_str()]);
    }
  }
  let proj = dir.path.join("proj");
  let mut args = base.clone();
  args.push(&json_flag);
  let out = cli::sgv(&args, &proj, None);
  if out.timed_out {
    return Err(Fail::new("inconclusive:watchdog", "sgv did not finish"));
  }
  if out.panicked() {
    fail!("C16:cli-panic", "sgv panicked: {}", out.stderr_str().chars().take(300).collect::<String>());
  }
  st.eval();
  let recs = match case.json_style.as_str() {
    "stream" => out.json_lines_strict(),
    _ => out.json_array(),
  };
  let recs = match recs {
    Ok(r) => r,
    Err(e) => fail!(format!("C16:malformed-json:{}", case.json_style), "{e}\nstdout head: {:?}\nstderr: {}", out.stdout_str().chars().take(200).collect::<String>(), out.stderr_str().chars().take(200).collect::<String>()),
  };
  let (before, after) = (case.before as usize, case.after as usize);
  let mut files_with_records = std::collections::BTreeSet::new();
  let mut clipped = false;
  let mut col_differs = false;
  for r in &recs {
    let fname = cli::norm_path(r["file"].as_str().unwrap_or(""));
    let Some((_, content)) = case.files.iter().find(|(p, _)| *p == fname) else {
      fail!("C16:unknown-file", "record for unknown file {fname:?}");
    };
    files_with_records.insert(fname.clone());
    let file = content.as_bytes();
    let (s, e) = check_range_obj(file, r, &format!("{fname} match"))?;
    // ---- lines + charCount
    let lines = r["lines"].as_str().unwrap_or("");
    let lead = r["charCount"]["leading"].as_u64().unwrap_or(u64::MAX) as usize;
    let trail = r["charCount"]["trailing"].as_u64().unwrap_or(u64::MAX) as usize;
    // expected start: go up `before` lines from the line of s (as far as available)
    let mut ls = line_start(file, s);
    let mut up = 0;
    while up < before && ls > 0 {
      ls = line_start(file, ls - 1);
      up += 1;
    }
    if up < before {
      clipped = true;
    }
    // expected end: the (after+1)-th newline at or after e, or EOF
    let ends_with_nl = e > s && file[e - 1] == b'\n';
    let end_for = |skip_extra: usize| -> usize {
      let mut pos = e;
      let mut remaining = after + 1 - skip_extra.min(after + 1);
      if remaining == 0 {
        return e;
      }
      loop {
        match file[pos..].iter().position(|b| *b == b'\n') {
          Some(i) => {
            remaining -= 1;
            if remaining == 0 {
              return pos + i;
            }
            pos = pos + i + 1;
          }
          None => return file.len(),
        }
      }
    };
    // a match that ends with its line break covers whole lines already: nothing is left of a
    // "current" line, the context lines start right after it
    let le = if ends_with_nl { end_for(1).max(e) } else { end_for(0) };
    if ends_with_nl {
      st.label("match_ends_with_line_break");
    }
    if le == file.len() && after > 0 {
      clipped = true;
    }
    let expect = &file[ls..le];
    let ok = lines.as_bytes() == expect;
    let used_le = le;
    if !ok {
      fail!(
        "C16:lines",
        "{fname}: `lines` is {:?} but whole lines with context (-B {before} -A {after}) around {s}..{e} are {:?}",
        lines.chars().take(120).collect::<String>(),
        String::from_utf8_lossy(expect).chars().take(120).collect::<String>()
      );
    }
    let exp_lead = String::from_utf8_lossy(&file[ls..s]).chars().count();
    let exp_trail = String::from_utf8_lossy(&file[e..used_le]).chars().count();
    if (lead, trail) != (exp_lead, exp_trail) {
      fail!("C16:charCount", "{fname}: charCount is ({lead}, {trail}), recomputed ({exp_lead}, {exp_trail}) for match {s}..{e}");
    }
    if o_pos(file, s).1 != s - line_start(file, s) {
      col_differs = true;
    }
    // ---- meta variables
    if let Some(mv) = r.get("metaVariables") {
      if let Some(single) = mv["single"].as_object() {
        for (k, v) in single {
          check_range_obj(file, v, &format!("{fname} ${k}"))?;
        }
      }
      if let Some(multi) = mv["multi"].as_object() {
        for (k, arr) in multi {
          for v in arr.as_array().into_iter().flatten() {
            check_range_obj(file, v, &format!("{fname} $$${k}"))?;
          }
        }
      }
      st.label("records_with_metavariables");
    }
    // ---- replacement offsets
    if let Some(ro) = r.get("replacementOffsets") {
      let rs = ro["start"].as_u64().unwrap_or(u64::MAX) as usize;
      let re = ro["end"].as_u64().unwrap_or(u64::MAX) as usize;
      let valid = rs <= re && re <= file.len() && content.is_char_boundary(rs) && content.is_char_boundary(re);
      if !valid {
        fail!("C16:replacementOffsets", "{fname}: replacementOffsets {rs}..{re} is not a valid range of the file ({} bytes)", file.len());
      }
      if rs > s || re < s {
        fail!("C16:replacementOffsets", "{fname}: replacementOffsets {rs}..{re} does not start at / contain the match start {s}");
      }
      if r.get("replacement").and_then(|x| x.as_str()).is_none() {
        fail!("C16:record-shape", "replacementOffsets without replacement");
      }
      st.label("records_with_replacement");
    }
    st.label("json_records");
  }
  st.label(&format!("json_{}", case.json_style));
  // ---- plain report
  if is_run && case.rewrite.is_none() {
    let mut pargs = base.clone();
    pargs.extend(["--color", "never", "--heading", "never"]);
    let out = cli::sgv(&pargs, &proj, None);
    if out.timed_out {
      return Err(Fail::new("inconclusive:watchdog", "sgv did not finish"));
    }
    if out.panicked() {
      fail!("C16:cli-panic", "sgv panicked (plain report): {}", out.stderr_str().chars().take(300).collect::<String>());
    }
    let text = out.stdout_str();
    let mut n_lines = 0;
    for l in text.lines() {
      if l == "--" || l.is_empty() {
        continue;
      }
      // path:N:text
      let mut it = l.splitn(3, ':');
      let (Some(p), Some(n), Some(t)) = (it.next(), it.next(), it.next()) else {
        fail!("C16:plain-format", "line {l:?} is not path:line:text");
      };
      let p = cli::norm_path(p);
      let Some((_, content)) = case.files.iter().find(|(fp, _)| *fp == p) else {
        fail!("C16:plain-format", "unknown path in {l:?}");
      };
      let Ok(n) = n.parse::<usize>() else {
        fail!("C16:plain-format", "line number in {l:?}");
      };
      let real = content.split('\n').nth(n.wrapping_sub(1));
      let Some(real) = real else {
        fail!("C16:plain-line", "{p}:{n} does not exist (file has {} lines)", content.split('\n').count());
      };
      let real_trim = real.strip_suffix('\r').unwrap_or(real);
      if t != real && t != real_trim {
        fail!(
          "C16:plain-line",
          "{p}:{n} is printed as {:?} but that line of the file is {:?}",
          t.chars().take(100).collect::<String>(),
          real_trim.chars().take(100).collect::<String>()
        );
      }
      n_lines += 1;
    }
    st.label_n("plain_lines_checked", n_lines);
  }
  if files_with_records.len() >= 2 {
    st.label("multi_file_output");
  }
  if col_differs {
    st.label("column_differs_from_byte_column");
  }
  if clipped {
    st.label("context_clipped_by_file_boundary");
  }
  if !recs.is_empty() && (col_differs || clipped || files_with_records.len() >= 2) {
    st.label("nontrivial");
    st.nontrivial(&(&case.files, &case.pattern, &case.rule_yaml, case.before, case.after, &case.json_style));
    if st.wants_sample() {
      st.sample(json!({"files": case.files.iter().map(|(p, t)| (p.clone(), t.len())).collect::<Vec<_>>(), "pattern": case.pattern, "rewrite": case.rewrite, "rule": case.rule_yaml,
        "before": case.before, "after": case.after, "json": case.json_style, "records": recs.len()}));
    }
  }
  Ok(())
}

pub fn run(cfg: &RunCfg) -> i32 {
  let mut report = Report::new(
    cfg,
    "case = (1-29 generated JavaScript files (or, for three of the 13 queries, C files of preprocessor lines, whose nodes end with their line break): call lines, multi-line calls, comments and strings with 2/3/4-byte characters, blank lines, lines > 512 bytes and > 64 kB, CRLF or LF, with or without trailing newline, matches at byte 0 and EOF; query: run -p (single / multi / rewrite) or scan -r (transform + fix, expandEnd); -A/-B/-C 0-5; --json / =pretty / =stream / =compact; plus the plain report). Every JSON record is recomputed from the file bytes (text, positions, lines + charCount with context, metaVariables, replacementOffsets) and every path:N:text line of the plain report against line N. evaluations = CLI runs; labels.json_records = records checked. Non-trivial = distinct case with records whose column differs from the byte column, context clipped by the file boundary, or >= 2 matching files.",
  );
  report.assume("a match whose text ends in a newline may count the following line either way");
  report.assume("a trailing \\r of a CRLF line is accepted either way in the plain report");
  let known = Known::load(&cfg.prop);
  if let Some(path) = &cfg.replay {
    return crate::replay_main::<Case>(cfg, path, check);
  }
  crate::replay_known::<Case>(&mut report, &known, check);
  let total = cfg.budget(5_000, 200_000);
  let o = drive(cfg, "cli-output", total, &known, strategy, interpret, check);
  report.absorb("cli-output", o);
  cli::cleanup_work_root();
  report.floor("column_differs_from_byte_column", 0.3, "evaluations");
  report.floor("context_clipped_by_file_boundary", 0.2, "evaluations");
  report.finish()
}
