//! Reference utilities over *raw* tree-sitter nodes (never through ast-grep's cursors /
//! traversals): O-tree dump, pre-order lists, O-pos.
use ast_grep_core::{AstGrep, Language, StrDoc};
use ast_grep_language::SupportLang;
use tree_sitter::Node as TsNode;

pub type Sg = AstGrep<StrDoc<SupportLang>>;
pub type SgNode<'a> = ast_grep_core::Node<'a, StrDoc<SupportLang>>;

pub fn parse(lang: SupportLang, src: &str) -> Sg {
  lang.ast_grep(src)
}

#[derive(Clone, Debug, PartialEq, Eq, Hash)]
pub struct DumpRow {
  pub depth: u32,
  pub kind: u16,
  pub named: bool,
  pub start: u32,
  pub end: u32,
  pub missing: bool,
}

/// O-tree: plain recursion with child(i).
pub fn dump(root: TsNode) -> Vec<DumpRow> {
  let mut out = vec![];
  fn rec(n: TsNode, depth: u32, out: &mut Vec<DumpRow>) {
    out.push(DumpRow {
      depth,
      kind: n.kind_id(),
      named: n.is_named(),
      start: n.start_byte(),
      end: n.end_byte(),
      missing: n.is_missing(),
    });
    let cnt = n.child_count();
    for i in 0..cnt {
      if let Some(c) = n.child(i) {
        rec(c, depth + 1, out);
      }
    }
  }
  rec(root, 0, &mut out);
  out
}

/// pre-order list of raw nodes by plain recursion
pub fn preorder<'a>(root: TsNode<'a>) -> Vec<TsNode<'a>> {
  let mut out = vec![];
  fn rec<'a>(n: TsNode<'a>, out: &mut Vec<TsNode<'a>>) {
    out.push(n.clone());
    let cnt = n.child_count();
    for i in 0..cnt {
      if let Some(c) = n.child(i) {
        rec(c, out);
      }
    }
  }
  rec(root, &mut out);
  out
}

pub fn children<'a>(n: &TsNode<'a>) -> Vec<TsNode<'a>> {
  (0..n.child_count()).filter_map(|i| n.child(i)).collect()
}

/// does the subtree contain an ERROR or MISSING node
pub fn subtree_has_error(n: &TsNode) -> bool {
  n.has_error() || n.is_error() || n.is_missing()
}

/// does the subtree contain a zero-width node (other than an empty root)
pub fn has_zero_width(root: TsNode) -> bool {
  preorder(root)
    .iter()
    .skip(1)
    .any(|n| n.start_byte() == n.end_byte())
}

/// O-pos: (line, character column) of a byte offset.
pub fn o_pos(bytes: &[u8], off: usize) -> (usize, usize) {
  let off = off.min(bytes.len());
  let mut line = 0;
  let mut last_nl = 0; // offset after last newline
  for (i, b) in bytes[..off].iter().enumerate() {
    if *b == b'\n' {
      line += 1;
      last_nl = i + 1;
    }
  }
  let col = bytes[last_nl..off]
    .iter()
    .filter(|b| (**b & 0xC0) != 0x80)
    .count();
  (line, col)
}

pub fn text<'s>(src: &'s str, n: &TsNode) -> &'s str {
  let s = n.start_byte() as usize;
  let e = (n.end_byte() as usize).min(src.len());
  src.get(s..e).unwrap_or("")
}

/// (field name, child) pairs of a node, by cursor walk over raw tree-sitter
pub fn children_with_fields<'a>(n: &TsNode<'a>) -> Vec<(Option<String>, TsNode<'a>)> {
  let mut out = vec![];
  let mut c = n.walk();
  if !c.goto_first_child() {
    return out;
  }
  loop {
    out.push((c.field_name().map(|s| s.to_string()), c.node()));
    if !c.goto_next_sibling() {
      break;
    }
  }
  out
}

pub fn is_comment_kind(kind: &str) -> bool {
  kind.contains("comment")
}
