//! C20 — meta-variable syntax is uniform across languages; small notations are exact.
//! Bounded-exhaustive enumeration (plus seed-chosen samples beyond the bound in quick tier).
use crate::c07::{o_template, scan_template, Bound, Tok};
use crate::engine::*;
use crate::fail;
use crate::langs::{self, LANGS};
use crate::rules::{anb_selects, parse_anb};
use crate::tsutil::parse;
use ast_grep_config::{from_yaml_string, GlobalRules};
use ast_grep_core::matcher::{MatcherExt, PatternNode};
use ast_grep_core::meta_var::MetaVariable;
use ast_grep_core::replacer::{Replacer, TemplateFix};
use ast_grep_core::Pattern;
use ast_grep_language::SupportLang;
use serde::{Deserialize, Serialize};
use serde_json::json;
use std::collections::BTreeMap;

#[derive(Clone, Debug, Serialize, Deserialize)]
pub enum Case {
  Spelling { lang: String, spelling: String },
  AnB { formula: String },
  Substring { text: String, start: Option<i32>, end: Option<i32> },
  Template { template: String },
}

/// one leaf context per language: pattern = prefix + SPELLING + suffix
pub fn context(lang: SupportLang) -> (&'static str, &'static str) {
  use SupportLang::*;
  match lang {
    Bash => ("echo ", ""),
    C => ("foo(", ");"),
    Cpp => ("foo(", ");"),
    CSharp => ("int a = ", ";"),
    Css => (".a { color: ", "; }"),
    Elixir => ("IO.puts(", ")"),
    Go => ("print(", ")"),
    Haskell => ("return ", ""),
    Html => ("<", ">"),
    Java => ("foo(", ");"),
    JavaScript => ("foo(", ")"),
    Json => ("[", "]"),
    Kotlin => ("println(", ")"),
    Lua => ("print(", ")"),
    Php => ("foo(", ")"),
    Python => ("print(", ")"),
    Ruby => ("foo(", ")"),
    Rust => ("foo(", ")"),
    Scala => ("println(", ")"),
    Swift => ("fun(", ")"),
    Tsx => ("foo(", ")"),
    TypeScript => ("foo(", ")"),
    Yaml => ("foo: ", ""),
  }
}

#[derive(Clone, Debug, PartialEq, Eq)]
pub enum Class {
  NotHole,
  Capture(String, bool),
  Dropped(bool),
  Ellipsis,
  NamedEllipsis(String),
}

impl Class {
  fn label(&self) -> String {
    match self {
      Class::NotHole => "not-a-hole".into(),
      Class::Capture(_, true) => "named-node-capture".into(),
      Class::Capture(_, false) => "any-node-capture".into(),
      Class::Dropped(true) => "non-capturing-named".into(),
      Class::Dropped(false) => "non-capturing-any".into(),
      Class::Ellipsis => "anonymous-ellipsis".into(),
      Class::NamedEllipsis(_) => "named-ellipsis".into(),
    }
  }
}

/// reference classifier over the `$` spelling
pub fn classify(s: &str) -> Class {
  let is_name = |t: &str| {
    let mut c = t.chars();
    matches!(c.next(), Some('A'..='Z')) && c.all(|x| x.is_ascii_uppercase() || x.is_ascii_digit() || x == '_')
  };
  let is_anon = |t: &str| t.starts_with('_') && t.chars().all(|x| x.is_ascii_uppercase() || x.is_ascii_digit() || x == '_');
  if let Some(rest) = s.strip_prefix("$$$") {
    if rest.is_empty() || is_anon(rest) {
      return Class::Ellipsis;
    }
    if is_name(rest) {
      return Class::NamedEllipsis(rest.to_string());
    }
    return Class::NotHole;
  }
  if let Some(rest) = s.strip_prefix("$$") {
    if is_name(rest) {
      return Class::Capture(rest.to_string(), false);
    }
    if is_anon(rest) {
      return Class::Dropped(false);
    }
    return Class::NotHole;
  }
  if let Some(rest) = s.strip_prefix('$') {
    if is_name(rest) {
      return Class::Capture(rest.to_string(), true);
    }
    if is_anon(rest) {
      return Class::Dropped(true);
    }
  }
  Class::NotHole
}

fn collect_metavars(p: &PatternNode, out: &mut Vec<MetaVariable>, leaves: &mut Vec<String>) {
  match p {
    PatternNode::MetaVar { meta_var } => out.push(meta_var.clone()),
    PatternNode::Terminal { text, .. } => leaves.push(text.clone()),
    PatternNode::Internal { children, .. } => children.iter().for_each(|c| collect_metavars(c, out, leaves)),
  }
}

fn class_of(mv: &MetaVariable) -> Class {
  match mv {
    MetaVariable::Capture(n, named) => Class::Capture(n.clone(), *named),
    MetaVariable::Dropped(named) => Class::Dropped(*named),
    MetaVariable::Multiple => Class::Ellipsis,
    MetaVariable::MultiCapture(n) => Class::NamedEllipsis(n.clone()),
  }
}

/// Root-cause signature for the languages whose hole token cannot be formed uniformly:
/// C/C++/CSS use `_` (itself a name character) as expando; HTML tag names and JSON have no
/// identifier token that admits `_` / digits.
fn root_cause(lang_name: &str, spelling: &str) -> Option<String> {
  let has_us = spelling.contains('_');
  let name = spelling.trim_start_matches('$');
  match lang_name {
    // `$` becomes `_`, so an inner `$`, a fourth leading `$` or any `_` changes the name
    "C" | "Cpp" | "Css" if has_us || spelling.contains("$$$$") || name.contains('$') => Some(format!("C20:spelling:{lang_name}:expando-char-is-underscore")),
    "Html" if has_us => Some("C20:spelling:Html:underscore-splits-the-tag-name-token".into()),
    "Json" if name.chars().any(|c| c.is_ascii_digit() || c == '_') => Some("C20:spelling:Json:digit-or-underscore-splits-the-token".into()),
    _ => None,
  }
}

fn check_spelling(lang_name: &str, spelling: &str, st: &mut Stats) -> CheckResult {
  let lang: SupportLang = lang_name.parse().map_err(|_| Fail::new("bad-case", "lang"))?;
  let (pre, suf) = context(lang);
  let text = format!("{pre}{spelling}{suf}");
  let expected = classify(spelling);
  st.eval();
  let parsed = catch(|| Pattern::try_new(&text, lang));
  let pattern = match parsed {
    Ok(Ok(p)) => Some(p),
    Ok(Err(_)) => None,
    Err(p) => fail!(panic_signature(&p), "panic while parsing pattern {text:?} in {lang_name}: {p}"),
  };
  let (mvs, leaves) = match &pattern {
    Some(p) => {
      let mut m = vec![];
      let mut l = vec![];
      collect_metavars(&p.node, &mut m, &mut l);
      (m, l)
    }
    None => (vec![], vec![]),
  };
  if spelling.contains('$') && spelling != "$A" {
    st.nontrivial(&(lang_name, spelling));
  }
  match &expected {
    Class::NotHole => {
      // the spelling as a whole must not be a hole: violated when the tree has exactly one
      // meta variable and its literal leaves spell exactly the context around the slot
      let squash = |t: &str| t.chars().filter(|c| !c.is_whitespace()).collect::<String>();
      let leaf_concat = squash(&leaves.concat());
      let ctx_concat = squash(&format!("{pre}{suf}"));
      if mvs.len() == 1 && leaf_concat == ctx_concat && !spelling.is_empty() {
        fail!(
          root_cause(lang_name, spelling).unwrap_or_else(|| format!("C20:spelling:{lang_name}:not-a-hole->{}", class_of(&mvs[0]).label())),
          "`{spelling}` must not be a hole but pattern {text:?} in {lang_name} is {:?}",
          pattern.as_ref().map(|p| format!("{p:?}"))
        );
      }
      st.label("spelling_not_hole");
    }
    exp => {
      st.label("spelling_hole");
      let got: Vec<Class> = mvs.iter().map(class_of).collect();
      if got.len() != 1 || &got[0] != exp {
        fail!(
          root_cause(lang_name, spelling).unwrap_or_else(|| format!(
            "C20:spelling:{lang_name}:{}->{}",
            exp.label(),
            got.first().map(|c| c.label()).unwrap_or_else(|| if pattern.is_none() { "pattern-rejected".into() } else { "not-a-hole".into() })
          )),
          "`{spelling}` must be a {} in every language; pattern {text:?} in {lang_name} has holes {:?} (pattern tree {:?})",
          exp.label(),
          mvs,
          pattern.as_ref().map(|p| format!("{p:?}"))
        );
      }
    }
  }
  Ok(())
}

// ---------------------------------------------------------------------------------------

fn check_anb(formula: &str, st: &mut Stats) -> CheckResult {
  st.eval();
  let yaml = serde_yaml::to_string(&json!({
    "id": "r", "language": "JavaScript",
    "rule": {"kind": "number", "nthChild": formula}
  }))
  .unwrap();
  let globals = GlobalRules::default();
  let loaded = match catch(|| from_yaml_string::<SupportLang>(&yaml, &globals)) {
    Ok(r) => r,
    Err(p) => fail!(panic_signature(&p), "panic while loading nthChild {formula:?}: {p}"),
  };
  let reference = parse_anb(formula);
  // a formula consisting of digits only is read by YAML as a number when unquoted; here it is
  // always a string
  match (&loaded, reference) {
    (Err(_), None) => {
      st.label("anb_rejected_by_both");
      Ok(())
    }
    (Ok(_), None) => fail!("C20:anb:accepts-malformed", "nthChild {formula:?} is not an An+B formula but was accepted"),
    (Err(e), Some(ab)) => fail!("C20:anb:rejects-wellformed", "nthChild {formula:?} = {ab:?} was rejected: {e:?}"),
    (Ok(configs), Some((a, b))) => {
      st.label("anb_accepted");
      st.nontrivial(&("anb", formula));
      let src: String = format!("[{}]", (1..=40).map(|i| i.to_string()).collect::<Vec<_>>().join(", "));
      let sg = parse(SupportLang::JavaScript, &src);
      let nums: Vec<_> = sg
        .root()
        .find_all(ast_grep_core::matcher::KindMatcher::new("number", SupportLang::JavaScript))
        .collect();
      if nums.len() != 40 {
        fail!("bad-case", "expected 40 numbers");
      }
      for (k, n) in nums.iter().enumerate() {
        let i = k as i64 + 1;
        let got = configs[0].matcher.match_node(n.get_node().clone()).is_some();
        let want = anb_selects(a, b, i);
        if got != want {
          fail!(
            "C20:anb:selection",
            "nthChild {formula:?} (A={a}, B={b}): index {i} selected={got}, expected {want}"
          );
        }
      }
      Ok(())
    }
  }
}

fn py_slice(chars: &[char], start: Option<i32>, end: Option<i32>) -> String {
  let len = chars.len() as i64;
  let norm = |v: Option<i32>, dft: i64| -> i64 {
    match v {
      None => dft,
      Some(x) => {
        let x = x as i64;
        if x < 0 {
          (len + x).max(0)
        } else {
          x.min(len)
        }
      }
    }
  };
  let (s, e) = (norm(start, 0), norm(end, len));
  if s >= e {
    return String::new();
  }
  chars[s as usize..e as usize].iter().collect()
}

fn check_substring(text: &str, start: Option<i32>, end: Option<i32>, st: &mut Stats) -> CheckResult {
  st.eval();
  let mut sub = serde_json::Map::new();
  sub.insert("source".into(), json!("$A"));
  if let Some(s) = start {
    sub.insert("startChar".into(), json!(s));
  }
  if let Some(e) = end {
    sub.insert("endChar".into(), json!(e));
  }
  let yaml = serde_yaml::to_string(&json!({
    "id": "r", "language": "Python",
    "rule": {"pattern": "f(\"$A\")"},
    "transform": {"NEW": {"substring": sub}},
    "fix": "$NEW"
  }))
  .unwrap();
  let globals = GlobalRules::default();
  let configs = match catch(|| from_yaml_string::<SupportLang>(&yaml, &globals)) {
    Ok(Ok(c)) => c,
    Ok(Err(e)) => fail!("C20:substring:load", "substring rule rejected: {e:?}\n{yaml}"),
    Err(p) => fail!(panic_signature(&p), "panic while loading: {p}"),
  };
  let src = format!("f(\"{text}\")\n");
  let sg = parse(SupportLang::Python, &src);
  let Some(m) = sg.root().find(&configs[0].matcher) else {
    fail!("bad-case", "no match for {src:?}");
  };
  let got = m.get_env().get_transformed("NEW").map(|b| String::from_utf8_lossy(b).into_owned()).unwrap_or_default();
  let want = py_slice(&text.chars().collect::<Vec<_>>(), start, end);
  st.nontrivial(&("substring", text, start, end));
  if got != want {
    fail!(
      "C20:substring",
      "substring of {text:?} with startChar={start:?} endChar={end:?} is {got:?}, Python slice semantics gives {want:?}"
    );
  }
  Ok(())
}

fn check_template(template: &str, st: &mut Stats) -> CheckResult {
  st.eval();
  // tokens whose status the property leaves open: `_`-first names after a sigil. (Digit-first
  // names cannot be meta variables: `$1` is literal text of the template.)
  let b = template.as_bytes();
  for i in 0..b.len() {
    if b[i] == b'$' {
      let mut j = i;
      while j < b.len() && b[j] == b'$' {
        j += 1;
      }
      if j < b.len() && b[j] == b'_' {
        st.label("template_skipped_open_spelling");
        return Ok(());
      }
    }
  }
  // bind A, A1, AA and the multi variable A
  let src = "foo(x1, yy2, zzz3, 4)\n";
  let sg = parse(SupportLang::JavaScript, src);
  let pattern = Pattern::new("foo($A, $A1, $AA, $$$A)", SupportLang::JavaScript);
  let Some(nm) = sg.root().find(&pattern) else {
    fail!("bad-case", "fixture does not match");
  };
  let fixer = match catch(|| TemplateFix::try_new(template, &SupportLang::JavaScript)) {
    Ok(Ok(f)) => f,
    Ok(Err(_)) => fail!("C20:template:rejected", "template {template:?} rejected"),
    Err(p) => fail!(panic_signature(&p), "panic while parsing template {template:?}: {p}"),
  };
  let got = String::from_utf8_lossy(&fixer.generate_replacement(&nm)).into_owned();
  let mut binds = BTreeMap::new();
  binds.insert("A".to_string(), Bound::Span(4, 6));
  binds.insert("A1".to_string(), Bound::Span(8, 11));
  binds.insert("AA".to_string(), Bound::Span(13, 17));
  let mut multi = BTreeMap::new();
  multi.insert("A".to_string(), Bound::Span(19, 20));
  let exp = o_template(template, &binds, &multi, src, 0);
  if template.contains('$') {
    st.nontrivial(&("template", template));
  }
  if got != exp.exact {
    fail!(
      "C20:template",
      "template {template:?} expands to {got:?}, the reference scanner gives {:?}",
      exp.exact
    );
  }
  // used_vars must be exactly the variables the reference scanner sees
  let mut want: Vec<String> = scan_template(template)
    .into_iter()
    .filter_map(|(t, _)| match t {
      Tok::Single(n) | Tok::Multi(n) => Some(n),
      _ => None,
    })
    .collect();
  want.sort();
  want.dedup();
  let mut used: Vec<String> = fixer.used_vars().into_iter().map(String::from).collect();
  used.sort();
  used.dedup();
  if used != want {
    fail!("C20:template:used-vars", "template {template:?}: used_vars = {used:?}, reference {want:?}");
  }
  Ok(())
}

pub fn check(case: &Case, st: &mut Stats) -> CheckResult {
  match case {
    Case::Spelling { lang, spelling } => check_spelling(lang, spelling, st),
    Case::AnB { formula } => check_anb(formula, st),
    Case::Substring { text, start, end } => check_substring(text, *start, *end, st),
    Case::Template { template } => check_template(template, st),
  }
}

fn strings_over(alphabet: &[char], max_len: usize) -> Vec<String> {
  let mut out = vec![];
  let mut cur: Vec<String> = vec![String::new()];
  for _ in 0..max_len {
    let mut next = Vec::with_capacity(cur.len() * alphabet.len());
    for s in &cur {
      for c in alphabet {
        let mut t = s.clone();
        t.push(*c);
        next.push(t);
      }
    }
    out.extend(next.iter().cloned());
    cur = next;
  }
  out
}

fn sample<T: Clone>(v: Vec<T>, keep_all_up_to: impl Fn(&T) -> bool, seed: u64, tag: &str, percent: u64) -> Vec<T>
where
  T: std::hash::Hash,
{
  v.into_iter()
    .filter(|x| keep_all_up_to(x) || fingerprint(&(seed, tag, x)) % 100 < percent)
    .collect()
}

pub fn run(cfg: &RunCfg) -> i32 {
  let thorough = cfg.tier == Tier::Thorough;
  let mut report = Report::new(
    cfg,
    "bounded-exhaustive enumeration. spellings: every string over {$,A,B,a,1,_} up to length 6 (thorough; quick: up to length 5 plus a seed-chosen 5% of length 6) x 23 languages in one leaf context each, against a regex-free reference classifier; An+B: every string over {n,N,+,-,0,1,2,3,space} up to length 6 (quick: length <= 5 plus 3% sample) as nthChild of `kind: number` on [1..40], all 40 indices; substring: every text of <= 4 chars over {a,é,😀} x start,end in {absent,-6..6}; templates: every string over {$,A,a,1,_,space} up to length 6 (quick: <= 5) with A, A1, AA, $$$A bound. evaluations = enumerated cases; non-trivial = distinct cases containing a sigil other than the canonical `$A` / well-formed formulas / all substring cases.",
  );
  report.assume("An+B: all whitespace is ignored before parsing (the implementation's documented behaviour); rejection is required only for strings malformed after that");
  report.assume("templates: `_`-first names after a sigil are left open by the property and skipped (counted); digit-first names are literal text, as in patterns");
  let known = Known::load(&cfg.prop);
  if let Some(path) = &cfg.replay {
    return crate::replay_main::<Case>(cfg, path, check);
  }
  crate::replay_known::<Case>(&mut report, &known, check);
  // ---- spellings
  let all = strings_over(&['$', 'A', 'B', 'a', '1', '_'], 6);
  let strings = if thorough { all } else { sample(all, |s| s.chars().count() <= 5, cfg.seed, "sp", 5) };
  let mut cases = vec![];
  for li in LANGS {
    for s in &strings {
      cases.push(Case::Spelling {
        lang: langs::name(li.lang),
        spelling: s.clone(),
      });
    }
  }
  let o = drive_list(cfg, &known, &cases, check);
  report.absorb("spellings", o);
  // ---- An+B
  let all = strings_over(&['n', 'N', '+', '-', '0', '1', '2', '3', ' '], 6);
  let strings = if thorough { all } else { sample(all, |s| s.chars().count() <= 5, cfg.seed, "anb", 3) };
  let cases: Vec<Case> = strings.into_iter().map(|formula| Case::AnB { formula }).collect();
  let o = drive_list(cfg, &known, &cases, check);
  report.absorb("anb", o);
  // ---- substring
  let texts: Vec<String> = std::iter::once(String::new()).chain(strings_over(&['a', 'é', '😀'], 4)).filter(|t| !t.is_empty()).collect();
  let bounds: Vec<Option<i32>> = std::iter::once(None).chain((-6..=6).map(Some)).collect();
  let mut cases = vec![];
  for t in &texts {
    for s in &bounds {
      for e in &bounds {
        cases.push(Case::Substring {
          text: t.clone(),
          start: *s,
          end: *e,
        });
      }
    }
  }
  let o = drive_list(cfg, &known, &cases, check);
  report.absorb("substring", o);
  // ---- templates
  let all = strings_over(&['$', 'A', 'a', '1', '_', ' '], 6);
  let strings = if thorough { all } else { sample(all, |s| s.chars().count() <= 5, cfg.seed, "tpl", 10) };
  let cases: Vec<Case> = strings.into_iter().map(|template| Case::Template { template }).collect();
  let o = drive_list(cfg, &known, &cases, check);
  report.absorb("templates", o);
  report.exhaustive = Some(thorough);
  report.finish()
}
