//! C01, CLI part: `sg run` / `sg scan` report the same set as the library search
//! (exercises the literal-substring file prefilter and injected documents).
use crate::c03;
use crate::cli::{self, TempDir};
use crate::engine::*;
use crate::fail;
use crate::gen::{self, Corpus, SrcChoice, SrcOpts};
use crate::langs;
use crate::pat;
use crate::rules::*;
use crate::tsutil::{self, parse};
use ast_grep_config::{from_yaml_string, GlobalRules};
use ast_grep_core::matcher::MatcherExt;
use ast_grep_core::{AstGrep, Matcher, Pattern};
use ast_grep_language::SupportLang;
use proptest::prelude::*;
use proptest::sample::Index;
use serde::{Deserialize, Serialize};
use serde_json::json;
use std::collections::BTreeMap;
use std::str::FromStr;
use tree_sitter::Node as TsNode;

#[derive(Clone, Debug, Serialize, Deserialize)]
pub enum Query {
  Run {
    pattern: String,
    selector: Option<String>,
    strictness: Option<String>,
  },
  Scan {
    rule_yaml: String,
  },
}

#[derive(Clone, Debug, Serialize, Deserialize)]
pub struct Case {
  pub lang: String,
  pub files: Vec<(String, String)>,
  pub query: Query,
}

#[derive(Clone, Debug)]
pub struct Choice {
  srcs: Vec<SrcChoice>,
  node: Index,
  holes: Vec<(Index, u8)>,
  strict: u8,
  mode: u8,
  rename: bool,
  html_host: bool,
  rule_first: Index,
  rule_rest: Vec<RC>,
}

pub fn strategy(opts: &SrcOpts) -> BoxedStrategy<Choice> {
  (
    prop::collection::vec(gen::src_choice(opts), 1..=3),
    any::<Index>(),
    prop::collection::vec((any::<Index>(), 0u8..10), 0..=2),
    0u8..10,
    0u8..10,
    any::<bool>(),
    any::<bool>(),
    any::<Index>(),
    prop::collection::vec(rc_tree(2), 0..=1),
  )
    .prop_map(|(srcs, node, holes, strict, mode, rename, html_host, rule_first, rule_rest)| Choice {
      srcs,
      node,
      holes,
      strict,
      mode,
      rename,
      html_host,
      rule_first,
      rule_rest,
    })
    .boxed()
}

const KEYWORD_PATTERNS: &[(&str, &str)] = &[
  ("JavaScript", "const $A = $B"),
  ("JavaScript", "var $A = $B"),
  ("TypeScript", "const $A = $B"),
  ("Rust", "let mut $A = $B;"),
  ("Go", "var $A = $B"),
  // keywords are case-insensitive in PHP: one token kind, several spellings
  ("Php", "function $A() {}"),
  ("Php", "echo $A;"),
  ("Php", "return $A;"),
  ("Php", "class $A {}"),
];

fn is_word(s: &str) -> bool {
  !s.is_empty() && s.chars().all(|c| c.is_ascii_alphanumeric() || c == '_')
}

/// replace whole-word occurrences
fn replace_word(text: &str, from: &str, to: &str) -> String {
  let mut out = String::new();
  let bytes = text.as_bytes();
  let mut i = 0;
  while i < text.len() {
    if text[i..].starts_with(from) {
      let before_ok = i == 0 || !(bytes[i - 1].is_ascii_alphanumeric() || bytes[i - 1] == b'_');
      let after = i + from.len();
      let after_ok = after >= text.len() || !(bytes[after].is_ascii_alphanumeric() || bytes[after] == b'_');
      if before_ok && after_ok {
        out.push_str(to);
        i = after;
        continue;
      }
    }
    let ch = text[i..].chars().next().unwrap();
    out.push(ch);
    i += ch.len_utf8();
  }
  out
}

pub fn interpret(corpus: &Corpus, opts: &SrcOpts, ch: &Choice, st: &mut Stats) -> Option<Case> {
  // all files share the language of the first source
  let first = gen::build_source(corpus, &ch.srcs[0], opts);
  let lang = first.lang;
  let mut one = opts.clone();
  one.langs = vec![lang];
  let ext = langs::info(lang).ext;
  let mut files: Vec<(String, String)> = vec![(format!("a0.{ext}"), first.text.clone())];
  for (i, s) in ch.srcs.iter().enumerate().skip(1) {
    let b = gen::build_source(corpus, s, &one);
    let dir = if i % 2 == 1 { "sub/" } else { "" };
    files.push((format!("{dir}f{i}.{ext}"), b.text));
  }
  let name = langs::name(lang);
  let query = if ch.mode < 7 {
    // ---- run -p
    let strictness = match ch.strict {
      0 | 1 => None,
      2 => Some("smart"),
      3 => Some("cst"),
      4 | 5 => Some("ast"),
      6 | 7 => Some("relaxed"),
      _ => Some("signature"),
    }
    .map(String::from);
    let kw: Vec<&str> = KEYWORD_PATTERNS.iter().filter(|(l, _)| *l == name).map(|(_, p)| *p).collect();
    let (pattern, selector) = if !kw.is_empty() && ch.mode <= 2 {
      (kw[ch.node.index(kw.len())].to_string(), None)
    } else {
      let sg = parse(lang, &first.text);
      let mut cands: Vec<TsNode> = tsutil::preorder(sg.root().get_ts_node())
        .into_iter()
        .filter(|n| {
          n.is_named()
            && n.parent().is_some()
            && !tsutil::subtree_has_error(n)
            && n.end_byte() > n.start_byte()
            && n.end_byte() - n.start_byte() <= 120
            && !tsutil::text(&first.text, n).contains('$')
            && !tsutil::text(&first.text, n).trim().is_empty()
        })
        .collect();
      cands.sort_by_key(|n| (n.end_byte() - n.start_byte(), n.start_byte()));
      if cands.is_empty() {
        return None;
      }
      let n = &cands[ch.node.index(cands.len())];
      let text = c03::cut_free_pub(&first.text, n, &ch.holes);
      if catch(|| Pattern::try_new(&text, lang).is_ok()).unwrap_or(false) {
        (text, None)
      } else {
        let sel = n.kind().to_string();
        if !catch(|| Pattern::contextual(&text, &sel, lang).is_ok()).unwrap_or(false) {
          st.discard("pattern does not parse");
          return None;
        }
        (text, Some(sel))
      }
    };
    // make files that lack the pattern's longest token but may still match structurally
    if ch.rename {
      if let Ok(p) = Pattern::try_new(&pattern, lang) {
        let fixed = p.fixed_string().to_string();
        if is_word(&fixed) && fixed.len() >= 2 {
          let to = if fixed.chars().all(|c| c.is_ascii_digit()) { "7".repeat(fixed.len() + 1) } else { format!("{fixed}q") };
          let renamed = replace_word(&first.text, &fixed, &to);
          files.push((format!("renamed.{ext}"), renamed));
          // the same token in another spelling (a keyword of a case-insensitive language still
          // is the same token; elsewhere the file simply stops matching)
          let recased = if fixed.chars().any(|c| c.is_ascii_lowercase()) { fixed.to_ascii_uppercase() } else { fixed.to_ascii_lowercase() };
          if recased != fixed {
            files.push((format!("recased.{ext}"), replace_word(&first.text, &fixed, &recased)));
          }
        }
      }
    }
    Query::Run {
      pattern,
      selector,
      strictness,
    }
  } else {
    // ---- scan -r
    let sg = parse(lang, &first.text);
    let ctx = RuleCtx::new(lang, &first.text, &sg);
    if ctx.kinds.is_empty() {
      return None;
    }
    let mut keys = vec![GRule::Kind(ctx.kinds[ch.rule_first.index(ctx.kinds.len())].clone())];
    for r in &ch.rule_rest {
      let g = ctx.interpret(r, 0);
      if !keys.iter().any(|k| k.key() == g.key()) && !matches!(g, GRule::Obj(_)) {
        keys.push(g);
      }
    }
    let rule = if keys.len() == 1 { keys.pop().unwrap() } else { GRule::Obj(keys) };
    let mut m = serde_yaml::Mapping::new();
    let k = |s: &str| serde_yaml::Value::String(s.to_string());
    m.insert(k("id"), k("r0"));
    m.insert(k("language"), k(&name));
    m.insert(k("rule"), rule.to_yaml());
    Query::Scan {
      rule_yaml: serde_yaml::to_string(&serde_yaml::Value::Mapping(m)).unwrap(),
    }
  };
  // an HTML host embedding the first source for JS / CSS
  if ch.html_host && matches!(lang, SupportLang::JavaScript | SupportLang::Css) && !first.text.contains("</") {
    let tag = if lang == SupportLang::JavaScript { "script" } else { "style" };
    let html = format!("<html>\n<body>\n<div class=\"a\">x</div>\n<{tag}>\n{}</{tag}>\n</body>\n</html>\n", first.text);
    files.push(("host.html".to_string(), html));
  }
  for l in &first.labels {
    st.label(l);
  }
  Some(Case {
    lang: name,
    files,
    query,
  })
}

type R = (usize, usize);

fn brute<M: Matcher<SupportLang>>(m: &M, doc: &AstGrep<ast_grep_core::StrDoc<SupportLang>>) -> Vec<R> {
  tsutil::preorder(doc.root().get_ts_node())
    .into_iter()
    .filter(|n| m.match_node(doc.inner.adopt(n.clone())).is_some())
    .map(|n| (n.start_byte() as usize, n.end_byte() as usize))
    .collect()
}

/// the documents of one file in which `lang` is searched: the file itself and injected regions
fn documents(path: &str, text: &str, lang: SupportLang) -> Vec<AstGrep<ast_grep_core::StrDoc<SupportLang>>> {
  use ast_grep_core::Language;
  let Some(file_lang) = SupportLang::from_path(path) else {
    return vec![];
  };
  let root = parse(file_lang, text);
  let mut out = vec![];
  if file_lang == lang {
    out.push(root.clone());
  }
  for inj in root.inner.get_injections(|s| SupportLang::from_str(s).ok()) {
    if *inj.lang() == lang {
      out.push(AstGrep { inner: inj });
    }
  }
  out
}

pub fn check(case: &Case, st: &mut Stats) -> CheckResult {
  let lang: SupportLang = case.lang.parse().map_err(|_| Fail::new("bad-case", "lang"))?;
  let dir = TempDir::new("c01");
  for (p, t) in &case.files {
    if t.is_empty() {
      continue;
    }
    dir.write(&format!("src/{p}"), t.as_bytes());
  }
  let mut expected: BTreeMap<String, Vec<R>> = BTreeMap::new();
  let mut prefilter_miss = false;
  let out = match &case.query {
    Query::Run {
      pattern,
      selector,
      strictness,
    } => {
      let built = match selector {
        None => Pattern::try_new(pattern, lang),
        Some(s) => Pattern::contextual(pattern, s, lang),
      };
      let Ok(p) = built else {
        st.discard("pattern does not parse");
        return Ok(());
      };
      let p = match strictness {
        Some(s) => p.with_strictness(pat::strictness(s)),
        None => p,
      };
      let fixed = p.fixed_string().to_string();
      for (path, text) in &case.files {
        if text.is_empty() {
          continue;
        }
        let mut v = vec![];
        for d in documents(path, text, lang) {
          v.extend(brute(&p, &d));
        }
        if !v.is_empty() {
          if !fixed.is_empty() && !text.contains(&fixed) {
            prefilter_miss = true;
          }
          v.sort();
          expected.insert(path.clone(), v);
        }
      }
      let lname = case.lang.to_lowercase();
      // `--pattern=<text>` so that texts starting with `-` are not parsed as flags
      let parg = format!("--pattern={pattern}");
      let sarg = selector.as_ref().map(|s| format!("--selector={s}"));
      let mut args: Vec<&str> = vec!["run", &parg, "-l", &lname, "--json=stream"];
      if let Some(s) = &sarg {
        args.push(s);
      }
      if let Some(s) = strictness {
        args.push("--strictness");
        args.push(s);
      }
      args.push("src");
      cli::sgv(&args, &dir.path, None)
    }
    Query::Scan { rule_yaml } => {
      let globals = GlobalRules::default();
      let configs = match catch(|| from_yaml_string::<SupportLang>(rule_yaml, &globals)) {
        Ok(Ok(c)) => c,
        _ => {
          st.discard("rule rejected at load");
          return Ok(());
        }
      };
      for (path, text) in &case.files {
        if text.is_empty() {
          continue;
        }
        let mut v = vec![];
        for d in documents(path, text, lang) {
          v.extend(brute(&configs[0].matcher, &d));
        }
        if !v.is_empty() {
          v.sort();
          expected.insert(path.clone(), v);
        }
      }
      dir.write("rule.yml", rule_yaml.as_bytes());
      cli::sgv(&["scan", "-r", "rule.yml", "--json=stream", "src"], &dir.path, None)
    }
  };
  if out.timed_out {
    return Err(Fail::new("inconclusive:watchdog", "sgv did not finish within the watchdog"));
  }
  if out.panicked() {
    fail!("C01:cli-panic", "sgv panicked: {}", out.stderr_str().chars().take(400).collect::<String>());
  }
  let recs = match out.json_lines() {
    Ok(r) => r,
    Err(e) => fail!("C01:cli-output-not-json", "{e}\nstderr: {}", out.stderr_str().chars().take(300).collect::<String>()),
  };
  let mut got: BTreeMap<String, Vec<R>> = BTreeMap::new();
  for r in &recs {
    let f = cli::norm_path(r.get("file").and_then(|f| f.as_str()).unwrap_or(""));
    let f = f.strip_prefix("src/").unwrap_or(&f).to_string();
    let Some(rg) = cli::rec_range(r) else {
      fail!("C01:cli-output-not-json", "record without range: {r}");
    };
    got.entry(f).or_default().push(rg);
  }
  for v in got.values_mut() {
    v.sort();
  }
  st.eval();
  st.label(&format!("lang_{}", case.lang));
  if got != expected {
    let sig = match &case.query {
      Query::Run { strictness, .. } => {
        let missing_only = got.iter().all(|(f, v)| expected.get(f) == Some(v));
        if missing_only && prefilter_miss {
          format!("C01:cli-run:file-skipped-by-prefilter:strictness={}", strictness.as_deref().unwrap_or("default"))
        } else {
          "C01:cli-run".to_string()
        }
      }
      Query::Scan { .. } => "C01:cli-scan".to_string(),
    };
    let diff: Vec<String> = expected
      .keys()
      .chain(got.keys())
      .collect::<std::collections::BTreeSet<_>>()
      .into_iter()
      .filter(|f| expected.get(*f) != got.get(*f))
      .map(|f| format!("{f}: library {:?} cli {:?}", expected.get(f).map(|v| v.len()), got.get(f).map(|v| v.len())))
      .collect();
    fail!(
      sig,
      "CLI and library disagree for {:?}: {}\nstderr: {}",
      case.query,
      diff.join("; "),
      out.stderr_str().chars().take(300).collect::<String>()
    );
  }
  match &case.query {
    Query::Run { strictness, .. } => st.label(&format!("run_{}", strictness.as_deref().unwrap_or("default"))),
    Query::Scan { .. } => st.label("scan"),
  }
  if case.files.iter().any(|(p, _)| p.ends_with(".html")) && expected.keys().any(|p| p.ends_with(".html")) {
    st.label("injected_document_matched");
  }
  if prefilter_miss {
    st.label("prefilter_miss");
  }
  if !expected.is_empty() {
    st.label("cli_nontrivial");
    st.nontrivial(&("cli", &case.lang, format!("{:?}", case.query), &case.files));
    if st.wants_sample() {
      st.sample(json!({"stage": "cli", "lang": case.lang, "query": case.query, "files": case.files.iter().map(|(p, t)| (p.clone(), t.len())).collect::<Vec<_>>(), "matching_files": expected.len()}));
    }
  }
  Ok(())
}

// ---------------------------------------------------------------------------------------
// respelling: PHP keywords are case-insensitive, so one anonymous token kind has several
// spellings; the pattern's spelling need not occur in a file that matches

#[derive(Clone, Debug)]
pub struct RespellChoice {
  files: Vec<Vec<(u8, u8, u8)>>,
  pattern: u8,
  pattern_case: u8,
  strict: u8,
}

pub fn respell_strategy() -> BoxedStrategy<RespellChoice> {
  (prop::collection::vec(prop::collection::vec((0u8..6, 0u8..3, 0u8..4), 1..5), 1..4), 0u8..6, 0u8..3, 0u8..4)
    .prop_map(|(files, pattern, pattern_case, strict)| RespellChoice {
      files,
      pattern,
      pattern_case,
      strict,
    })
    .boxed()
}

fn respell(word: &str, how: u8) -> String {
  match how {
    0 => word.to_string(),
    1 => word.to_ascii_uppercase(),
    _ => word.chars().enumerate().map(|(i, c)| if i % 2 == 0 { c.to_ascii_uppercase() } else { c }).collect(),
  }
}

const PHP_STMTS: &[(&str, &str)] = &[
  ("function", "function foo() {}"),
  ("echo", "echo 1;"),
  ("return", "return 2;"),
  ("class", "class Foo {}"),
  ("while", "while (1) {}"),
  ("function", "function bar() {}"),
];

pub fn interpret_respell(ch: &RespellChoice, _st: &mut Stats) -> Option<Case> {
  let names = ["1", "2", "foo", "Foo"];
  let files = ch
    .files
    .iter()
    .enumerate()
    .map(|(i, stmts)| {
      let body: Vec<String> = stmts
        .iter()
        .map(|(k, how, n)| {
          let (kw, text) = PHP_STMTS[*k as usize % PHP_STMTS.len()];
          let text = text.replacen(kw, &respell(kw, *how), 1);
          // vary the operand so that not every file matches
          if *n == 0 { text } else { text.replace("foo", names[*n as usize % 4]).replace('1', names[(*n as usize + 1) % 2]) }
        })
        .collect();
      (format!("{}p{i}.php", if i % 2 == 1 { "sub/" } else { "" }), format!("<?php\n{}\n", body.join("\n")))
    })
    .collect();
  let (kw, text) = PHP_STMTS[ch.pattern as usize % PHP_STMTS.len()];
  let pattern = text.replacen(kw, &respell(kw, ch.pattern_case), 1).replace("foo", "$A").replace("Foo", "$A");
  Some(Case {
    lang: "Php".into(),
    files,
    query: Query::Run {
      pattern,
      selector: None,
      strictness: [None, Some("smart"), Some("cst"), None][ch.strict as usize % 4].map(String::from),
    },
  })
}

pub fn run_stage(cfg: &RunCfg, known: &Known, corpus: &Corpus, report: &mut Report) {
  let mut opts = SrcOpts::all_langs();
  opts.max_bytes = 1200;
  opts.max_muts = 2;
  opts.synth_weight = 5;
  let total = cfg.budget(400, 5_000);
  let o = drive(cfg, "cli", total, known, || strategy(&opts), |c, st| interpret(corpus, &opts, c, st), check);
  report.absorb("cli", o);
  // the stage name stays "cli": the replay files of both generators hold the same case type
  let total = cfg.budget(120, 3_000);
  let o = drive(cfg, "cli", total, known, respell_strategy, interpret_respell, check);
  report.absorb("cli", o);
  report.floor("prefilter_miss", 0.03, "cli_nontrivial");
  cli::cleanup_work_root();
}
