//! C08 — one rule, one fix: every front end proposes the same edit.
use crate::c06::o_splice;
use crate::cli::{self, TempDir};
use crate::engine::*;
use crate::fail;
use crate::lsp::{uri_of, Lsp};
use crate::tsutil::parse;
use ast_grep_config::{from_yaml_string, GlobalRules};
use ast_grep_language::SupportLang;
use proptest::prelude::*;
use serde::{Deserialize, Serialize};
use serde_json::{json, Value};
use std::time::Duration;

#[derive(Clone, Debug, Serialize, Deserialize)]
pub struct Case {
  pub rule_yaml: String,
  pub text: String,
}

#[derive(Clone, Debug)]
pub struct Choice {
  rule: u8,
  stmts: Vec<(u8, u8, u8)>,
  trailing_newline: bool,
  /// text before the first statement: the root node of the tree then does not start at byte 0
  lead: u8,
}

pub fn strategy() -> BoxedStrategy<Choice> {
  (0u8..RULES.len() as u8, prop::collection::vec((0u8..14, 0u8..8, 0u8..8), 1..7), any::<bool>(), 0u8..10)
    .prop_map(|(rule, stmts, trailing_newline, lead)| Choice {
      rule,
      stmts,
      trailing_newline,
      lead,
    })
    .boxed()
}

const LEADS: &[&str] = &["", "", "", "", "\n", "\n\n  ", " ", "\u{feff}", "// é\n", "\n\t"];

const ATOMS: &[&str] = &["1", "a", "\"é\"", "b", "22", "foo(3)", "bar(a)", "a"];

fn stmt(k: u8, a: u8, b: u8) -> String {
  let x = ATOMS[a as usize % ATOMS.len()];
  let y = ATOMS[b as usize % ATOMS.len()];
  match k {
    0 | 1 => format!("foo({x});"),
    2 => format!("foo({x}, {y});"),
    3 => format!("let v = {x};"),
    4 => format!("let w = [{x}, {y}, {x}];"),
    5 => format!("bar(a, {y}, a);"),
    6 => format!("if ({x}) {{\n  foo({y});\n}}"),
    7 => format!("foo(foo({x}));"),
    8 => format!("let é = foo({y})"),
    10 => format!("v = {x} + {y} + {x};"),
    11 => format!("a.b.c({y});"),
    12 => format!("f(g({x}), h(k({y})));"),
    _ => format!("foo(\n  {x},\n  {y}\n);"),
  }
}

const RULES: &[&str] = &[
  // string fix
  "id: r\nlanguage: JavaScript\nrule:\n  pattern: foo($A)\nfix: bar($A)\n",
  // trailing punctuation is not part of the matched prefix
  "id: r\nlanguage: JavaScript\nrule:\n  pattern: let $V = $A\nfix: const $V = $A\n",
  // expandEnd swallows the following comma
  "id: r\nlanguage: JavaScript\nrule:\n  kind: identifier\n  regex: ^a$\n  inside: {kind: arguments}\nfix:\n  template: ''\n  expandEnd: {regex: '^,$'}\n",
  // expandStart swallows the preceding comma
  "id: r\nlanguage: JavaScript\nrule:\n  kind: number\n  inside: {kind: array}\nfix:\n  template: 'X'\n  expandStart: {regex: '^,$'}\n",
  // transformed variable
  "id: r\nlanguage: JavaScript\nrule:\n  pattern: foo($A)\ntransform:\n  UP:\n    convert: {source: $A, toCase: upperCase}\nfix: baz($UP)\n",
  // multi-line replacement
  "id: r\nlanguage: JavaScript\nrule:\n  pattern: foo($$$ARGS)\nfix: |-\n  qux(\n    $$$ARGS\n  )\n",
  // object form without expansion
  "id: r\nlanguage: JavaScript\nrule:\n  pattern: let $V = $A\nfix:\n  template: var $V = $A\n",
  // both expansions
  "id: r\nlanguage: JavaScript\nrule:\n  kind: string\nfix:\n  template: S\n  expandStart: {regex: '^,$'}\n  expandEnd: {regex: '^,$'}\n",
  // deletion of a whole statement
  "id: r\nlanguage: JavaScript\nrule:\n  kind: expression_statement\n  has: {pattern: 'bar($$$)'}\nfix: ''\n",
  // block scalars with clip chomping: the replacement ends with a line break
  "id: r\nlanguage: JavaScript\nrule:\n  pattern: foo($A)\nfix: |\n  bar($A)\n",
  "id: r\nlanguage: JavaScript\nrule:\n  pattern: foo($$$ARGS)\nfix: |\n  qux(\n    $$$ARGS\n  )\n",
  "id: r\nlanguage: JavaScript\nrule:\n  pattern: let $V = $A\nfix:\n  template: \"var $V = $A\\n\"\n",
  // keep chomping: two line breaks at the end, and a fix that is only a line break
  "id: r\nlanguage: JavaScript\nrule:\n  pattern: foo($A)\nfix: |+\n  bar($A)\n\n",
  "id: r\nlanguage: JavaScript\nrule:\n  kind: number\n  inside: {kind: array}\nfix: \"\\n\"\n",
  // nested matches that start at the same place (left-associative operators, member chains)
  "id: r\nlanguage: JavaScript\nrule:\n  pattern: $A + $B\nfix: add($A, $B)\n",
  "id: r\nlanguage: JavaScript\nrule:\n  kind: member_expression\nfix: M\n",
  // an expansion that makes the edit of a match overlap the previous edit; its own nested
  // matches remain
  "id: r\nlanguage: JavaScript\nrule:\n  kind: call_expression\n  inside: {kind: arguments}\nfix:\n  template: X\n  expandStart: {kind: call_expression, stopBy: end}\n",
];

pub fn interpret(ch: &Choice, _st: &mut Stats) -> Option<Case> {
  let mut text = format!("{}{}", LEADS[ch.lead as usize % LEADS.len()], ch.stmts.iter().map(|(k, a, b)| stmt(*k, *a, *b)).collect::<Vec<_>>().join("\n"));
  if ch.trailing_newline {
    text.push('\n');
  }
  Some(Case {
    rule_yaml: RULES[ch.rule as usize % RULES.len()].to_string(),
    text,
  })
}

#[derive(Debug, Clone, PartialEq, Eq)]
struct Ej {
  node: (usize, usize),
  rep: (usize, usize),
  text: String,
}

fn byte_of(text: &str, line: usize, col: usize) -> usize {
  let mut off = 0;
  for (i, l) in text.split('\n').enumerate() {
    if i == line {
      return off + l.char_indices().nth(col).map(|(b, _)| b).unwrap_or(l.len());
    }
    off += l.len() + 1;
  }
  text.len()
}

fn lsp_range(text: &str, r: &Value) -> (usize, usize) {
  (
    byte_of(text, r["start"]["line"].as_u64().unwrap_or(0) as usize, r["start"]["character"].as_u64().unwrap_or(0) as usize),
    byte_of(text, r["end"]["line"].as_u64().unwrap_or(0) as usize, r["end"]["character"].as_u64().unwrap_or(0) as usize),
  )
}

pub fn check(case: &Case, st: &mut Stats) -> CheckResult {
  let dir = TempDir::new("c08");
  let text = &case.text;
  dir.write("sgconfig.yml", b"ruleDirs:\n- rules\ntestConfigs:\n- testDir: tests\n");
  dir.write("rules/r.yml", case.rule_yaml.as_bytes());
  dir.write("src/a.js", text.as_bytes());
  // ---- reference: the CLI JSON
  let out = cli::sgv(&["scan", "--json=stream", "src/a.js"], &dir.path, None);
  if out.timed_out {
    return Err(Fail::new("inconclusive:watchdog", "sgv scan did not finish"));
  }
  let recs = out.json_lines().map_err(|e| Fail::new("C08:json", e))?;
  let mut ej: Vec<Ej> = recs
    .iter()
    .filter_map(|r| {
      let ro = r.get("replacementOffsets")?;
      Some(Ej {
        node: cli::rec_range(r)?,
        rep: (ro["start"].as_u64()? as usize, ro["end"].as_u64()? as usize),
        text: r["replacement"].as_str()?.to_string(),
      })
    })
    .collect();
  ej.sort_by_key(|e| (e.node.0, std::cmp::Reverse(e.node.1)));
  st.eval();
  if ej.is_empty() {
    st.label("no_match");
    return Ok(());
  }
  let first = ej[0].clone();
  let apply_one = |e: &Ej| o_splice(text, &[(e.rep.0, e.rep.1 - e.rep.0, e.text.clone().into_bytes())]);
  let Ok(first_applied) = apply_one(&first) else {
    fail!("C08:json-edit-invalid", "the edit announced by scan --json is not applicable: {first:?}");
  };
  // outermost matches in document order
  let mut outer: Vec<Ej> = vec![];
  for e in &ej {
    if outer.iter().any(|o| o.node.0 <= e.node.0 && e.node.1 <= o.node.1 && o.node != e.node) {
      continue;
    }
    outer.push(e.clone());
  }
  // ---- (2) sg test -U snapshot
  let mut m = serde_yaml::Mapping::new();
  m.insert("id".into(), "r".into());
  m.insert("invalid".into(), serde_yaml::Value::Sequence(vec![serde_yaml::Value::String(text.clone())]));
  dir.write("tests/r-test.yml", serde_yaml::to_string(&serde_yaml::Value::Mapping(m)).unwrap().as_bytes());
  let out = cli::sgv(&["test", "-U"], &dir.path, None);
  if out.timed_out {
    return Err(Fail::new("inconclusive:watchdog", "sgv test -U did not finish"));
  }
  let snap = dir.read("tests/__snapshots__/r-snapshot.yml").unwrap_or_default();
  let snap: serde_yaml::Value = serde_yaml::from_slice(&snap).unwrap_or(serde_yaml::Value::Null);
  let fixed = snap
    .get("snapshots")
    .and_then(|s| s.as_mapping())
    .and_then(|mm| mm.iter().find(|(k, _)| k.as_str() == Some(text.as_str())))
    .and_then(|(_, v)| v.get("fixed"))
    .and_then(|f| f.as_str())
    .map(String::from);
  match fixed {
    Some(f) if f == first_applied => st.label("snapshot_checked"),
    Some(f) => fail!(
      "C08:test-snapshot-fixed-differs",
      "sg test -U records fixed = {:?}; the first edit of scan --json ({:?}) gives {:?}\nrule:\n{}",
      f,
      first,
      first_applied,
      case.rule_yaml
    ),
    None => fail!("C08:test-snapshot-missing", "no snapshot with `fixed` was written; stdout {}", out.stdout_str().chars().take(300).collect::<String>()),
  }
  // ---- (3) library
  let globals = GlobalRules::default();
  let configs = from_yaml_string::<SupportLang>(&case.rule_yaml, &globals).map_err(|e| Fail::new("bad-case", format!("{e:?}")))?;
  let config = &configs[0];
  let fixer = config.get_fixer().ok().flatten().ok_or_else(|| Fail::new("bad-case", "no fixer"))?;
  let sg = parse(SupportLang::JavaScript, text);
  let lib: Vec<(usize, usize, String)> = sg
    .root()
    .replace_all(&config.matcher, &fixer)
    .into_iter()
    .map(|e| (e.position, e.position + e.deleted_length, String::from_utf8_lossy(&e.inserted_text).into_owned()))
    .collect();
  // the overlap-free list keeps an outermost match's edit unless it overlaps the last kept one
  // (expansions can widen neighbouring matches onto a common sibling) -- the rule `scan -U` applies
  // the library rewrites outermost matches only (C01's subject): a match nested in another
  // match is not visited, whether or not the outer one's edit is kept
  let mut want: Vec<(usize, usize, String)> = vec![];
  let mut end = 0;
  for e in outer.iter() {
    if e.rep.0 < end {
      st.label("overlapping_expanded_edit_dropped");
      continue;
    }
    end = e.rep.1;
    want.push((e.rep.0, e.rep.1, e.text.clone()));
  }
  if lib != want {
    fail!("C08:library-replace_all-differs", "Node::replace_all proposes {:?}; scan --json (outermost matches) {:?}\nrule:\n{}", lib, want, case.rule_yaml);
  }
  let mut doc = sg.clone();
  let _ = doc.replace(&config.matcher, &fixer);
  if doc.source() != first_applied {
    fail!(
      "C08:library-replace-differs",
      "AstGrep::replace gives {:?}; the first edit of scan --json gives {:?}\nrule:\n{}",
      doc.source(),
      first_applied,
      case.rule_yaml
    );
  }
  st.label("library_checked");
  // ---- (3b) the file written by --update-all: the same edits, spliced into the same text. The
  // CLI filters all matches by range, so a match nested in one whose edit was dropped stays
  {
    let mut want_u: Vec<(usize, usize, String)> = vec![];
    let mut end = 0;
    for e in ej.iter() {
      if e.rep.0 < end {
        continue;
      }
      end = e.rep.1;
      want_u.push((e.rep.0, e.rep.1, e.text.clone()));
    }
    let edits: Vec<(usize, usize, Vec<u8>)> = want_u.iter().map(|(s, e, t)| (*s, e - s, t.clone().into_bytes())).collect();
    if let Ok(expected) = o_splice(text, &edits) {
      dir.write("upd/a.js", text.as_bytes());
      let out = cli::sgv(&["scan", "-U", "upd/a.js"], &dir.path, None);
      if out.timed_out {
        return Err(Fail::new("inconclusive:watchdog", "sgv scan -U did not finish"));
      }
      if out.panicked() {
        fail!("C08:update-all-panic", "scan -U panicked: {}
rule:
{}", out.stderr_str().chars().take(300).collect::<String>(), case.rule_yaml);
      }
      let written = dir.read("upd/a.js").unwrap_or_default();
      if written != expected.as_bytes() {
        fail!(
          "C08:update-all-differs",
          "scan -U wrote {:?}; the edits of scan --json applied to the text give {:?}
rule:
{}",
          String::from_utf8_lossy(&written),
          expected,
          case.rule_yaml
        );
      }
      st.label("update_all_checked");
    }
  }
  // ---- (4) LSP quick fixes and fix-all
  let mut lsp = match Lsp::start(&dir.path) {
    Ok(l) => l,
    Err(e) => return Err(Fail::new("inconclusive:lsp-start", e)),
  };
  let uri = uri_of(&dir.path.join("src/a.js"));
  lsp.notify("textDocument/didOpen", json!({"textDocument": {"uri": uri, "languageId": "javascript", "version": 1, "text": text}}));
  if !lsp.pump_until(|l| l.publishes.iter().any(|p| p.uri == uri), Duration::from_secs(20)) {
    return Err(Fail::new("inconclusive:watchdog", "no publishDiagnostics"));
  }
  let diags = lsp.last_publish(&uri).unwrap().diagnostics.clone();
  if diags.len() != ej.len() {
    fail!("C08:lsp-diagnostic-count", "{} diagnostics vs {} JSON records", diags.len(), ej.len());
  }
  for d in &diags {
    let node = lsp_range(text, &d["range"]);
    let Some(e) = ej.iter().find(|e| e.node == node) else {
      fail!("C08:lsp-diagnostic-range", "diagnostic range {:?} has no JSON record", node);
    };
    let resp = lsp.request(
      "textDocument/codeAction",
      json!({"textDocument": {"uri": uri}, "range": d["range"], "context": {"diagnostics": [d], "only": ["quickfix"]}}),
      Duration::from_secs(20),
    );
    let Some(resp) = resp else {
      return Err(Fail::new("inconclusive:watchdog", "no codeAction response"));
    };
    let edits = resp
      .as_array()
      .and_then(|a| a.first())
      .and_then(|a| a["edit"]["changes"][&uri].as_array())
      .cloned()
      .unwrap_or_default();
    if edits.len() != 1 {
      fail!("C08:lsp-quickfix-missing", "quick fix for {:?} has {} edits: {resp}", node, edits.len());
    }
    let got = (lsp_range(text, &edits[0]["range"]), edits[0]["newText"].as_str().unwrap_or("").to_string());
    if got != (e.rep, e.text.clone()) {
      let widened = e.rep != e.node;
      fail!(
        if widened { "C08:lsp-quickfix-differs:edit-range-differs-from-node-range" } else { "C08:lsp-quickfix-differs" },
        "LSP quick fix replaces {:?} by {:?}; scan --json replaces {:?} by {:?} (matched node {:?})\nrule:\n{}",
        got.0,
        got.1,
        e.rep,
        e.text,
        e.node,
        case.rule_yaml
      );
    }
  }
  st.label("lsp_quickfix_checked");
  let resp = lsp.request(
    "textDocument/codeAction",
    json!({"textDocument": {"uri": uri}, "range": {"start": {"line": 0, "character": 0}, "end": {"line": 0, "character": 0}}, "context": {"diagnostics": [], "only": ["source.fixAll"]}}),
    Duration::from_secs(20),
  );
  let Some(resp) = resp else {
    return Err(Fail::new("inconclusive:watchdog", "no fixAll response"));
  };
  let edits = resp
    .as_array()
    .and_then(|a| a.first())
    .and_then(|a| a["edit"]["changes"][&uri].as_array())
    .cloned()
    .unwrap_or_default();
  let got: Vec<((usize, usize), String)> = edits.iter().map(|e| (lsp_range(text, &e["range"]), e["newText"].as_str().unwrap_or("").to_string())).collect();
  // overlap-free subset in document order, an outer match before the matches nested in it, as
  // `scan -U` and the other front ends take them
  let sorted = ej.clone();
  let mut want = vec![];
  let mut last = 0;
  for e in &sorted {
    if e.rep.0 < last {
      continue;
    }
    last = e.rep.1;
    want.push((e.rep, e.text.clone()));
  }
  if got != want {
    let widened = ej.iter().any(|e| e.rep != e.node);
    fail!(
      if widened { "C08:lsp-fixall-differs:edit-range-differs-from-node-range" } else { "C08:lsp-fixall-differs" },
      "LSP fix-all proposes {:?}; the overlap-free edits of scan --json are {:?}\nrule:\n{}",
      got,
      want,
      case.rule_yaml
    );
  }
  st.label("lsp_fixall_checked");
  let widened = ej.iter().any(|e| e.rep != e.node);
  let multiline = ej.iter().any(|e| e.text.contains('\n'));
  if widened {
    st.label("edit_range_differs_from_node");
  }
  if multiline {
    st.label("multi_line_replacement");
  }
  if widened || multiline {
    st.label("nontrivial");
    st.nontrivial(&(&case.rule_yaml, &case.text));
    if st.wants_sample() {
      st.sample(json!({"rule": case.rule_yaml, "text": case.text, "edits": ej.iter().map(|e| json!({"node": e.node, "range": e.rep, "replacement": e.text})).collect::<Vec<_>>() }));
    }
  }
  Ok(())
}

pub fn run(cfg: &RunCfg) -> i32 {
  let mut report = Report::new(
    cfg,
    "case = (one fixable JavaScript rule out of 17 templates: nested matches with a common start, an expansion that displaces the previous edit (where the library, which rewrites outermost matches only, and `-U`, which filters all matches by range, legitimately differ in which matches they rewrite), string fix, block-scalar fixes that end with one or two line breaks, a fix that is only a line break, prefix match trimming the trailing `;`, expandEnd / expandStart / both swallowing commas, transformed variable, multi-line replacement, object form without expansion, statement deletion; a text of 1-6 statements with nested / multi-line calls, arrays, multi-byte identifiers). Reference = (replacementOffsets, replacement) of `sg scan --json=stream`. Compared: the `fixed` snapshot of `sg test -U` (first match), Node::replace_all (outermost matches) and AstGrep::replace (first) through the library, the LSP quick fix of every diagnostic and the fix-all action. (scan -U is C18's subject.) Non-trivial = distinct case whose edit range differs from the matched node's range or whose replacement is multi-line.",
  );
  report.assume("LSP ranges are converted with character columns");
  let known = Known::load(&cfg.prop);
  if let Some(path) = &cfg.replay {
    return crate::replay_main::<Case>(cfg, path, check);
  }
  crate::replay_known::<Case>(&mut report, &known, check);
  let total = cfg.budget(4_000, 160_000);
  let o = drive(cfg, "fix", total, &known, strategy, interpret, check);
  report.absorb("fix", o);
  cli::cleanup_work_root();
  report.floor("nontrivial", 0.15, "evaluations");
  report.finish()
}
