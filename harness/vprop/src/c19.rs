//! C19 — tree navigation and positions are mutually consistent on every tree.
use crate::engine::*;
use crate::fail;
use crate::gen::{self, Corpus, SrcChoice, SrcOpts};
use crate::langs;
use crate::tsutil::{self, parse, SgNode};
use ast_grep_core::traversal::{Level, Post, Pre};
use ast_grep_language::SupportLang;
use proptest::prelude::*;
use proptest::sample::Index;
use serde::{Deserialize, Serialize};
use serde_json::json;
use tree_sitter::Node as TsNode;

#[derive(Clone, Debug, Serialize, Deserialize)]
pub struct Case {
  pub lang: String,
  pub source: String,
  /// pre-order indices of the start nodes for the traversal clauses
  pub starts: Vec<usize>,
}

#[derive(Clone, Debug)]
pub struct Choice {
  src: SrcChoice,
  starts: Vec<Index>,
}

pub fn strategy(opts: &SrcOpts) -> BoxedStrategy<Choice> {
  (gen::src_choice(opts), prop::collection::vec(any::<Index>(), 1..12))
    .prop_map(|(src, starts)| Choice { src, starts })
    .boxed()
}

pub fn interpret(corpus: &Corpus, opts: &SrcOpts, ch: &Choice, st: &mut Stats) -> Option<Case> {
  let built = gen::build_source(corpus, &ch.src, opts);
  let sg = parse(built.lang, &built.text);
  let n = tsutil::preorder(sg.root().get_ts_node()).len();
  for l in &built.labels {
    st.label(l);
  }
  Some(Case {
    lang: langs::name(built.lang),
    source: built.text,
    starts: ch.starts.iter().map(|i| i.index(n)).collect(),
  })
}

type Key = (usize, usize, usize);
fn key_ts(n: &TsNode) -> Key {
  (n.id(), n.start_byte() as usize, n.end_byte() as usize)
}
fn key_sg(n: &SgNode) -> Key {
  let r = n.range();
  (n.node_id(), r.start, r.end)
}

fn ref_pre(n: &TsNode, out: &mut Vec<Key>) {
  out.push(key_ts(n));
  for c in tsutil::children(n) {
    ref_pre(&c, out);
  }
}
fn ref_post(n: &TsNode, out: &mut Vec<Key>) {
  for c in tsutil::children(n) {
    ref_post(&c, out);
  }
  out.push(key_ts(n));
}
fn ref_level(n: &TsNode) -> Vec<Key> {
  let mut out = vec![];
  let mut q = std::collections::VecDeque::new();
  q.push_back(n.clone());
  while let Some(x) = q.pop_front() {
    out.push(key_ts(&x));
    for c in tsutil::children(&x) {
      q.push_back(c);
    }
  }
  out
}

fn first_diff(a: &[Key], b: &[Key]) -> String {
  let i = a.iter().zip(b).position(|(x, y)| x != y).unwrap_or(a.len().min(b.len()));
  format!(
    "lengths {} vs {}, first difference at {}: {:?} vs {:?}",
    a.len(),
    b.len(),
    i,
    a.get(i).map(|k| (k.1, k.2)),
    b.get(i).map(|k| (k.1, k.2))
  )
}

pub fn check(case: &Case, st: &mut Stats) -> CheckResult {
  let lang: SupportLang = case.lang.parse().map_err(|_| Fail::new("bad-case", "lang"))?;
  st.eval();
  st.label(&format!("lang_{}", case.lang));
  let src = &case.source;
  let bytes = src.as_bytes();
  let sg = parse(lang, src);
  let root_ts = sg.root().get_ts_node();
  let all = tsutil::preorder(root_ts.clone());
  if tsutil::subtree_has_error(&root_ts) {
    st.label("has_error");
  }
  // line table for O-pos
  let mut line_starts = vec![0usize];
  for (i, b) in bytes.iter().enumerate() {
    if *b == b'\n' {
      line_starts.push(i + 1);
    }
  }
  let o_pos = |off: usize| -> (usize, usize) {
    let off = off.min(bytes.len());
    let line = match line_starts.binary_search(&off) {
      Ok(i) => i,
      Err(i) => i - 1,
    };
    let col = bytes[line_starts[line]..off]
      .iter()
      .filter(|b| (**b & 0xC0) != 0x80)
      .count();
    (line, col)
  };
  let line_is_mb = |line: usize| -> bool {
    let s = line_starts[line];
    let e = line_starts.get(line + 1).copied().unwrap_or(bytes.len());
    !bytes[s..e].is_ascii()
  };
  let mut mb_nodes = 0u64;
  for ts in &all {
    let node = sg.inner.adopt(ts.clone());
    let kids_ref = tsutil::children(ts);
    // ---- children / parent / nesting
    let kids: Vec<SgNode> = node.children().collect();
    let declared = node.children().len();
    if declared != kids.len() {
      fail!("C19:children-len", "children().len()={} but {} yielded at {:?}", declared, kids.len(), node.range());
    }
    let a: Vec<Key> = kids.iter().map(key_sg).collect();
    let b: Vec<Key> = kids_ref.iter().map(key_ts).collect();
    if a != b {
      fail!("C19:children", "children() differs from child(i) at {:?}: {}", node.range(), first_diff(&a, &b));
    }
    let mut prev_end = node.range().start;
    for (i, k) in kids.iter().enumerate() {
      let r = k.range();
      if r.start < node.range().start || r.end > node.range().end {
        fail!("C19:nesting", "child {i} {:?} not inside parent {:?}", r, node.range());
      }
      if r.start < prev_end {
        fail!("C19:nesting", "child {i} {:?} starts before the previous sibling ends ({prev_end})", r);
      }
      prev_end = r.end;
      match k.parent() {
        Some(p) if key_sg(&p) == key_sg(&node) => {}
        other => fail!(
          "C19:parent",
          "child {i} {:?} of {:?} has parent {:?}",
          r,
          node.range(),
          other.map(|p| p.range())
        ),
      }
      match node.child(i) {
        Some(c) if key_sg(&c) == key_sg(k) => {}
        _ => fail!("C19:child-i", "child({i}) of {:?} differs from children()[{i}]", node.range()),
      }
    }
    if node.child(kids.len()).is_some() {
      fail!("C19:child-i", "child({}) beyond the last child is Some at {:?}", kids.len(), node.range());
    }
    // ---- ancestors = iterated parent
    let mut chain = vec![];
    let mut cur = node.parent();
    while let Some(p) = cur {
      chain.push(key_sg(&p));
      cur = p.parent();
    }
    let anc: Vec<Key> = node.ancestors().map(|n| key_sg(&n)).collect();
    if anc != chain {
      fail!("C19:ancestors", "ancestors() of {:?} differs from the parent chain: {}", node.range(), first_diff(&anc, &chain));
    }
    // ---- siblings
    let parent_ok = match ts.parent() {
      Some(p) => tsutil::children(&p).iter().all(|c| c.end_byte() > c.start_byte()),
      None => true,
    };
    if parent_ok {
      let mut it_next = vec![];
      let mut cur = node.next();
      while let Some(n) = cur {
        it_next.push(key_sg(&n));
        cur = n.next();
        if it_next.len() > 100_000 {
          break;
        }
      }
      let na: Vec<Key> = node.next_all().map(|n| key_sg(&n)).collect();
      if na != it_next {
        let err_sib = ts.parent().map(|p| tsutil::children(&p).iter().any(|c| c.is_error() || c.is_missing())).unwrap_or(false);
        let sig = if ts.parent().is_none() { "C19:next_all:root" } else if err_sib { "C19:next_all:error-node-among-siblings(tree-sitter cursor)" } else { "C19:next_all" };
        fail!(sig, "next_all() of {:?} (kind {}) differs from iterated next(): {}", node.range(), node.kind(), first_diff(&na, &it_next));
      }
      let mut it_prev = vec![];
      let mut cur = node.prev();
      while let Some(n) = cur {
        it_prev.push(key_sg(&n));
        cur = n.prev();
        if it_prev.len() > 100_000 {
          break;
        }
      }
      let pa: Vec<Key> = node.prev_all().map(|n| key_sg(&n)).collect();
      if pa != it_prev {
        let err_sib = ts.parent().map(|p| tsutil::children(&p).iter().any(|c| c.is_error() || c.is_missing())).unwrap_or(false);
        let sig = if ts.parent().is_none() { "C19:prev_all:root" } else if err_sib { "C19:prev_all:error-node-among-siblings(tree-sitter cursor)" } else { "C19:prev_all" };
        let sibs: Vec<_> = ts.parent().map(|p| tsutil::children(&p).iter().map(|c| (c.id() % 100000, c.start_byte(), c.end_byte(), c.kind().to_string())).collect()).unwrap_or_default();
        fail!(sig, "prev_all() of {:?} (kind {}) differs from iterated prev(): {}\n siblings by child(i): {:?}\n prev_all: {:?}\n iterated prev: {:?}", node.range(), node.kind(), first_diff(&pa, &it_prev), sibs,
          pa.iter().map(|k| (k.0 % 100000, k.1, k.2)).collect::<Vec<_>>(), it_prev.iter().map(|k| (k.0 % 100000, k.1, k.2)).collect::<Vec<_>>());
      }
      // independent reference: the parent's child(i) list split at this node
      if let Some(p) = ts.parent() {
        let sibs = tsutil::children(&p);
        if let Some(j) = sibs.iter().position(|c| c.id() == ts.id() && c.byte_range() == ts.byte_range()) {
          let after: Vec<Key> = sibs[j + 1..].iter().map(key_ts).collect();
          let before: Vec<Key> = sibs[..j].iter().rev().map(key_ts).collect();
          if na != after {
            fail!("C19:next_all-vs-child-list", "next_all() of {:?} (kind {}) differs from the parent's child(i) list after it: {}", node.range(), node.kind(), first_diff(&na, &after));
          }
          if pa != before {
            fail!("C19:prev_all-vs-child-list", "prev_all() of {:?} (kind {}) differs from the parent's child(i) list before it: {}", node.range(), node.kind(), first_diff(&pa, &before));
          }
          st.label("siblings_checked_against_child_list");
        } else {
          st.label("node_not_found_in_parent_child_list");
        }
      }
      st.label("siblings_checked");
    } else {
      st.label("skipped_zero_width");
    }
    // ---- positions
    let r = node.range();
    let sp = node.start_pos();
    let ep = node.end_pos();
    let (sl, sc) = o_pos(r.start);
    let (el, ec) = o_pos(r.end);
    if r.end <= bytes.len() {
      if (sp.line(), sp.column(&node)) != (sl, sc) {
        fail!("C19:position", "start_pos of {:?} is ({}, {}), recomputed ({sl}, {sc})", r, sp.line(), sp.column(&node));
      }
      if (ep.line(), ep.column(&node)) != (el, ec) {
        fail!("C19:position", "end_pos of {:?} is ({}, {}), recomputed ({el}, {ec})", r, ep.line(), ep.column(&node));
      }
      if line_is_mb(sl) {
        mb_nodes += 1;
      }
    } else {
      st.label("node_past_eof");
    }
    // ---- fields
    let wf = tsutil::children_with_fields(ts);
    let mut names: Vec<&str> = wf.iter().filter_map(|(f, _)| f.as_deref()).collect();
    names.sort();
    names.dedup();
    for name in names {
      let expect: Vec<Key> = wf
        .iter()
        .filter(|(f, _)| f.as_deref() == Some(name))
        .map(|(_, n)| key_ts(n))
        .collect();
      let got: Vec<Key> = node.field_children(name).map(|n| key_sg(&n)).collect();
      if got != expect {
        fail!("C19:field_children", "field_children({name}) at {:?}: {}", r, first_diff(&got, &expect));
      }
      let raw = ts.child_by_field_name(name).map(|n| key_ts(&n));
      let f = node.field(name).map(|n| key_sg(&n));
      if f != raw {
        fail!("C19:field", "field({name}) at {:?} differs from child_by_field_name", r);
      }
      st.label("field_checked");
    }
  }
  st.label_n("nodes_checked", all.len() as u64);
  st.label_n("nodes_on_multibyte_line", mb_nodes);
  // ---- traversals from chosen start nodes
  let mut interesting = false;
  for &si in &case.starts {
    let Some(ts) = all.get(si) else { continue };
    let node = sg.inner.adopt(ts.clone());
    let mut rp = vec![];
    ref_pre(ts, &mut rp);
    let mut rpo = vec![];
    ref_post(ts, &mut rpo);
    let rl = ref_level(ts);
    let cap = rp.len() * 2 + 10;
    let pre: Vec<Key> = Pre::new(&node).take(cap).map(|n| key_sg(&n)).collect();
    if pre != rp {
      fail!("C19:pre-order", "Pre from {:?} (kind {}): {}", node.range(), node.kind(), first_diff(&pre, &rp));
    }
    let dfs: Vec<Key> = node.dfs().take(cap).map(|n| key_sg(&n)).collect();
    if dfs != rp {
      fail!("C19:pre-order", "dfs() from {:?}: {}", node.range(), first_diff(&dfs, &rp));
    }
    let post: Vec<Key> = Post::new(&node).take(cap).map(|n| key_sg(&n)).collect();
    if post != rpo {
      fail!("C19:post-order", "Post from {:?} (kind {}): {}", node.range(), node.kind(), first_diff(&post, &rpo));
    }
    let level: Vec<Key> = Level::new(&node).take(cap).map(|n| key_sg(&n)).collect();
    if level != rl {
      fail!("C19:level-order", "Level from {:?} (kind {}): {}", node.range(), node.kind(), first_diff(&level, &rl));
    }
    st.label("traversal_start");
    let not_root = ts.parent().is_some();
    let not_leaf = ts.child_count() > 0;
    let not_last = ts.next_sibling().is_some();
    if not_root && not_leaf && not_last {
      st.label("start_inner_not_last");
      interesting = true;
    }
  }
  if interesting || mb_nodes > 0 {
    st.label("nontrivial");
    st.nontrivial(&(&case.lang, &case.source, &case.starts));
    if st.wants_sample() {
      st.sample(json!({"lang": case.lang, "source_head": src.chars().take(200).collect::<String>(), "starts": case.starts, "nodes": all.len()}));
    }
  }
  Ok(())
}

fn stage_opts() -> SrcOpts {
  let opts = SrcOpts::all_langs().with_errors();
  opts
}

/// the same stage, driven by bytes (coverage-guided tier)
pub fn erased() -> crate::fuzz::Erased {
  let corpus: &'static Corpus = Box::leak(Box::new(Corpus::load()));
  let opts: &'static SrcOpts = Box::leak(Box::new(stage_opts()));
  crate::fuzz::Erased::generic("C19", "navigation", move || strategy(opts), move |c, st| interpret(corpus, opts, c, st), check)
}

pub fn run(cfg: &RunCfg) -> i32 {
  let mut report = Report::new(
    cfg,
    "case = (language, source from corpus/synth + mutations incl. syntax errors / multi-byte / CRLF, up to 11 start nodes anywhere in the tree). All nodes of the tree get the children/parent/ancestors/sibling/position/field clauses; each start node gets Pre/Post/Level against plain recursion. Non-trivial = distinct case with a start node that is neither root nor leaf nor its parent's last child, or with nodes on a line containing multi-byte text.",
  );
  report.assume("node identity is (tree-sitter id, byte range); kinds are not compared across navigation paths (tree-sitter aliases)");
  report.assume("sibling clause only for parents whose children all have non-zero width (property's restriction)");
  let known = Known::load(&cfg.prop);
  if let Some(path) = &cfg.replay {
    return crate::replay_main::<Case>(cfg, path, check);
  }
  let corpus = Corpus::load();
  crate::replay_known::<Case>(&mut report, &known, check);
  let opts = stage_opts();
  let total = cfg.budget(10_000, 150_000);
  let o = drive(cfg, "navigation", total, &known, || strategy(&opts), |c, st| interpret(&corpus, &opts, c, st), check);
  report.absorb("navigation", o);
  report.floor("start_inner_not_last", 0.20, "traversal_start");
  crate::fuzz::stage(cfg, &mut report, &known, 20000);
  report.finish()
}
