//! Language table: names, corpus directory, file extension, comment syntax.
use ast_grep_language::SupportLang;

pub struct LangInfo {
  pub lang: SupportLang,
  pub dir: &'static str,
  pub ext: &'static str,
  pub line_comment: Option<&'static str>,
  pub block_comment: Option<(&'static str, &'static str)>,
}

pub const LANGS: &[LangInfo] = &[
  li(SupportLang::Bash, "bash", "sh", Some("#"), None),
  li(SupportLang::C, "c", "c", Some("//"), Some(("/*", "*/"))),
  li(SupportLang::Cpp, "cpp", "cpp", Some("//"), Some(("/*", "*/"))),
  li(SupportLang::CSharp, "csharp", "cs", Some("//"), Some(("/*", "*/"))),
  li(SupportLang::Css, "css", "css", None, Some(("/*", "*/"))),
  li(SupportLang::Elixir, "elixir", "ex", Some("#"), None),
  li(SupportLang::Go, "go", "go", Some("//"), Some(("/*", "*/"))),
  li(SupportLang::Haskell, "haskell", "hs", Some("--"), Some(("{-", "-}"))),
  li(SupportLang::Html, "html", "html", None, Some(("<!--", "-->"))),
  li(SupportLang::Java, "java", "java", Some("//"), Some(("/*", "*/"))),
  li(SupportLang::JavaScript, "javascript", "js", Some("//"), Some(("/*", "*/"))),
  li(SupportLang::Json, "json", "json", None, None),
  li(SupportLang::Kotlin, "kotlin", "kt", Some("//"), Some(("/*", "*/"))),
  li(SupportLang::Lua, "lua", "lua", Some("--"), Some(("--[[", "]]"))),
  li(SupportLang::Php, "php", "php", Some("//"), Some(("/*", "*/"))),
  li(SupportLang::Python, "python", "py", Some("#"), None),
  li(SupportLang::Ruby, "ruby", "rb", Some("#"), None),
  li(SupportLang::Rust, "rust", "rs", Some("//"), Some(("/*", "*/"))),
  li(SupportLang::Scala, "scala", "scala", Some("//"), Some(("/*", "*/"))),
  li(SupportLang::Swift, "swift", "swift", Some("//"), Some(("/*", "*/"))),
  li(SupportLang::Tsx, "tsx", "tsx", Some("//"), Some(("/*", "*/"))),
  li(SupportLang::TypeScript, "typescript", "ts", Some("//"), Some(("/*", "*/"))),
  li(SupportLang::Yaml, "yaml", "yml", Some("#"), None),
];

const fn li(
  lang: SupportLang,
  dir: &'static str,
  ext: &'static str,
  line_comment: Option<&'static str>,
  block_comment: Option<(&'static str, &'static str)>,
) -> LangInfo {
  LangInfo {
    lang,
    dir,
    ext,
    line_comment,
    block_comment,
  }
}

pub fn info(lang: SupportLang) -> &'static LangInfo {
  LANGS.iter().find(|l| l.lang == lang).expect("lang")
}

pub fn by_name(name: &str) -> Option<SupportLang> {
  name.parse().ok()
}

pub fn name(lang: SupportLang) -> String {
  format!("{lang}")
}
