//! C12 — accepted rules are self-consistent: variables, references and rewriters resolve.
use crate::c06::o_splice;
use crate::c07::{indent_at, o_template, Bound};
use crate::engine::*;
use crate::fail;
use crate::gen::{self, Corpus, SrcChoice, SrcOpts};
use crate::langs;
use crate::pat::{self, PatSpec};
use crate::rules::*;
use crate::tsutil::{self, parse};
use ast_grep_config::{from_yaml_string, GlobalRules, RuleConfig};
use ast_grep_core::matcher::MatcherExt;
use ast_grep_core::{Matcher, StrDoc};
use ast_grep_language::SupportLang;
use proptest::prelude::*;
use proptest::sample::Index;
use serde::{Deserialize, Serialize};
use serde_json::json;
use std::collections::{BTreeMap, BTreeSet};

#[derive(Clone, Debug, Serialize, Deserialize)]
pub enum TK {
  Substring { source: String, start: Option<i32>, end: Option<i32> },
  Replace { source: String, replace: String, by: String },
  Convert { source: String, to_case: String },
  Rewrite { source: String, rewriters: Vec<String>, join_by: Option<String> },
}

impl TK {
  fn source(&self) -> &str {
    match self {
      TK::Substring { source, .. } | TK::Replace { source, .. } | TK::Convert { source, .. } | TK::Rewrite { source, .. } => source,
    }
  }
  fn set_source(&mut self, s: &str) {
    match self {
      TK::Substring { source, .. } | TK::Replace { source, .. } | TK::Convert { source, .. } | TK::Rewrite { source, .. } => *source = s.to_string(),
    }
  }
}

#[derive(Clone, Debug, Serialize, Deserialize)]
pub struct Doc {
  pub lang: String,
  pub source: String,
  pub spec: PatSpec,
  /// replaces the pattern rule when set (perturbation "no kind-determining key")
  pub rule_override: Option<GRule>,
  pub extra_matches: Option<String>,
  pub utils: Vec<(String, GRule)>,
  pub constraints: Vec<(String, GRule)>,
  pub transforms: Vec<(String, TK)>,
  pub rewriters: Vec<(String, GRule, String)>,
  pub fix: String,
  pub object_form: bool,
  /// Some(reason) when the document violates one of the listed conditions by construction
  pub violates: Option<String>,
  /// perturbations that can send loading into unbounded recursion run in a child process
  pub isolate: bool,
  /// object-form fix with `expandEnd: {kind: <this>, pattern: $NEXT, stopBy: end}`: a variable that
  /// exists only inside the expansion rule
  #[serde(default)]
  pub expand_kind: Option<String>,
  /// the rewriter's fix is `R[$<name>]` with the name of a transformed variable of the rule
  #[serde(default)]
  pub rewriter_uses_transformed: Option<String>,
}

#[derive(Clone, Debug)]
pub struct Choice {
  src: SrcChoice,
  node: Index,
  holes: Vec<Index>,
  run: Option<(Index, Index)>,
  t1: u8,
  t1_args: (i8, i8, u8),
  t2: Option<u8>,
  with_util: bool,
  with_constraint: bool,
  with_rewriter: bool,
  fix_pieces: Vec<u8>,
  object_form: bool,
  perturb: u8,
  cyc_op: u8,
  kind_pick: Index,
}

pub fn strategy(opts: &SrcOpts) -> BoxedStrategy<Choice> {
  (
    (
      gen::src_choice(opts),
      any::<Index>(),
      prop::collection::vec(any::<Index>(), 1..=2),
      prop::option::weighted(0.3, (any::<Index>(), any::<Index>())),
      0u8..6,
      (-6i8..7, -6i8..7, 0u8..6),
      prop::option::weighted(0.5, 0u8..4),
    ),
    (
      any::<bool>(),
      any::<bool>(),
      any::<bool>(),
      prop::collection::vec(0u8..12, 1..7),
      any::<bool>(),
      prop_oneof![4 => Just(0u8), 6 => 1u8..11],
      0u8..13,
      any::<Index>(),
    ),
  )
    .prop_map(
      |((src, node, holes, run, t1, t1_args, t2), (with_util, with_constraint, with_rewriter, fix_pieces, object_form, perturb, cyc_op, kind_pick))| Choice {
        src,
        node,
        holes,
        run,
        t1,
        t1_args,
        t2,
        with_util,
        with_constraint,
        with_rewriter,
        fix_pieces,
        object_form,
        perturb,
        cyc_op,
        kind_pick,
      },
    )
    .boxed()
}

const REPLACES: &[(&str, &str)] = &[("[aeiou]", "_"), ("^(.)", "<$1>"), ("\\d+", "N"), ("(?s).", "x"), ("o", ""), ("\\s+", " ")];

pub fn interpret(corpus: &Corpus, opts: &SrcOpts, ch: &Choice, st: &mut Stats) -> Option<Doc> {
  let built = gen::build_source(corpus, &ch.src, opts);
  let lang = built.lang;
  let text = built.text.clone();
  if text.contains('\t') || text.contains('\r') {
    st.discard("tabs / CRLF are outside O-template's stated rule");
    return None;
  }
  let sg = parse(lang, &text);
  let cands: Vec<_> = pat::cut_candidates(&text, sg.root().get_ts_node(), 300)
    .into_iter()
    .filter(|c| {
      tsutil::preorder(c.clone())
        .iter()
        .skip(1)
        .any(|d| d.is_named() && d.end_byte() > d.start_byte() && d.byte_range() != c.byte_range())
    })
    .collect();
  if cands.is_empty() {
    return None;
  }
  let n = &cands[ch.node.index(cands.len())];
  let mut spec = pat::cut_pattern(&text, n, &ch.holes, ch.run);
  if spec.holes.is_empty() {
    st.discard("no hole");
    return None;
  }
  let ok_plain = pat::build(&spec, lang)
    .map(|p| pat::shape_matches(&text, &spec, &p.node, n).is_ok())
    .unwrap_or(false);
  if !ok_plain {
    spec.selector = Some(spec.kind.clone());
    let ok_ctx = catch(|| pat::build(&spec, lang))
      .ok()
      .flatten()
      .map(|p| pat::shape_matches(&text, &spec, &p.node, n).is_ok())
      .unwrap_or(false);
    if !ok_ctx {
      st.discard("pattern does not parse to the shape of the code");
      return None;
    }
  }
  let v0 = format!("${}", spec.holes[0].name);
  let mut transforms: Vec<(String, TK)> = vec![];
  let t1 = match ch.t1 {
    0 | 1 => TK::Substring {
      source: v0.clone(),
      start: (ch.t1_args.2 % 3 != 0).then_some(ch.t1_args.0 as i32),
      end: (ch.t1_args.2 % 2 != 0).then_some(ch.t1_args.1 as i32),
    },
    2 | 3 => {
      let (r, b) = REPLACES[ch.t1_args.2 as usize % REPLACES.len()];
      TK::Replace {
        source: v0.clone(),
        replace: r.into(),
        by: b.into(),
      }
    }
    _ => TK::Convert {
      source: v0.clone(),
      to_case: ["lowerCase", "upperCase", "capitalize"][ch.t1_args.2 as usize % 3].into(),
    },
  };
  transforms.push(("T1".into(), t1));
  if let Some(k) = ch.t2 {
    let (r, b) = REPLACES[k as usize % REPLACES.len()];
    transforms.push((
      // the dependent transformation sometimes sorts *before* its source by name
      if k % 2 == 0 { "T2".into() } else { "A2".into() },
      TK::Replace {
        source: "$T1".into(),
        replace: r.into(),
        by: b.into(),
      },
    ));
  }
  let ctx = RuleCtx::new(lang, &text, &sg);
  let mut rewriters = vec![];
  if ch.with_rewriter && !ctx.kinds.is_empty() {
    let k = ctx.kinds[ch.kind_pick.index(ctx.kinds.len())].clone();
    // the rewriter's fix is a literal or uses a variable of the enclosing rule (single-line capture)
    let outer = spec.holes.iter().rev().find(|h| !text[h.start..h.end].contains('\n'));
    let rfix = match (ch.t1_args.2 % 2, outer) {
      (1, Some(h)) => format!("R[${}]", h.name),
      _ => "R".to_string(),
    };
    rewriters.push(("rw0".to_string(), GRule::Kind(k), rfix));
    transforms.push((
      "RW".into(),
      TK::Rewrite {
        source: v0.clone(),
        rewriters: vec!["rw0".into()],
        join_by: None,
      },
    ));
  }
  let mut utils = vec![];
  let mut extra_matches = None;
  if ch.with_util {
    utils.push(("u0".to_string(), GRule::Kind(spec.kind.clone())));
    extra_matches = Some("u0".to_string());
  }
  let mut constraints = vec![];
  if ch.with_constraint {
    constraints.push((spec.holes[0].name.clone(), GRule::Regex("(?s).".into())));
  }
  // fix template
  let mut names: Vec<String> = spec.holes.iter().map(|h| format!("${}", h.name)).collect();
  if let Some(r) = &spec.run {
    names.push(format!("$$${}", r.name));
  }
  for (n, _) in &transforms {
    names.push(format!("${n}"));
  }
  let lits = ["(", ")", ", ", " ", "\n  ", "é", "x"];
  let mut fix = String::new();
  for p in &ch.fix_pieces {
    if *p < 7 {
      fix.push_str(&names[*p as usize % names.len()]);
    } else {
      fix.push_str(lits[*p as usize % lits.len()]);
    }
  }
  if !fix.contains('$') {
    fix.push_str(&names[0]);
  }
  let mut doc = Doc {
    lang: langs::name(lang),
    source: text.clone(),
    spec,
    rule_override: None,
    extra_matches,
    utils,
    constraints,
    transforms,
    rewriters,
    fix,
    object_form: ch.object_form,
    violates: None,
    isolate: false,
    expand_kind: None,
    rewriter_uses_transformed: None,
  };
  perturb(&mut doc, ch, &ctx);
  for l in &built.labels {
    st.label(l);
  }
  Some(doc)
}

fn perturb(doc: &mut Doc, ch: &Choice, ctx: &RuleCtx) {
  let v0 = format!("${}", doc.spec.holes[0].name);
  match ch.perturb {
    0 => {}
    1 => {
      // a variable used in fix is renamed to an undefined one (single or ellipsis form)
      if ch.cyc_op % 3 == 2 {
        doc.fix.push_str(" $$$ZZ");
        doc.violates = Some("fix uses the undefined variable $$$ZZ".into());
      } else if doc.fix.contains(&v0) {
        doc.fix = doc.fix.replacen(&v0, "$ZZ", 1);
        doc.violates = Some("fix uses the undefined variable $ZZ".into());
      }
    }
    2 => {
      doc.transforms[0].1.set_source("$ZZ");
      doc.violates = Some("transform source uses the undefined variable $ZZ".into());
    }
    3 => {
      doc.constraints.push(("ZZ".into(), GRule::Regex(".".into())));
      doc.violates = Some("constraints key ZZ is not a defined variable".into());
    }
    4 => {
      if ch.cyc_op % 2 == 0 || doc.utils.is_empty() {
        doc.extra_matches = Some("nope".into());
      } else {
        doc.utils[0].1 = GRule::Obj(vec![GRule::Kind(doc.spec.kind.clone()), GRule::Matches("nope".into())]);
      }
      doc.violates = Some("`matches: nope` does not resolve".into());
    }
    5 => {
      if let Some((_, TK::Rewrite { rewriters, .. })) = doc.transforms.iter_mut().find(|(_, t)| matches!(t, TK::Rewrite { .. })) {
        rewriters.push("nope".into());
        doc.violates = Some("rewriter reference `nope` does not resolve".into());
      }
    }
    6 if ch.cyc_op % 3 == 2 && doc.transforms.iter().any(|(n, _)| n == "RW") => {
      // a cycle of transformations that passes through a `rewrite`
      doc.transforms[0].1.set_source("$RW");
      if let Some((_, t)) = doc.transforms.iter_mut().find(|(n, _)| n == "RW") {
        t.set_source("$T1");
      }
      doc.violates = Some("transformations T1 and RW depend on each other".into());
    }
    6 => {
      if ch.cyc_op % 2 == 0 || doc.transforms.len() < 2 || !matches!(doc.transforms[1].1, TK::Replace { .. }) {
        doc.transforms[0].1.set_source("$T1");
        doc.violates = Some("transformation T1 depends on itself".into());
      } else {
        let second = format!("${}", doc.transforms[1].0);
        doc.transforms[0].1.set_source(&second);
        doc.violates = Some(format!("transformations T1 and {} depend on each other", doc.transforms[1].0));
      }
    }
    9 => {
      // the fix uses a variable that only the fix's own expansion rule binds
      if !ctx.kinds.is_empty() {
        doc.object_form = true;
        doc.expand_kind = Some(ctx.kinds[ch.kind_pick.index(ctx.kinds.len())].clone());
        doc.fix.push_str(" $NEXT");
        doc.violates = Some("fix uses the undefined variable $NEXT (bound only inside expandEnd)".into());
      }
    }
    7 => {
      // a utility that requires itself on the same node
      let k = GRule::Kind(doc.spec.kind.clone());
      let me = || GRule::Matches("u0".into());
      let rel = |rule: GRule| {
        Box::new(Rel {
          rule,
          stop: Stop::End,
          field: None,
        })
      };
      let (body, other, why): (GRule, Option<GRule>, &str) = match ch.cyc_op {
        0 => (me(), None, "matches"),
        1 => (GRule::All(vec![k.clone(), me()]), None, "all"),
        2 => (GRule::Any(vec![k.clone(), me()]), None, "any"),
        3 => (GRule::Obj(vec![k.clone(), GRule::Not(Box::new(me()))]), None, "not"),
        4 => (GRule::Obj(vec![k.clone(), GRule::Matches("u1".into())]), Some(GRule::Obj(vec![k.clone(), me()])), "matches through a second utility"),
        5 => (
          GRule::Obj(vec![
            k.clone(),
            GRule::Nth {
              position: "1".into(),
              numeric: true,
              reverse: false,
              of_rule: Some(Box::new(me())),
              simple: false,
            },
          ]),
          None,
          "nthChild.ofRule (tests the node itself among its siblings)",
        ),
        6 => (
          GRule::Obj(vec![k.clone(), GRule::Inside(rel(GRule::Has(rel(me()))))]),
          None,
          "inside + has (an ancestor's descendants include the node itself)",
        ),
        7 => (
          GRule::Obj(vec![k.clone(), GRule::Precedes(rel(GRule::Follows(rel(me()))))]),
          None,
          "precedes + follows (a later sibling's earlier siblings include the node itself)",
        ),
        8 => (
          GRule::Obj(vec![k.clone(), GRule::Has(rel(GRule::Inside(rel(me()))))]),
          None,
          "has + inside (a descendant's ancestors include the node itself)",
        ),
        // the cycle closes through a composite key that sits beside a harmless `matches` key
        // the cycle u0 -> u1 -> u0 closes through a composite key of u0 that sits beside a
        // harmless `matches: ub` key
        9 => (GRule::Obj(vec![GRule::Matches("ub".into()), GRule::Not(Box::new(GRule::Matches("u1".into())))]), Some(GRule::Obj(vec![k.clone(), me()])), "not beside a matches key, through a second utility"),
        10 => (GRule::Obj(vec![GRule::Matches("ub".into()), GRule::All(vec![GRule::Matches("u1".into())])]), Some(GRule::Obj(vec![k.clone(), me()])), "all beside a matches key, through a second utility"),
        11 => (
          GRule::Obj(vec![GRule::Matches("ub".into()), GRule::Any(vec![k.clone(), GRule::Matches("u1".into())])]),
          Some(GRule::Obj(vec![k.clone(), me()])),
          "any beside a matches key, through a second utility",
        ),
        _ => (
          GRule::Obj(vec![
            GRule::Matches("ub".into()),
            GRule::Nth {
              position: "1".into(),
              numeric: true,
              reverse: false,
              of_rule: Some(Box::new(GRule::Matches("u1".into()))),
              simple: false,
            },
          ]),
          Some(GRule::Obj(vec![k.clone(), me()])),
          "nthChild.ofRule beside a matches key, through a second utility",
        ),
      };
      doc.utils = vec![("u0".into(), body)];
      if let Some(o) = other {
        doc.utils.push(("u1".into(), o));
      }
      if ch.cyc_op >= 9 {
        doc.utils.push(("ub".into(), k.clone()));
      }
      doc.extra_matches = Some("u0".into());
      doc.violates = Some(format!("utility u0 requires itself on the same node through {why}"));
      doc.isolate = true;
    }
    10 => {
      // the rewriter's fix names a transformed variable of the enclosing rule
      let first = doc.transforms.first().filter(|(_, t)| !matches!(t, TK::Rewrite { .. })).map(|(n, _)| n.clone());
      if let (Some(name), Some(rw)) = (first, doc.rewriters.first_mut()) {
        rw.2 = format!("R[${name}]");
        doc.rewriter_uses_transformed = Some(name);
      }
    }
    _ => {
      // no kind-determining key left
      let k = if ctx.kinds.is_empty() { "x".to_string() } else { ctx.kinds[ch.kind_pick.index(ctx.kinds.len())].clone() };
      let rel = Box::new(Rel {
        rule: GRule::Kind(k.clone()),
        stop: Stop::End,
        field: None,
      });
      doc.rule_override = Some(match ch.cyc_op % 4 {
        0 => GRule::Regex(".".into()),
        1 => GRule::Not(Box::new(GRule::Kind(k))),
        2 => GRule::Inside(rel),
        _ => GRule::Obj(vec![GRule::Regex("a".into()), GRule::Has(rel)]),
      });
      doc.extra_matches = None;
      // variables of the pattern are gone: keep the rest consistent
      doc.constraints.clear();
      doc.transforms.clear();
      doc.rewriters.clear();
      doc.fix = "x".into();
      doc.violates = Some("the rule has no key that determines a set of node kinds".into());
    }
  }
}

fn ys(s: &str) -> serde_yaml::Value {
  serde_yaml::Value::String(s.to_string())
}

pub fn doc_yaml(doc: &Doc) -> String {
  let mut m = serde_yaml::Mapping::new();
  m.insert(ys("id"), ys("main"));
  m.insert(ys("language"), ys(&doc.lang));
  let rule = match &doc.rule_override {
    Some(r) => r.clone(),
    None => {
      let p = GRule::Pattern(PatLeaf {
        text: doc.spec.text.clone(),
        selector: doc.spec.selector.clone(),
        strictness: None,
        singles: vec![],
        multis: vec![],
      });
      match &doc.extra_matches {
        Some(u) => GRule::Obj(vec![p, GRule::Matches(u.clone())]),
        None => p,
      }
    }
  };
  m.insert(ys("rule"), rule.to_yaml());
  let map_of = |pairs: &[(String, GRule)]| {
    let mut mm = serde_yaml::Mapping::new();
    for (k, r) in pairs {
      mm.insert(ys(k), r.to_yaml());
    }
    serde_yaml::Value::Mapping(mm)
  };
  if !doc.utils.is_empty() {
    m.insert(ys("utils"), map_of(&doc.utils));
  }
  if !doc.constraints.is_empty() {
    m.insert(ys("constraints"), map_of(&doc.constraints));
  }
  if !doc.transforms.is_empty() {
    let mut tm = serde_yaml::Mapping::new();
    for (name, t) in &doc.transforms {
      let mut inner = serde_yaml::Mapping::new();
      let (key, body) = match t {
        TK::Substring { source, start, end } => {
          inner.insert(ys("source"), ys(source));
          if let Some(s) = start {
            inner.insert(ys("startChar"), serde_yaml::Value::Number((*s as i64).into()));
          }
          if let Some(e) = end {
            inner.insert(ys("endChar"), serde_yaml::Value::Number((*e as i64).into()));
          }
          ("substring", inner)
        }
        TK::Replace { source, replace, by } => {
          inner.insert(ys("source"), ys(source));
          inner.insert(ys("replace"), ys(replace));
          inner.insert(ys("by"), ys(by));
          ("replace", inner)
        }
        TK::Convert { source, to_case } => {
          inner.insert(ys("source"), ys(source));
          inner.insert(ys("toCase"), ys(to_case));
          ("convert", inner)
        }
        TK::Rewrite { source, rewriters, join_by } => {
          inner.insert(ys("source"), ys(source));
          inner.insert(ys("rewriters"), serde_yaml::Value::Sequence(rewriters.iter().map(|r| ys(r)).collect()));
          if let Some(j) = join_by {
            inner.insert(ys("joinBy"), ys(j));
          }
          ("rewrite", inner)
        }
      };
      let mut outer = serde_yaml::Mapping::new();
      outer.insert(ys(key), serde_yaml::Value::Mapping(body));
      tm.insert(ys(name), serde_yaml::Value::Mapping(outer));
    }
    m.insert(ys("transform"), serde_yaml::Value::Mapping(tm));
  }
  if !doc.rewriters.is_empty() {
    let seq = doc
      .rewriters
      .iter()
      .map(|(id, rule, fix)| {
        let mut rm = serde_yaml::Mapping::new();
        rm.insert(ys("id"), ys(id));
        rm.insert(ys("rule"), rule.to_yaml());
        rm.insert(ys("fix"), ys(fix));
        serde_yaml::Value::Mapping(rm)
      })
      .collect();
    m.insert(ys("rewriters"), serde_yaml::Value::Sequence(seq));
  }
  if doc.object_form {
    let mut f = serde_yaml::Mapping::new();
    f.insert(ys("template"), ys(&doc.fix));
    if let Some(k) = &doc.expand_kind {
      let mut e = serde_yaml::Mapping::new();
      e.insert(ys("kind"), ys(k));
      e.insert(ys("pattern"), ys("$NEXT"));
      e.insert(ys("stopBy"), ys("end"));
      f.insert(ys("expandEnd"), serde_yaml::Value::Mapping(e));
    }
    m.insert(ys("fix"), serde_yaml::Value::Mapping(f));
  } else {
    m.insert(ys("fix"), ys(&doc.fix));
  }
  serde_yaml::to_string(&serde_yaml::Value::Mapping(m)).unwrap()
}

/// Independent static analysis of the document model: which listed condition is violated?
pub fn analyse(doc: &Doc) -> Option<String> {
  // defined variables
  let mut defined: BTreeSet<String> = BTreeSet::new();
  if doc.rule_override.is_none() {
    for h in &doc.spec.holes {
      defined.insert(h.name.clone());
    }
    if let Some(r) = &doc.spec.run {
      defined.insert(r.name.clone());
    }
  }
  let tnames: BTreeSet<String> = doc.transforms.iter().map(|(n, _)| n.clone()).collect();
  // references
  let util_names: BTreeSet<&String> = doc.utils.iter().map(|(n, _)| n).collect();
  let mut unresolved = None;
  let mut check_refs = |r: &GRule| {
    r.walk(&mut |x| {
      if let GRule::Matches(n) = x {
        if !util_names.contains(n) {
          unresolved = Some(n.clone());
        }
      }
    })
  };
  if let Some(u) = &doc.extra_matches {
    check_refs(&GRule::Matches(u.clone()));
  }
  for (_, u) in &doc.utils {
    check_refs(u);
  }
  if let Some(n) = unresolved {
    return Some(format!("`matches: {n}` does not resolve"));
  }
  // same-node cycles among utilities
  fn same_node_refs(r: &GRule, via_rel: usize, out: &mut Vec<String>) {
    match r {
      GRule::Matches(n) => out.push(n.clone()),
      GRule::All(v) | GRule::Any(v) | GRule::Obj(v) => v.iter().for_each(|x| same_node_refs(x, via_rel, out)),
      GRule::Not(x) => same_node_refs(x, via_rel, out),
      GRule::Nth { of_rule: Some(o), .. } => same_node_refs(o, via_rel, out),
      // a round trip through two opposite relations can come back to the node itself
      GRule::Inside(rel) | GRule::Has(rel) | GRule::Precedes(rel) | GRule::Follows(rel) => {
        if via_rel == 0 {
          if let GRule::Inside(inner) | GRule::Has(inner) | GRule::Precedes(inner) | GRule::Follows(inner) = &rel.rule {
            let opposite = matches!(
              (r, &rel.rule),
              (GRule::Inside(_), GRule::Has(_)) | (GRule::Has(_), GRule::Inside(_)) | (GRule::Precedes(_), GRule::Follows(_)) | (GRule::Follows(_), GRule::Precedes(_))
            );
            if opposite {
              same_node_refs(&inner.rule, 1, out);
            }
          }
        }
      }
      _ => {}
    }
  }
  let graph: BTreeMap<String, Vec<String>> = doc
    .utils
    .iter()
    .map(|(n, r)| {
      let mut out = vec![];
      same_node_refs(r, 0, &mut out);
      (n.clone(), out)
    })
    .collect();
  for start in graph.keys() {
    let mut stack = vec![start.clone()];
    let mut seen = BTreeSet::new();
    while let Some(x) = stack.pop() {
      for y in graph.get(&x).into_iter().flatten() {
        if y == start {
          return Some(format!("utility {start} requires itself on the same node"));
        }
        if seen.insert(y.clone()) {
          stack.push(y.clone());
        }
      }
    }
  }
  // constraints keys
  for (k, _) in &doc.constraints {
    if !defined.contains(k) {
      return Some(format!("constraints key {k} is not a defined variable"));
    }
  }
  // transforms: sources defined by rule or another transform; no cycles
  for (n, t) in &doc.transforms {
    let s = t.source().trim_start_matches('$').to_string();
    if !defined.contains(&s) && !tnames.contains(&s) {
      return Some(format!("transform {n} uses the undefined variable ${s}"));
    }
  }
  for (n, _) in &doc.transforms {
    let mut cur = n.clone();
    let mut steps = 0;
    loop {
      let Some((_, t)) = doc.transforms.iter().find(|(x, _)| *x == cur) else { break };
      cur = t.source().trim_start_matches('$').to_string();
      steps += 1;
      if cur == *n {
        return Some(format!("transformation {n} depends on itself"));
      }
      if steps > 10 {
        break;
      }
    }
  }
  let rw_ids: BTreeSet<&String> = doc.rewriters.iter().map(|(i, _, _)| i).collect();
  for (_, t) in &doc.transforms {
    if let TK::Rewrite { rewriters, .. } = t {
      for r in rewriters {
        if !rw_ids.contains(r) {
          return Some(format!("rewriter reference `{r}` does not resolve"));
        }
      }
    }
  }
  // fix variables
  for (tok, _) in crate::c07::scan_template(&doc.fix) {
    let name = match tok {
      crate::c07::Tok::Single(n) | crate::c07::Tok::Multi(n) => n,
      _ => continue,
    };
    if !defined.contains(&name) && !tnames.contains(&name) {
      return Some(format!("fix uses the undefined variable ${name}"));
    }
  }
  if doc.rule_override.is_some() {
    return Some("the rule has no key that determines a set of node kinds".into());
  }
  None
}

fn py_slice(chars: &[char], start: Option<i32>, end: Option<i32>) -> String {
  let len = chars.len() as i64;
  let norm = |v: Option<i32>, dft: i64| -> i64 {
    match v {
      None => dft,
      Some(x) => {
        let x = x as i64;
        if x < 0 {
          (len + x).max(0)
        } else {
          x.min(len)
        }
      }
    }
  };
  let (s, e) = (norm(start, 0), norm(end, len));
  if s >= e {
    return String::new();
  }
  chars[s as usize..e as usize].iter().collect()
}

fn capitalize(s: &str) -> String {
  let mut c = s.chars();
  match c.next() {
    Some(f) => f.to_uppercase().chain(c).collect(),
    None => String::new(),
  }
}

/// the transformed value is stored with the indentation of the source capture's line removed
fn deindent(src: &str, start: usize, text: &str) -> String {
  if !text.contains('\n') {
    return text.to_string();
  }
  let is = indent_at(src, start);
  if is == 0 {
    return text.to_string();
  }
  let pad = " ".repeat(is);
  text
    .split('\n')
    .enumerate()
    .map(|(i, l)| if i == 0 { l } else { l.strip_prefix(&pad).unwrap_or(l) })
    .collect::<Vec<_>>()
    .join("\n")
}

pub fn check(doc: &Doc, st: &mut Stats) -> CheckResult {
  if doc.isolate && std::env::var("VPROP_CHILD").is_err() {
    // loading a cyclic utility may recurse without bound: run this case in a child process
    st.eval();
    st.label("isolated_case");
    st.label("perturbed_violating_document");
    st.nontrivial(&("perturbed", doc_yaml(doc)));
    return run_isolated("C12", "docs", doc, std::time::Duration::from_secs(20)).map_err(|f| {
      if f.signature.starts_with("crash:") || f.signature == "hang" {
        Fail::new(
          format!("C12:cyclic-utility-accepted-and-{}", f.signature.replace(':', "-")),
          format!("{}\n{}\n{}", doc.violates.clone().unwrap_or_default(), f.message, doc_yaml(doc)),
        )
      } else {
        f
      }
    });
  }
  check_inner(doc, st)
}

fn check_inner(doc: &Doc, st: &mut Stats) -> CheckResult {
  let lang: SupportLang = doc.lang.parse().map_err(|_| Fail::new("bad-case", "lang"))?;
  let yaml = doc_yaml(doc);
  let analysis = analyse(doc);
  let globals = GlobalRules::default();
  let loaded = match catch(|| from_yaml_string::<SupportLang>(&yaml, &globals)) {
    Ok(r) => r,
    Err(p) => fail!(panic_signature(&p), "panic while loading\n{yaml}\n{p}"),
  };
  st.eval();
  st.label(&format!("lang_{}", doc.lang));
  if let Some(reason) = &analysis {
    st.label("perturbed_violating_document");
    st.nontrivial(&("perturbed", &yaml));
    if loaded.is_ok() {
      let class = if reason.starts_with("utility") {
        let v = doc.violates.clone().unwrap_or_default();
        if v.contains("inside + has") || v.contains("precedes + follows") || v.contains("has + inside") {
          "utility-cycle:relational-round-trip".to_string()
        } else {
          "utility-cycle:same-node-operator".to_string()
        }
      } else {
        reason.split(' ').take(3).collect::<Vec<_>>().join("-")
      };
      fail!(
        format!("C12:accepted-inconsistent-rule:{class}"),
        "the document violates a listed condition ({reason}) but was accepted\n{yaml}"
      );
    }
    st.label("rejected_as_required");
    if st.wants_sample() {
      st.sample(json!({"violates": reason, "document": yaml, "verdict": "rejected"}));
    }
    return Ok(());
  }
  let configs: Vec<RuleConfig<SupportLang>> = match loaded {
    Ok(c) => c,
    Err(e) => {
      // only the direction "accepted => consistent" is claimed; a rejected consistent
      // document is recorded, not reported
      st.label("consistent_document_rejected(not claimed)");
      st.note(format!("consistent document rejected: {e:?}").chars().take(160).collect::<String>());
      return Ok(());
    }
  };
  let config = &configs[0];
  st.label("accepted_document");
  // ---- (b) every variable occurrence of the fix is replaced by its value
  let sg = parse(lang, &doc.source);
  let spec = &doc.spec;
  let Some(n_ts) = tsutil::preorder(sg.root().get_ts_node()).into_iter().find(|n| {
    n.start_byte() as usize == spec.node_start && n.end_byte() as usize == spec.node_end && n.kind() == spec.kind.as_str()
  }) else {
    fail!("bad-case", "origin node not found");
  };
  let line_start = doc.source[..spec.node_start].rfind('\n').map(|i| i + 1).unwrap_or(0);
  if spec.node_start - line_start > 400 {
    st.discard("match site beyond the indentation look-behind");
    return Ok(());
  }
  let Some(nm) = config.matcher.match_node(sg.inner.adopt(n_ts.clone())) else {
    st.label("origin_not_matched(C02's subject)");
    return Ok(());
  };
  if let Some(name) = &doc.rewriter_uses_transformed {
    // either the document is rejected (a rewriter cannot see that variable) or the variable is
    // expanded; accepted with an empty expansion is the violation
    st.label("rewriter_fix_uses_transformed_variable(accepted)");
    let env = nm.get_env();
    if let (Some(t), Some(rw)) = (env.get_transformed(name), env.get_transformed("RW")) {
      let (t, rw) = (String::from_utf8_lossy(t), String::from_utf8_lossy(rw));
      if !t.is_empty() && rw.contains("R[]") {
        fail!(
          "C12:fix-variable-not-replaced:transformed-variable-in-rewriter-fix",
          "the rewriter's fix uses ${name} (= {t:?} for this match) but the rewritten text is {rw:?}\n{yaml}"
        );
      }
    }
    return Ok(());
  }
  let fixer = match config.get_fixer() {
    Ok(Some(f)) => f,
    _ => fail!("C12:no-fixer", "accepted rule with fix has no fixer\n{yaml}"),
  };
  let edit = nm.make_edit(&config.matcher, &fixer);
  let got = String::from_utf8_lossy(&edit.inserted_text).into_owned();
  // reference environment
  let src = &doc.source;
  let mut binds: BTreeMap<String, Bound> = BTreeMap::new();
  for h in &spec.holes {
    binds.insert(h.name.clone(), Bound::Span(h.start, h.end));
  }
  let mut multi: BTreeMap<String, Bound> = BTreeMap::new();
  if let Some(r) = &spec.run {
    multi.insert(r.name.clone(), Bound::Span(r.start, r.end));
  }
  let value_of = |name: &str, binds: &BTreeMap<String, Bound>, multi: &BTreeMap<String, Bound>| -> Option<(String, Option<usize>)> {
    match binds.get(name).or_else(|| multi.get(name)) {
      Some(Bound::Span(s, e)) => Some((src[*s..*e].to_string(), Some(*s))),
      Some(Bound::Text(t)) => Some((t.clone(), None)),
      None => None,
    }
  };
  let mut uses_transformed = false;
  let mut rewrite_unknown = false;
  for (name, t) in &doc.transforms {
    let sname = t.source().trim_start_matches('$');
    let Some((input, origin)) = value_of(sname, &binds, &multi) else { continue };
    let out = match t {
      TK::Substring { start, end, .. } => py_slice(&input.chars().collect::<Vec<_>>(), *start, *end),
      TK::Replace { replace, by, .. } => regex::Regex::new(replace).unwrap().replace_all(&input, by.as_str()).into_owned(),
      TK::Convert { to_case, .. } => match to_case.as_str() {
        "lowerCase" => input.to_lowercase(),
        "upperCase" => input.to_uppercase(),
        _ => capitalize(&input),
      },
      TK::Rewrite { source, rewriters, join_by } => {
        // reference splice of C06 over the captured node, rewriters tried as stand-alone rules
        let rw = crate::c06::RewriteSpec {
          source: source.clone(),
          rewriters: doc
            .rewriters
            .iter()
            .filter(|(id, _, _)| rewriters.contains(id))
            .map(|(id, rule, fix)| crate::c06::Rewriter {
              id: id.clone(),
              rule: rule.clone(),
              fix: fix.clone(),
              outer: fix.split_once("[$").map(|(_, r)| (r.trim_end_matches(']').to_string(), String::new())),
              expand_start: None,
              expand_end: None,
            })
            .collect(),
          join_by: join_by.clone(),
        };
        match crate::c06::reference_rewrite(&doc.lang, src, &rw, &sg, nm.get_env()) {
          Some((out, fired)) => {
            if fired {
              st.label("rewriter_fired");
            }
            // already stored de-indented by the reference
            binds.insert(name.clone(), Bound::Text(out));
          }
          None => {
            st.label("rewrite_reference_unavailable");
            rewrite_unknown = true;
          }
        }
        continue;
      }
    };
    let out = match origin {
      Some(s) => deindent(src, s, &out),
      None => out,
    };
    binds.insert(name.clone(), Bound::Text(out));
  }
  for (tok, _) in crate::c07::scan_template(&doc.fix) {
    if let crate::c07::Tok::Single(n) = tok {
      if doc.transforms.iter().any(|(t, _)| *t == n) {
        uses_transformed = true;
      }
    }
  }
  if rewrite_unknown && doc.fix.contains("$RW") {
    st.discard("fix uses a rewrite result the reference cannot compute");
    return Ok(());
  }
  let exp = o_template(&doc.fix, &binds, &multi, src, spec.node_start);
  let strip = |s: &str| s.split('\n').map(|l| l.trim_start_matches(' ')).collect::<Vec<_>>().join("\n");
  let same = if exp.indentation_claimed { got == exp.exact } else { strip(&got) == strip(&exp.exact) };
  if !same {
    let form = if doc.object_form { "object" } else { "string" };
    fail!(
      format!("C12:fix-variable-not-replaced:{form}-form{}", if uses_transformed { ":transformed-variable" } else { "" }),
      "the fix of an accepted rule does not expand to the captured / transformed values\n expected {:?}\n got      {:?}\n code {:?}\n{yaml}",
      exp.exact,
      got,
      &src[spec.node_start..spec.node_end]
    );
  }
  // the edit itself must splice cleanly
  if o_splice(src, &[(edit.position, edit.deleted_length, edit.inserted_text.clone())]).is_err() {
    fail!("C12:edit-invalid", "edit of the accepted rule is not applicable\n{yaml}");
  }
  // ---- (c) the accepted rule matches only kinds of its declared kind set
  let Some(kinds) = config.matcher.potential_kinds() else {
    fail!("C12:accepted-without-kind-set", "accepted rule has no potential kinds\n{yaml}");
  };
  for n in tsutil::preorder(sg.root().get_ts_node()) {
    if config.matcher.match_node(sg.inner.adopt(n.clone())).is_some() && !kinds.contains(n.kind_id() as usize) {
      fail!("C12:match-outside-kind-set", "accepted rule matches a node of kind {} outside its kind set\n{yaml}", n.kind());
    }
  }
  if uses_transformed || doc.object_form {
    st.label("accepted_with_transformed_var_or_object_form");
    st.nontrivial(&("accepted", &yaml, &doc.source));
    if st.wants_sample() {
      st.sample(json!({"document": yaml, "code": &src[spec.node_start..spec.node_end], "replacement": got}));
    }
  }
  let _: Option<&StrDoc<SupportLang>> = None;
  Ok(())
}

// ---------------------------------------------------------------------------------------
// references: every `matches` resolves, wherever it is written: in the body of a global utility
// rule, in its local utils and constraints, in the rule that uses them, in `stopBy`,
// `nthChild.ofRule` and in the rules of a fix expansion

#[derive(Clone, Debug, Serialize, Deserialize)]
pub struct RefCase {
  /// global utility documents (YAML), in file order
  pub globals: Vec<String>,
  pub rule: String,
  /// where the first unresolved reference sits: "global" | "rule" | none
  pub unresolved_in_globals: Option<String>,
  pub unresolved_in_rule: Option<String>,
}

#[derive(Clone, Debug)]
pub struct RefChoice {
  globals: Vec<(u8, u8, Vec<(u8, u8)>, Option<u8>)>,
  rule: (u8, u8, Vec<(u8, u8)>, Option<u8>),
  expand: Option<(u8, u8)>,
}

pub fn ref_strategy() -> BoxedStrategy<RefChoice> {
  let doc = || (0u8..9, 0u8..12, prop::collection::vec((0u8..9, 0u8..12), 0..=2), prop::option::weighted(0.25, 0u8..12));
  (prop::collection::vec(doc(), 0..=3), doc(), prop::option::weighted(0.4, (0u8..3, 0u8..12)))
    .prop_map(|(globals, rule, expand)| RefChoice { globals, rule, expand })
    .boxed()
}

/// body shapes; `r` is the referenced name
fn ref_body(shape: u8, kind: &str, r: &str) -> String {
  match shape {
    0 => format!("{{kind: {kind}}}"),
    1 => format!("{{kind: {kind}, matches: {r}}}"),
    2 => format!("{{any: [{{kind: {kind}}}, {{matches: {r}}}]}}"),
    3 => format!("{{all: [{{kind: {kind}}}, {{not: {{matches: {r}}}}}]}}"),
    4 => format!("{{kind: {kind}, has: {{matches: {r}, stopBy: end}}}}"),
    5 => format!("{{kind: {kind}, nthChild: {{position: 1, ofRule: {{matches: {r}}}}}}}"),
    6 => format!("{{kind: {kind}, inside: {{kind: arguments, stopBy: {{matches: {r}}}}}}}"),
    7 => format!("{{kind: {kind}, follows: {{any: [{{matches: {r}}}, {{kind: number}}]}}}}"),
    _ => format!("{{pattern: $A, kind: {kind}}}"),
  }
}

pub fn interpret_refs(ch: &RefChoice, _st: &mut Stats) -> Option<RefCase> {
  let kinds = ["number", "identifier", "string", "call_expression"];
  let n = ch.globals.len();
  let mut unresolved_g = None;
  let mut unresolved_r = None;
  // names a reference may take: globals after `i` (acyclic by construction), locals after `a`,
  // and names that are defined nowhere
  let pick = |r: u8, i: usize, locals: usize, after_local: usize| -> (String, bool) {
    let mut pool: Vec<(String, bool)> = vec![];
    for j in i + 1..n {
      pool.push((format!("g{j}"), true));
    }
    for b in after_local..locals {
      pool.push((format!("loc{b}"), true));
    }
    pool.push(("nope".into(), false));
    pool.push((format!("g{}", n + 3), false));
    if pool.len() < 4 {
      // more defined-looking names than undefined ones when nothing is defined
      pool.push(("loc7".into(), false));
    }
    // defined names are preferred two to one
    let defined: Vec<&(String, bool)> = pool.iter().filter(|p| p.1).collect();
    if !defined.is_empty() && r % 3 != 0 {
      return defined[r as usize / 3 % defined.len()].clone();
    }
    pool[r as usize % pool.len()].clone()
  };
  let mut render = |idx: usize, id: &str, d: &(u8, u8, Vec<(u8, u8)>, Option<u8>), unresolved: &mut Option<String>| -> String {
    let (shape, r, locals, constraint) = d;
    let nl = locals.len();
    let (name, ok) = pick(*r, idx, nl, 0);
    let uses_ref = !matches!(shape, 0 | 8);
    if uses_ref && !ok && unresolved.is_none() {
      *unresolved = Some(format!("`matches: {name}` in the rule of {id}"));
    }
    let mut y = format!("id: {id}\nlanguage: JavaScript\nrule: {}\n", ref_body(*shape, kinds[idx % 4], &name));
    if nl > 0 {
      y.push_str("utils:\n");
      for (a, (ls, lr)) in locals.iter().enumerate() {
        let (lname, lok) = pick(*lr, idx, nl, a + 1);
        let shape = if *ls == 8 { 0 } else { *ls };
        if shape != 0 && !lok && unresolved.is_none() {
          *unresolved = Some(format!("`matches: {lname}` in the local util loc{a} of {id}"));
        }
        y.push_str(&format!("  loc{a}: {}\n", ref_body(shape, kinds[(idx + a + 1) % 4], &lname)));
      }
    }
    if let (Some(c), 8) = (constraint, shape) {
      let (cname, cok) = pick(*c, idx, nl, 0);
      if !cok && unresolved.is_none() {
        *unresolved = Some(format!("`matches: {cname}` in a constraint of {id}"));
      }
      y.push_str(&format!("constraints:\n  A: {{matches: {cname}}}\n"));
    }
    y
  };
  let globals: Vec<String> = ch.globals.iter().enumerate().map(|(i, d)| render(i, &format!("g{i}"), d, &mut unresolved_g)).collect();
  // the using rule may name every global: index "-1"
  let pick_rule = |r: u8, locals: usize, after_local: usize| -> (String, bool) {
    let mut pool: Vec<(String, bool)> = (0..n).map(|j| (format!("g{j}"), true)).collect();
    for b in after_local..locals {
      pool.push((format!("loc{b}"), true));
    }
    let defined = pool.len();
    pool.push(("nope".into(), false));
    pool.push((format!("g{}", n + 3), false));
    if defined > 0 && r % 3 != 0 {
      return pool[r as usize / 3 % defined].clone();
    }
    pool[r as usize % pool.len()].clone()
  };
  let (shape, r, locals, constraint) = &ch.rule;
  let nl = locals.len();
  let (name, ok) = pick_rule(*r, nl, 0);
  if !matches!(shape, 0 | 8) && !ok {
    unresolved_r = Some(format!("`matches: {name}` in the rule"));
  }
  let mut rule = format!("id: user\nlanguage: JavaScript\nrule: {}\n", ref_body(*shape, "number", &name));
  if nl > 0 {
    rule.push_str("utils:\n");
    for (a, (ls, lr)) in locals.iter().enumerate() {
      let (lname, lok) = pick_rule(*lr, nl, a + 1);
      let shape = if *ls == 8 { 0 } else { *ls };
      if shape != 0 && !lok && unresolved_r.is_none() {
        unresolved_r = Some(format!("`matches: {lname}` in the local util loc{a}"));
      }
      rule.push_str(&format!("  loc{a}: {}\n", ref_body(shape, kinds[(a + 1) % 4], &lname)));
    }
  }
  if let (Some(c), 8) = (constraint, shape) {
    let (cname, cok) = pick_rule(*c, nl, 0);
    if !cok && unresolved_r.is_none() {
      unresolved_r = Some(format!("`matches: {cname}` in a constraint"));
    }
    rule.push_str(&format!("constraints:\n  A: {{matches: {cname}}}\n"));
  }
  if let Some((form, r)) = ch.expand {
    let (ename, eok) = pick_rule(r, nl, 0);
    if !eok && unresolved_r.is_none() {
      unresolved_r = Some(format!("`matches: {ename}` in a fix expansion"));
    }
    match form {
      0 => rule.push_str(&format!("fix:\n  template: x\n  expandEnd: {{matches: {ename}}}\n")),
      1 => rule.push_str(&format!("fix:\n  template: x\n  expandStart: {{regex: ',', stopBy: {{matches: {ename}}}}}\n")),
      _ => rule.push_str(&format!("fix:\n  template: x\n  expandEnd: {{any: [{{regex: ','}}, {{not: {{matches: {ename}}}}}]}}\n")),
    }
  }
  Some(RefCase {
    globals,
    rule,
    unresolved_in_globals: unresolved_g,
    unresolved_in_rule: unresolved_r,
  })
}

pub fn check_refs(case: &RefCase, st: &mut Stats) -> CheckResult {
  use ast_grep_config::DeserializeEnv;
  st.eval();
  let all = case.globals.join("---\n");
  let show = || format!("--- global utility rules\n{all}--- rule\n{}", case.rule);
  let parsed: Result<Vec<_>, _> = case
    .globals
    .iter()
    .map(|g| ast_grep_config::from_str(g))
    .collect();
  let Ok(utils) = parsed else {
    fail!("bad-case", "generated global utility does not deserialize\n{}", show());
  };
  let globals = match catch(|| DeserializeEnv::<SupportLang>::parse_global_utils(utils)) {
    Ok(Ok(g)) => g,
    Ok(Err(_)) => {
      if case.unresolved_in_globals.is_some() {
        st.label("perturbed_violating_document");
        st.label("rejected_as_required");
        st.nontrivial(&("refs", &all, &case.rule));
      } else {
        st.label("consistent_document_rejected(not claimed)");
      }
      return Ok(());
    }
    Err(p) => fail!(panic_signature(&p), "panic while loading global utility rules\n{}\n{p}", show()),
  };
  if let Some(what) = &case.unresolved_in_globals {
    st.label("perturbed_violating_document");
    st.nontrivial(&("refs", &all, &case.rule));
    fail!("C12:accepted-inconsistent-rule:unresolved-matches-in-global-utility", "{what} does not resolve but the global utility rules were accepted\n{}", show());
  }
  match catch(|| from_yaml_string::<SupportLang>(&case.rule, &globals)) {
    Ok(Ok(_)) => {
      if let Some(what) = &case.unresolved_in_rule {
        st.label("perturbed_violating_document");
        st.nontrivial(&("refs", &all, &case.rule));
        let class = if what.contains("fix expansion") { "unresolved-matches-in-fix-expansion" } else { "unresolved-matches" };
        fail!(format!("C12:accepted-inconsistent-rule:{class}"), "{what} does not resolve but the rule was accepted\n{}", show());
      }
      st.label("accepted_document");
      if st.wants_sample() {
        st.sample(json!({"globals": case.globals, "rule": case.rule, "verdict": "accepted"}));
      }
    }
    Ok(Err(_)) => {
      if case.unresolved_in_rule.is_some() {
        st.label("perturbed_violating_document");
        st.label("rejected_as_required");
        st.nontrivial(&("refs", &all, &case.rule));
      } else {
        st.label("consistent_document_rejected(not claimed)");
      }
    }
    Err(p) => fail!(panic_signature(&p), "panic while loading the rule\n{}\n{p}", show()),
  }
  Ok(())
}

pub fn child(path: &std::path::Path) -> i32 {
  std::env::set_var("VPROP_CHILD", "1");
  child_case::<Doc>(path, check_inner)
}

/// the same stage, driven by bytes (coverage-guided tier). Inside the fuzz target the documents
/// that need a child process (cyclic utilities: the listed finding) are skipped.
pub fn erased(in_target: bool) -> crate::fuzz::Erased {
  let corpus: &'static Corpus = Box::leak(Box::new(Corpus::load()));
  let opts: &'static SrcOpts = Box::leak(Box::new(stage_opts()));
  crate::fuzz::Erased::generic(
    "C12",
    "docs",
    move || strategy(opts),
    move |c, st| interpret(corpus, opts, c, st),
    move |d: &Doc, st: &mut Stats| {
      if in_target && d.isolate {
        st.label("skipped_in_fuzz_target(needs a child process)");
        return Ok(());
      }
      check(d, st)
    },
  )
}

fn stage_opts() -> SrcOpts {
  let mut opts = SrcOpts::all_langs();
  opts.allow_crlf = false;
  opts.max_bytes = 1500;
  opts.synth_weight = 4;
  opts
}

pub fn run(cfg: &RunCfg) -> i32 {
  let mut report = Report::new(
    cfg,
    "case = rule document assembled from valid parts (pattern cut from a source with holes/run, optional utility, constraint, 1-3 transformations incl. a dependent chain and a rewrite with rewriter, fix in string or object form using captured and transformed variables) with at most one perturbation: variable renamed in fix / transform source / constraints key, unresolved `matches` or rewriter reference, self- or mutually dependent transformations, a utility requiring itself on the same node through matches/all/any/not/second utility/nthChild.ofRule/inside+has/precedes+follows/has+inside (loaded in a child process), or no kind-determining key. Stage references: 0-3 global utility rules (body, local utils, constraints) and a rule that uses them, with a fix expansion in 40% of the cases; every `matches` (also under stopBy, nthChild.ofRule, not/any/all and in expandStart/expandEnd) names a defined global or local utility or, one time in three, a name defined nowhere; a set with an unresolved reference must be rejected when it is loaded. An independent analysis of the document model decides whether a listed condition is violated: violating documents must be rejected; accepted documents must expand every fix variable to the reference value (O-template + reference transforms) and match only kinds of their kind set. Non-trivial = distinct perturbed-violating documents plus accepted documents whose fix uses a transformed variable or the object form.",
  );
  report.assume("only the direction accepted => consistent is claimed; rejected consistent documents are counted");
  report.assume("convert is limited to lowerCase/upperCase/capitalize here; case-splitting conversions are enumerated in C20");
  let known = Known::load(&cfg.prop);
  if let Some(path) = &cfg.replay {
    if read_replay(path).stage == "references" {
      return crate::replay_main::<RefCase>(cfg, path, check_refs);
    }
    return crate::replay_main::<Doc>(cfg, path, check);
  }
  let corpus = Corpus::load();
  crate::replay_known_staged::<Doc>(&mut report, &known, "references", false, check);
  crate::replay_known_staged::<RefCase>(&mut report, &known, "references", true, check_refs);
  let opts = stage_opts();
  let total = cfg.budget(12_000, 300_000);
  let o = drive(cfg, "docs", total, &known, || strategy(&opts), |c, st| interpret(&corpus, &opts, c, st), check);
  report.absorb("docs", o);
  let total = cfg.budget(6_000, 100_000);
  let o = drive(cfg, "references", total, &known, ref_strategy, interpret_refs, check_refs);
  report.absorb("references", o);
  report.floor("perturbed_violating_document", 0.3, "evaluations");
  crate::fuzz::stage(cfg, &mut report, &known, 20000);
  report.finish()
}
