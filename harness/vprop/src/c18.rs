//! C18 — `--update-all` writes exactly the announced edits and nothing else.
use crate::cli::{self, TempDir};
use crate::engine::*;
use crate::fail;
use proptest::prelude::*;
use serde::{Deserialize, Serialize};
use serde_json::{json, Value};
use std::collections::BTreeMap;

#[derive(Clone, Debug, Serialize, Deserialize)]
pub struct Case {
  pub files: Vec<(String, String)>,
  /// `run -p PATTERN -r REWRITE -l js` when Some, else `scan` with the rule files
  pub run: Option<(String, String)>,
  /// (file name, yaml) rule documents for scan (may contain several documents)
  pub rules: Vec<(String, String)>,
  pub repeat: u8,
}

#[derive(Clone, Debug)]
pub struct Choice {
  files: Vec<(Vec<(u8, u8, u8)>, u8)>,
  run_mode: Option<u8>,
  rules: Vec<(u8, u8)>,
  repeat: u8,
}

pub fn strategy() -> BoxedStrategy<Choice> {
  let stmt = (0u8..16, 0u8..8, 0u8..8);
  let file = (prop::collection::vec(stmt, 0..8), 0u8..8);
  (
    prop::collection::vec(file, 1..12),
    prop::option::weighted(0.35, 0u8..5),
    prop::collection::vec((0u8..10, 0u8..26), 1..=5),
    1u8..=3,
  )
    .prop_map(|(files, run_mode, rules, repeat)| Choice {
      files,
      run_mode,
      rules,
      repeat,
    })
    .boxed()
}

const ATOMS: &[&str] = &["1", "a", "\"é\"", "b", "22", "foo(3)", "bar(a)", "foo(foo(4))"];

fn js_stmt(k: u8, a: u8, b: u8) -> String {
  let x = ATOMS[a as usize % ATOMS.len()];
  let y = ATOMS[b as usize % ATOMS.len()];
  match k {
    0 | 1 => format!("foo({x});"),
    2 => format!("foo({x}, {y});"),
    3 => format!("bar(foo({x}), {y});"),
    4 => format!("let v = [{x}, {y}, {x}];"),
    5 => format!("// foo({x}) in a comment é"),
    6 => format!("if ({x}) {{\n  foo({y});\n}}"),
    7 => "".to_string(),
    8 => format!("baz({y});"),
    9 => format!("foo(\n  {x},\n  {y}\n);"),
    // suppression comments: used ones and unused ones (a project scan proposes to delete those)
    10 => "// ast-grep-ignore".to_string(),
    11 => "// ast-grep-ignore: zz-none".to_string(),
    12 => format!("foo({x}); // ast-grep-ignore"),
    // fixes whose ranges touch: `a,` `a,` (expandEnd swallows the comma, no blank in between) and
    // two statements on one line that are both deleted
    13 => "bar(a,a,b);".to_string(),
    14 => format!("baz({x});baz({y});"),
    _ => "foo(a,a,a);bar(a,a);".to_string(),
  }
}

/// rule templates; `id` letters are generated so that the id order varies
fn rule_doc(kind: u8, id: &str) -> String {
  match kind {
    0 => format!("id: {id}\nlanguage: JavaScript\nrule:\n  pattern: foo($A)\nfix: bar($A)\n"),
    1 => format!("id: {id}\nlanguage: JavaScript\nrule:\n  kind: number\nfix: '0'\n"),
    2 => format!("id: {id}\nlanguage: JavaScript\nrule:\n  pattern: foo($$$ARGS)\nfix: qux($$$ARGS)\n"),
    3 => format!("id: {id}\nlanguage: JavaScript\nrule:\n  kind: identifier\n  regex: ^a$\n  inside: {{kind: arguments}}\nfix:\n  template: ''\n  expandEnd: {{regex: '^,$'}}\n"),
    4 => format!("id: {id}\nlanguage: JavaScript\nrule:\n  kind: expression_statement\n  has: {{pattern: 'baz($$$)'}}\nfix: ''\n"),
    5 => format!("id: {id}\nlanguage: Html\nrule:\n  kind: attribute_value\nfix: changed\n"),
    6 => format!("id: {id}\nlanguage: Css\nrule:\n  kind: plain_value\nfix: blue\n"),
    // a host rule that replaces a whole <script>, and a rule on the root of the embedded document,
    // which spans every <script> of the file
    8 => format!("id: {id}\nlanguage: Html\nrule:\n  kind: script_element\n  regex: '1'\nfix: <b/>\n"),
    9 => format!("id: {id}\nlanguage: JavaScript\nrule:\n  kind: program\nfix: P\n"),
    _ => format!("id: {id}\nlanguage: JavaScript\nseverity: error\nmessage: no fix here\nrule:\n  pattern: bar($$$)\n"),
  }
}

pub fn interpret(ch: &Choice, _st: &mut Stats) -> Option<Case> {
  let mut files = vec![];
  for (i, (stmts, kind)) in ch.files.iter().enumerate() {
    let body: String = stmts.iter().map(|(k, a, b)| js_stmt(*k, *a, *b)).collect::<Vec<_>>().join("\n");
    let dir = ["", "src/", "src/sub/"][i % 3];
    match kind {
      0 => {
        // an HTML host with a script (and an attribute for the host-language rule)
        let html = format!("<div class=\"box\" id=x>\n<style>\n.a {{ color: red; margin: auto }}\n</style>\n<p title=\"t\">text</p>\n<script>\n{body}\n</script>\n<p class=\"c\">more</p>\n<script>foo(2); qux(0)</script>\n</div>\n");
        files.push((format!("{dir}page{i}.html"), html));
      }
      1 => files.push((format!("{dir}notes{i}.txt"), format!("foo(1); // not a source file\n{body}\n"))),
      2 => files.push((format!("{dir}f{i}.js"), body)), // no trailing newline
      // a byte order mark in front of the text (with and without a comment before the code)
      4 => files.push((format!("{dir}f{i}.js"), format!("\u{feff}{body}\n"))),
      5 if i % 2 == 1 => files.push((format!("{dir}f{i}.js"), format!("\u{feff}// é\n{body}"))),
      _ => files.push((format!("{dir}f{i}.js"), format!("{body}\n"))),
    }
  }
  let run = ch.run_mode.map(|m| match m {
    0 => ("foo($A)".to_string(), "bar($A)".to_string()),
    1 => ("foo($$$A)".to_string(), "foo($$$A, 0)".to_string()),
    2 => ("$F($$$)".to_string(), "g()".to_string()),
    3 => ("foo($A)".to_string(), "$A".to_string()),
    _ => ("[$$$A]".to_string(), "[]".to_string()),
  });
  let mut rules = vec![];
  if run.is_none() {
    let mut seen = std::collections::BTreeSet::new();
    let mut docs_a = vec![];
    let mut docs_b = vec![];
    for (i, (kind, letter)) in ch.rules.iter().enumerate() {
      let id = format!("{}-rule{}", (b'a' + letter % 26) as char, kind);
      if !seen.insert(id.clone()) {
        continue;
      }
      if i % 2 == 0 {
        docs_a.push(rule_doc(*kind, &id));
      } else {
        docs_b.push(rule_doc(*kind, &id));
      }
    }
    if !docs_a.is_empty() {
      rules.push(("rules/a.yml".to_string(), docs_a.join("---\n")));
    }
    if !docs_b.is_empty() {
      rules.push(("rules/b.yml".to_string(), docs_b.join("---\n")));
    }
  }
  Some(Case {
    files,
    run,
    rules,
    repeat: ch.repeat,
  })
}

#[derive(Debug, Clone)]
struct Ann {
  node: (usize, usize),
  rep: (usize, usize),
  text: String,
  rule: String,
  lang: String,
}

/// O-update: order the announced edits as the tool visits them and drop overlapping ones
fn model(old: &str, mut anns: Vec<Ann>, host_lang: &str) -> Result<(String, usize, usize), String> {
  // one chain per document (language), as the tool scans each document on its own
  let mut by_doc: BTreeMap<String, Vec<Ann>> = BTreeMap::new();
  for a in anns.drain(..) {
    by_doc.entry(a.lang.clone()).or_default().push(a);
  }
  let mut accepted: Vec<Ann> = vec![];
  let mut dropped = 0;
  // the host document is rewritten first, the embedded documents after it: an edit that overlaps
  // what an earlier document has rewritten is dropped like one that overlaps an earlier edit of
  // its own document
  let mut docs: Vec<(String, Vec<Ann>)> = by_doc.into_iter().collect();
  docs.sort_by_key(|(lang, _)| (lang != host_lang, lang.clone()));
  for (_, mut v) in docs {
    v.sort_by(|x, y| (x.node.0, std::cmp::Reverse(x.node.1), &x.rule).cmp(&(y.node.0, std::cmp::Reverse(y.node.1), &y.rule)));
    // the root of a document and its only statement have the same range: which of the two nodes
    // comes first cannot be told from the announced ranges
    if v.windows(2).any(|w| w[0].node == w[1].node && (w[0].rule.ends_with("rule9") != w[1].rule.ends_with("rule9"))) {
      return Err("a root node and another node with the same range are both rewritten".into());
    }
    let earlier: Vec<(usize, usize)> = accepted.iter().map(|t| t.rep).collect();
    let mut end = 0;
    for a in v {
      if a.rep.0 < end || earlier.iter().any(|t| a.rep.0 < t.1 && t.0 < a.rep.1) {
        dropped += 1;
        continue;
      }
      end = a.rep.1;
      accepted.push(a);
    }
  }
  accepted.sort_by_key(|a| a.rep.0);
  let edits: Vec<(usize, usize, Vec<u8>)> = accepted.iter().map(|a| (a.rep.0, a.rep.1 - a.rep.0, a.text.clone().into_bytes())).collect();
  let new = crate::c06::o_splice(old, &edits).map_err(|e| format!("accepted edits of different documents conflict: {e}"))?;
  Ok((new, accepted.len(), dropped))
}

fn command(case: &Case, extra: &[&str]) -> Vec<String> {
  let mut v: Vec<String> = vec![];
  match &case.run {
    Some((p, r)) => {
      v.extend(["run".to_string(), format!("--pattern={p}"), format!("--rewrite={r}"), "-l".into(), "js".into()]);
    }
    None => v.push("scan".into()),
  }
  v.extend(extra.iter().map(|s| s.to_string()));
  v
}

pub fn check(case: &Case, st: &mut Stats) -> CheckResult {
  let dir = TempDir::new("c18");
  for (p, t) in &case.files {
    dir.write(p, t.as_bytes());
  }
  if case.run.is_none() {
    dir.write("sgconfig.yml", b"ruleDirs:\n- rules\n");
    for (p, t) in &case.rules {
      dir.write(p, t.as_bytes());
    }
  }
  let mut current: BTreeMap<String, String> = case.files.iter().cloned().collect();
  let mut nontrivial_multi = false;
  let mut nontrivial_drop = false;
  let mut nontrivial_docs = false;
  for round in 0..case.repeat {
    // ---- what the command announces on the current files
    let args = command(case, &["--json=stream"]);
    let argv: Vec<&str> = args.iter().map(|s| s.as_str()).collect();
    let out = cli::sgv(&argv, &dir.path, None);
    if out.timed_out {
      return Err(Fail::new("inconclusive:watchdog", "sgv --json did not finish"));
    }
    if out.panicked() {
      fail!("C18:cli-panic", "sgv --json panicked: {}", out.stderr_str().chars().take(300).collect::<String>());
    }
    let recs = match out.json_lines() {
      Ok(r) => r,
      Err(e) => fail!("C18:json", "{e}; stderr {}", out.stderr_str().chars().take(200).collect::<String>()),
    };
    let mut per_file: BTreeMap<String, Vec<Ann>> = BTreeMap::new();
    for r in &recs {
      let Some(ro) = r.get("replacementOffsets") else { continue };
      let f = cli::norm_path(r["file"].as_str().unwrap_or(""));
      let Some(node) = cli::rec_range(r) else { continue };
      per_file.entry(f).or_default().push(Ann {
        node,
        rep: (ro["start"].as_u64().unwrap_or(0) as usize, ro["end"].as_u64().unwrap_or(0) as usize),
        text: r["replacement"].as_str().unwrap_or("").to_string(),
        rule: r.get("ruleId").and_then(|x| x.as_str()).unwrap_or("").to_string(),
        lang: r["language"].as_str().unwrap_or("").to_string(),
      });
    }
    let mut expected: BTreeMap<String, String> = current.clone();
    let mut total = 0usize;
    for (f, anns) in per_file {
      let Some(old) = current.get(&f) else {
        fail!("C18:unknown-file", "edit announced for unknown file {f}");
      };
      let docs: std::collections::BTreeSet<&String> = anns.iter().map(|a| &a.lang).collect();
      if docs.len() >= 2 {
        nontrivial_docs = true;
      }
      let host_lang = if f.ends_with(".html") { "Html" } else { "JavaScript" };
      match model(old, anns, host_lang) {
        Ok((new, n, dropped)) => {
          if n >= 2 {
            nontrivial_multi = true;
          }
          if dropped >= 1 {
            nontrivial_drop = true;
          }
          total += n;
          expected.insert(f, new);
        }
        Err(e) => {
          st.discard("order of the announced edits not observable (root and another node with one range) or conflicting");
          st.note(e);
          return Ok(());
        }
      }
    }
    // ---- the update itself
    let args = command(case, &["-U"]);
    let argv: Vec<&str> = args.iter().map(|s| s.as_str()).collect();
    let out = cli::sgv(&argv, &dir.path, None);
    if out.timed_out {
      return Err(Fail::new("inconclusive:watchdog", "sgv -U did not finish"));
    }
    if out.panicked() {
      fail!("C18:cli-panic", "sgv -U panicked: {}", out.stderr_str().chars().take(300).collect::<String>());
    }
    st.eval();
    // every file: bytes equal the model; untouched files byte-identical
    for (f, want) in &expected {
      let got = dir.read(f).unwrap_or_default();
      if got != want.as_bytes() {
        let before = current.get(f).cloned().unwrap_or_default();
        let touched = &before != want;
        let multi_doc = f.ends_with(".html");
        let sig = if !touched {
          "C18:untouched-file-modified"
        } else if multi_doc {
          "C18:file-differs-from-announced-edits:multi-document-file"
        } else {
          "C18:file-differs-from-announced-edits"
        };
        fail!(
          sig,
          "round {round}: after `{}` file {f} is\n{:?}\nbut the announced edits applied to the previous content give\n{:?}\nprevious content\n{:?}",
          command(case, &["-U"]).join(" "),
          String::from_utf8_lossy(&got).chars().take(400).collect::<String>(),
          want.chars().take(400).collect::<String>(),
          before.chars().take(400).collect::<String>()
        );
      }
    }
    // the reported count
    let stdout = out.stdout_str();
    // the line may be preceded by terminal escape sequences of the highlight view
    let applied: Option<usize> = regex::Regex::new(r"Applied (\d+) changes")
      .unwrap()
      .captures(&stdout)
      .and_then(|c| c[1].parse().ok());
    let want_count = if total == 0 { None } else { Some(total) };
    if applied != want_count {
      let any_html = expected.keys().any(|f| f.ends_with(".html"));
      fail!(
        if any_html { "C18:applied-count:multi-document-file" } else { "C18:applied-count" },
        "round {round}: the tool reports {:?} applied changes, {} edits are present in the files (stdout {:?})",
        applied,
        total,
        stdout.chars().take(200).collect::<String>()
      );
    }
    current = expected;
    st.label(if case.run.is_some() { "run_update" } else { "scan_update" });
    if round > 0 {
      st.label("repeated_invocation");
    }
  }
  if nontrivial_multi {
    st.label("file_with_two_or_more_accepted_edits");
  }
  if nontrivial_drop {
    st.label("dropped_overlapping_edit");
  }
  if nontrivial_docs {
    st.label("multi_document_file_edited");
  }
  if nontrivial_multi || nontrivial_drop || nontrivial_docs {
    st.label("nontrivial");
    st.nontrivial(&(&case.files, &case.run, &case.rules, case.repeat));
    if st.wants_sample() {
      st.sample(json!({"files": case.files.iter().map(|(p, t)| (p.clone(), t.chars().take(60).collect::<String>())).collect::<Vec<_>>(), "run": case.run, "rules": case.rules, "repeat": case.repeat}));
    }
  }
  let _: Option<Value> = None;
  Ok(())
}

pub fn run(cfg: &RunCfg) -> i32 {
  let mut report = Report::new(
    cfg,
    "case = project of 1-11 files (JavaScript with nested / multi-line calls and multi-byte text, some led by a byte order mark, HTML hosts with a <script>, non-source files) and either `run -p -r -l js -U` (5 pattern/rewrite pairs incl. nested and widening ones) or `scan -U` with 1-4 rules from 9 templates (a host rule replacing a whole <script>, a rule on the root of the embedded document, nested matches, two rules on one node, expandEnd reaching the next separator, statement deletion, a host-language HTML rule, a rule without fix) in 1-2 multi-document rule files with generated ids; the command is repeated 1-3 times. Oracle O-update: the same command with --json=stream on the files as they are; edits ordered as the tool visits them (node start asc, outer first, rule id), overlapping ones dropped, spliced per file; compared byte for byte with the files after -U, plus the `Applied N changes` count. evaluations = -U invocations. Non-trivial = distinct case with a file with >= 2 accepted edits, a dropped overlapping edit, or a multi-document file.",
  );
  report.assume("ties between different nodes with identical ranges are not generated by the rule templates");
  let known = Known::load(&cfg.prop);
  if let Some(path) = &cfg.replay {
    return crate::replay_main::<Case>(cfg, path, check);
  }
  crate::replay_known::<Case>(&mut report, &known, check);
  let total = cfg.budget(1_000, 60_000);
  let o = drive(cfg, "update-all", total, &known, strategy, interpret, check);
  report.absorb("update-all", o);
  cli::cleanup_work_root();
  report.floor("file_with_two_or_more_accepted_edits", 0.3, "evaluations");
  report.floor("dropped_overlapping_edit", 0.15, "evaluations");
  report.finish()
}
