//! C15 — a rule runs on a file exactly when language, globs and severity say so.
use crate::cli::{self, TempDir};
use crate::engine::*;
use crate::fail;
use proptest::prelude::*;
use serde::{Deserialize, Serialize};
use serde_json::json;
use std::collections::{BTreeMap, BTreeSet};

#[derive(Clone, Debug, Serialize, Deserialize)]
pub struct RuleSpec {
  pub id: String,
  pub lang: String,
  pub severity: Option<String>,
  pub files: Option<Vec<String>>,
  pub ignores: Option<Vec<String>>,
}

#[derive(Clone, Debug, Serialize, Deserialize)]
pub struct Case {
  pub files: Vec<String>,
  pub rules: Vec<RuleSpec>,
  /// language -> globs
  pub language_globs: Vec<(String, Vec<String>)>,
  /// (severity flag, ids) ; empty ids = bare flag
  pub overrides: Vec<(String, Vec<String>)>,
  pub filter: Option<String>,
  /// all rules in one file given with `scan -r` instead of the project's rule directory
  #[serde(default)]
  pub rule_file: bool,
}

const LANGS15: &[(&str, &str, &str)] = &[
  // (yaml language, extension, trigger source)
  ("JavaScript", "js", "foo(1)\n"),
  ("TypeScript", "ts", "foo(1)\n"),
  ("Python", "py", "foo(1)\n"),
  ("Rust", "rs", "fn main() { foo(1); }\n"),
  ("Go", "go", "package main\n\nfunc main() {\n\tfoo(1)\n}\n"),
  // a host document with two embedded documents (css, js): the finding is in the host document,
  // the embedded ones hold nothing the JavaScript rules match
  ("Html", "html", "<p title=\"foo\">x</p>\n<style>\n.a { color: red }\n</style>\n<script>\nbar(2)\n</script>\n"),
];

fn rule_body(lang: &str) -> &'static str {
  if lang == "Html" {
    "rule:\n  kind: attribute_value\n"
  } else {
    "rule:\n  pattern: foo($A)\n"
  }
}

const DIRS: &[&str] = &["", "src/", "src/deep/", "lib/", "lib/v2/", "test/", "app/[id]/", "app/i/"];
const NAMES: &[&str] = &["a", "b", "index", "main", "util"];
/// foreign extensions mapped by languageGlobs, and unmapped ones
const FOREIGN: &[&str] = &["vue", "jsy", "pyx", "txt", "md"];

const GLOBS: &[&str] = &[
  "**/*.js", "**/*.ts", "**/*.py", "**/*.rs", "**/*.go", "**/*.html", "src/**", "lib/**", "test/**", "src/**/*.js", "lib/**/*.py", "src/deep/**", "src/a.js", "lib/b.ts", "**/index.*", "**/main.*",
  "*.{js,ts}", "**/*.{py,rs}", "src/[ab]*", "**/[!a]*.go", "src/*.js", "*.py", "lib/*", "**/util.?s", "**/v2/**", "src/deep/a.js", "*/a.*",
  // escaped metacharacters (a directory named `[id]`) next to the unescaped class
  "app/\\[id\\]/**", "**/\\[id\\]/*.js", "app/[id]/**", "app/\\[*", "app/**/\\?.js", "**/a\\.*",
  // a leading `./` means nothing
  "./src/**", "./src/*.js", "./lib/b.ts", "./**/*.py",
];

#[derive(Clone, Debug)]
pub struct Choice {
  files: Vec<(u8, u8, u8)>,
  rules: Vec<(u8, u8, Option<Vec<u8>>, Option<Vec<u8>>)>,
  lang_globs: Vec<(u8, u8)>,
  bare: Option<u8>,
  per_id: Vec<(u8, u8)>,
  filter: Option<u8>,
}

pub fn strategy() -> BoxedStrategy<Choice> {
  let globs = || prop::collection::vec(0u8..GLOBS.len() as u8, 1..=2);
  (
    prop::collection::vec((0u8..8, 0u8..5, 0u8..11), 3..16),
    prop::collection::vec((0u8..6, 0u8..7, prop::option::weighted(0.5, globs()), prop::option::weighted(0.35, globs())), 1..7),
    prop::collection::vec((0u8..5, 0u8..8), 0..=2),
    prop::option::weighted(0.3, 0u8..5),
    prop::collection::vec((0u8..5, 0u8..7), 0..=2),
    prop::option::weighted(0.25, 0u8..4),
  )
    .prop_map(|(files, rules, lang_globs, bare, per_id, filter)| Choice {
      files,
      rules,
      lang_globs,
      bare,
      per_id,
      filter,
    })
    .boxed()
}

const SEVS: &[&str] = &["error", "warning", "info", "hint", "off"];

pub fn interpret(ch: &Choice, _st: &mut Stats) -> Option<Case> {
  let mut files = BTreeSet::new();
  for (d, n, e) in &ch.files {
    let ext = if (*e as usize) < LANGS15.len() { LANGS15[*e as usize].1 } else { FOREIGN[*e as usize % FOREIGN.len()] };
    files.insert(format!("{}{}.{}", DIRS[*d as usize % DIRS.len()], NAMES[*n as usize % NAMES.len()], ext));
  }
  let mut rules = vec![];
  for (i, (l, s, f, ig)) in ch.rules.iter().enumerate() {
    let sev = match s {
      0..=4 => Some(SEVS[*s as usize].to_string()),
      _ => None,
    };
    let pick = |v: &Vec<u8>| v.iter().map(|g| GLOBS[*g as usize % GLOBS.len()].to_string()).collect::<Vec<_>>();
    rules.push(RuleSpec {
      id: format!("{}-r{}", ["alpha", "beta", "gamma", "delta"][i % 4], i),
      lang: LANGS15[*l as usize % LANGS15.len()].0.to_string(),
      severity: sev,
      files: f.as_ref().map(pick),
      ignores: ig.as_ref().map(pick),
    });
  }
  // languageGlobs: each foreign extension goes to at most one language
  let mut language_globs: BTreeMap<String, Vec<String>> = BTreeMap::new();
  let mut used = BTreeSet::new();
  for (l, e) in &ch.lang_globs {
    // a foreign extension, or the native extension of another built-in language (languageGlobs
    // takes precedence over the built-in extension table)
    let ext = if (*e as usize) < 3 { FOREIGN[*e as usize] } else { LANGS15[(*e as usize - 3) % 5].1 };
    if LANGS15[*l as usize % LANGS15.len()].1 == ext {
      continue;
    }
    if used.insert(ext) {
      language_globs.entry(LANGS15[*l as usize % LANGS15.len()].0.to_string()).or_default().push(format!("*.{ext}"));
    }
  }
  let mut overrides: Vec<(String, Vec<String>)> = vec![];
  if let Some(b) = ch.bare {
    overrides.push((SEVS[b as usize % 5].to_string(), vec![]));
  }
  let mut taken = BTreeSet::new();
  for (s, r) in &ch.per_id {
    let id = rules[*r as usize % rules.len()].id.clone();
    let sev = SEVS[*s as usize % 5].to_string();
    if !taken.insert(id.clone()) {
      continue;
    }
    // one flag per severity: merge ids
    if let Some(e) = overrides.iter_mut().find(|(x, ids)| *x == sev && !ids.is_empty()) {
      e.1.push(id);
    } else if !overrides.iter().any(|(x, ids)| *x == sev && ids.is_empty()) {
      overrides.push((sev, vec![id]));
    }
  }
  let filter = ch.filter.map(|f| ["alpha", "^beta", "r[0-2]$", "a-r"][f as usize % 4].to_string());
  Some(Case {
    files: files.into_iter().collect(),
    rules,
    language_globs: language_globs.into_iter().collect(),
    overrides,
    rule_file: filter.is_none() && ch.files.len() % 3 == 0,
    filter,
  })
}

/// O-glob: globset's documented syntax translated to an anchored regex (`*` and `?` cross `/`,
/// `**/` prefix, `/**` suffix, `/**/` infix, `{a,b}`, `[..]`, `[!..]`).
pub fn glob_to_regex(glob: &str) -> regex::Regex {
  let mut re = String::from("^");
  let b: Vec<char> = glob.strip_prefix("./").unwrap_or(glob).chars().collect();
  let mut i = 0;
  while i < b.len() {
    let rest: String = b[i..].iter().collect();
    if i == 0 && rest.starts_with("**/") {
      re.push_str("(?:.*/)?");
      i += 3;
    } else if rest == "/**" {
      re.push_str("/.*");
      i += 3;
    } else if rest.starts_with("/**/") {
      re.push_str("/(?:.*/)?");
      i += 4;
    } else if rest == "**" && i == 0 {
      re.push_str(".*");
      i += 2;
    } else {
      match b[i] {
        // a backslash makes the next character literal
        '\\' if i + 1 < b.len() => {
          re.push_str(&regex::escape(&b[i + 1].to_string()));
          i += 1;
        }
        '*' => re.push_str(".*"),
        '?' => re.push('.'),
        '{' => re.push_str("(?:"),
        '}' => re.push(')'),
        ',' if re.matches("(?:").count() > re.matches(')').count() => re.push('|'),
        '[' => {
          re.push('[');
          if b.get(i + 1) == Some(&'!') {
            re.push('^');
            i += 1;
          }
        }
        ']' => re.push(']'),
        c => re.push_str(&regex::escape(&c.to_string())),
      }
      i += 1;
    }
  }
  re.push('$');
  regex::Regex::new(&re).expect("glob regex")
}

fn file_language(case: &Case, path: &str) -> Option<String> {
  let name = path.rsplit('/').next().unwrap_or(path);
  let ext = name.rsplit('.').next().unwrap_or("");
  for (lang, globs) in &case.language_globs {
    for g in globs {
      if let Some(e) = g.strip_prefix("*.") {
        if e == ext {
          return Some(lang.clone());
        }
      }
    }
  }
  LANGS15.iter().find(|(_, e, _)| *e == ext).map(|(l, _, _)| l.to_string())
}

fn effective_severity(case: &Case, r: &RuleSpec) -> String {
  let yaml = r.severity.clone().unwrap_or_else(|| "hint".to_string());
  let mut sev = yaml;
  if let Some((s, _)) = case.overrides.iter().find(|(_, ids)| ids.is_empty()) {
    sev = s.clone();
  }
  if let Some((s, _)) = case.overrides.iter().find(|(_, ids)| ids.contains(&r.id)) {
    sev = s.clone();
  }
  sev
}

fn source_for(case: &Case, path: &str) -> Option<&'static str> {
  let lang = file_language(case, path)?;
  LANGS15.iter().find(|(l, _, _)| *l == lang).map(|(_, _, s)| *s)
}

pub fn check(case: &Case, st: &mut Stats) -> CheckResult {
  let dir = TempDir::new("c15");
  // ---- materialise
  let mut cfg = String::from("ruleDirs:\n- rules\n");
  if !case.language_globs.is_empty() {
    cfg.push_str("languageGlobs:\n");
    for (l, gs) in &case.language_globs {
      let list = |gs: &[String]| gs.iter().map(|g| format!("'{g}'")).collect::<Vec<_>>().join(", ");
      if gs.len() >= 2 {
        // the globs of one language under two spellings of its name
        cfg.push_str(&format!("  {l}: [{}]\n  {}: [{}]\n", list(&gs[..1]), l.to_lowercase(), list(&gs[1..])));
      } else {
        cfg.push_str(&format!("  {l}: [{}]\n", list(gs)));
      }
    }
  }
  dir.write("sgconfig.yml", cfg.as_bytes());
  let mut all_rules: Vec<String> = vec![];
  for (i, r) in case.rules.iter().enumerate() {
    let mut y = format!("id: {}\nlanguage: {}\nmessage: found\n{}", r.id, r.lang, rule_body(&r.lang));
    if let Some(s) = &r.severity {
      y.push_str(&format!("severity: {s}\n"));
    }
    let list = |v: &Vec<String>| v.iter().map(|g| format!("'{g}'")).collect::<Vec<_>>().join(", ");
    if let Some(f) = &r.files {
      y.push_str(&format!("files: [{}]\n", list(f)));
    }
    if let Some(f) = &r.ignores {
      y.push_str(&format!("ignores: [{}]\n", list(f)));
    }
    if case.rule_file {
      all_rules.push(y);
    } else {
      dir.write(&format!("rules/r{i}.yml"), y.as_bytes());
    }
  }
  if case.rule_file {
    dir.write("all.yml", all_rules.join("---\n").as_bytes());
  }
  for f in &case.files {
    // every file contains a trigger in its own language (foreign files: JS-looking text)
    let content = source_for(case, f).unwrap_or("foo(1)\n");
    dir.write(f, content.as_bytes());
  }
  // ---- expectation
  let selected: Vec<&RuleSpec> = case
    .rules
    .iter()
    .filter(|r| case.filter.as_ref().map(|f| regex::Regex::new(f).unwrap().is_match(&r.id)).unwrap_or(true))
    .collect();
  if selected.is_empty() {
    st.discard("filter selects no rule (the CLI reports an error)");
    return Ok(());
  }
  let mut expected: BTreeSet<(String, String, String)> = BTreeSet::new();
  let (mut by_lang, mut by_glob, mut by_sev, mut applied) = (0, 0, 0, 0);
  for r in &selected {
    let sev = effective_severity(case, r);
    for f in &case.files {
      let lang_ok = file_language(case, f).as_deref() == Some(r.lang.as_str());
      let ignored = r.ignores.as_ref().map(|gs| gs.iter().any(|g| glob_to_regex(g).is_match(f))).unwrap_or(false);
      let files_ok = r.files.as_ref().map(|gs| gs.iter().any(|g| glob_to_regex(g).is_match(f))).unwrap_or(true);
      if !lang_ok {
        by_lang += 1;
      } else if ignored || !files_ok {
        by_glob += 1;
      } else if sev == "off" {
        by_sev += 1;
      } else {
        applied += 1;
        expected.insert((f.clone(), r.id.clone(), sev.clone()));
      }
    }
  }
  let want_error_exit = expected.iter().any(|(_, _, s)| s == "error");
  // ---- run
  let mut args: Vec<String> = vec!["scan".into(), "--json=stream".into()];
  if case.rule_file {
    args.extend(["-r".to_string(), "all.yml".into()]);
    st.label("rules_given_with_-r");
  }
  for (s, ids) in &case.overrides {
    if ids.is_empty() {
      args.push(format!("--{s}"));
    } else {
      for id in ids {
        args.push(format!("--{s}={id}"));
      }
    }
  }
  if let Some(f) = &case.filter {
    args.push(format!("--filter={f}"));
  }
  let argv: Vec<&str> = args.iter().map(|s| s.as_str()).collect();
  let out = cli::sgv(&argv, &dir.path, None);
  if out.timed_out {
    return Err(Fail::new("inconclusive:watchdog", "sgv did not finish"));
  }
  if out.panicked() {
    fail!("C15:cli-panic", "sgv panicked: {}", out.stderr_str().chars().take(300).collect::<String>());
  }
  let recs = match out.json_lines() {
    Ok(r) => r,
    Err(e) => fail!("C15:json", "{e}; stderr: {}", out.stderr_str().chars().take(300).collect::<String>()),
  };
  st.eval();
  let mut got: BTreeSet<(String, String, String)> = BTreeSet::new();
  for r in &recs {
    got.insert((
      cli::norm_path(r["file"].as_str().unwrap_or("")),
      r["ruleId"].as_str().unwrap_or("").to_string(),
      r["severity"].as_str().unwrap_or("").to_string(),
    ));
  }
  let ctx = || {
    format!(
      "command: sg {}\nrules: {:?}\nlanguageGlobs: {:?}\nfiles: {:?}\nstderr: {}",
      args.join(" "),
      case.rules,
      case.language_globs,
      case.files,
      out.stderr_str().chars().take(200).collect::<String>()
    )
  };
  if got != expected {
    let extra: Vec<_> = got.difference(&expected).take(6).collect();
    let missing: Vec<_> = expected.difference(&got).take(6).collect();
    // classify by what differs
    let only_sev = got.iter().map(|x| (&x.0, &x.1)).collect::<BTreeSet<_>>() == expected.iter().map(|x| (&x.0, &x.1)).collect::<BTreeSet<_>>();
    let sig = if only_sev { "C15:effective-severity" } else if !extra.is_empty() { "C15:rule-applied-where-it-must-not" } else { "C15:rule-withheld-where-it-applies" };
    fail!(sig, "applied (file, rule, severity) set differs: unexpected {:?}, missing {:?}\n{}", extra, missing, ctx());
  }
  let error_exit = out.status != Some(0);
  if error_exit != want_error_exit {
    fail!(
      "C15:exit-status",
      "exit status {:?}, expected {} (findings with severity error: {})\n{}",
      out.status,
      if want_error_exit { "non-zero" } else { "zero" },
      expected.iter().filter(|x| x.2 == "error").count(),
      ctx()
    );
  }
  st.label_n("withheld_by_language", by_lang as u64);
  st.label_n("withheld_by_glob", by_glob as u64);
  st.label_n("withheld_by_severity", by_sev as u64);
  st.label_n("applied_pairs", applied as u64);
  if !case.language_globs.is_empty() {
    st.label("with_language_globs");
  }
  if !case.overrides.is_empty() {
    st.label("with_cli_overrides");
  }
  if case.filter.is_some() {
    st.label("with_filter");
  }
  if want_error_exit {
    st.label("error_exit");
  }
  if applied > 0 && by_lang > 0 && by_glob > 0 {
    st.label("nontrivial");
    if by_sev > 0 {
      st.label("all_three_reasons");
    }
    st.nontrivial(&(&case.files, format!("{:?}", case.rules), &case.language_globs, &case.overrides, &case.filter));
    if st.wants_sample() {
      st.sample(json!({"command": args.join(" "), "rules": case.rules, "languageGlobs": case.language_globs, "files": case.files, "applied": applied, "withheld": {"language": by_lang, "glob": by_glob, "severity": by_sev}}));
    }
  }
  Ok(())
}

pub fn run(cfg: &RunCfg) -> i32 {
  let mut report = Report::new(
    cfg,
    "case = project (sgconfig.yml with optional languageGlobs for foreign extensions, 1-6 rule files for JavaScript/TypeScript/Python/Rust/Go with severity hint|info|warning|error|off|absent and optional files / ignores lists drawn from 36 glob forms (also escaped metacharacters and a leading `./`), in a third of the unfiltered cases given as one file with `scan -r`; a language's languageGlobs split over two spellings of its name; **/*.ext, dir/**, dir/**/*.ext, exact paths, **/name.*, braces, classes, negated classes, ?, and forms where * must cross /), 3-15 files in nested directories with native and foreign extensions, each containing a trigger in its own language; CLI overrides --error/--warning/--info/--hint/--off bare or per id, --filter. Expected (file, rule, severity) set from O-glob (documented globset syntax as a regex) + O-severity; compared with scan --json=stream and the exit status. evaluations = CLI runs. Non-trivial = distinct case where rules are applied to some files and withheld from others by language and by glob.",
  );
  report.assume("invoked from the project root, non-interactive; one bare override at most and each rule id in at most one per-id flag (the property does not order conflicting flags)");
  report.assume("languageGlobs map each foreign extension to one language (conflicting maps are C13's subject)");
  let known = Known::load(&cfg.prop);
  if let Some(path) = &cfg.replay {
    return crate::replay_main::<Case>(cfg, path, check);
  }
  crate::replay_known::<Case>(&mut report, &known, check);
  let total = cfg.budget(4_000, 160_000);
  let o = drive(cfg, "projects", total, &known, strategy, interpret, check);
  report.absorb("projects", o);
  cli::cleanup_work_root();
  report.floor("nontrivial", 0.3, "evaluations");
  report.finish()
}
