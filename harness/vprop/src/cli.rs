//! Black-box driver for the real CLI (`sgv`, built from /repo/crates/cli in this workspace).
use serde_json::Value;
use std::io::{Read, Write};
use std::path::{Path, PathBuf};
use std::process::{Command, Stdio};
use std::sync::atomic::{AtomicUsize, Ordering};
use std::time::{Duration, Instant};

pub fn sgv_path() -> PathBuf {
  if let Ok(p) = std::env::var("VPROP_SGV") {
    return PathBuf::from(p);
  }
  let exe = std::env::current_exe().expect("current exe");
  exe.parent().expect("dir").join("sgv")
}

static COUNTER: AtomicUsize = AtomicUsize::new(0);

/// scratch directory under /verif/.work, removed on drop
pub struct TempDir {
  pub path: PathBuf,
}

impl TempDir {
  pub fn new(tag: &str) -> TempDir {
    let n = COUNTER.fetch_add(1, Ordering::SeqCst);
    let path = crate::engine::verif_root()
      .join(".work")
      .join(format!("{}-{}-{}", std::process::id(), tag, n));
    let _ = std::fs::remove_dir_all(&path);
    std::fs::create_dir_all(&path).expect("create work dir");
    TempDir { path }
  }
  pub fn write(&self, rel: &str, content: &[u8]) -> PathBuf {
    let p = self.path.join(rel);
    if let Some(d) = p.parent() {
      std::fs::create_dir_all(d).expect("mkdir");
    }
    std::fs::write(&p, content).expect("write file");
    p
  }
  pub fn read(&self, rel: &str) -> Option<Vec<u8>> {
    std::fs::read(self.path.join(rel)).ok()
  }
}

impl Drop for TempDir {
  fn drop(&mut self) {
    // restore permissions so that removal works
    let _ = Command::new("chmod").arg("-R").arg("u+rwx").arg(&self.path).output();
    let _ = std::fs::remove_dir_all(&self.path);
  }
}

pub fn cleanup_work_root() {
  let root = crate::engine::verif_root().join(".work");
  if let Ok(rd) = std::fs::read_dir(&root) {
    let me = format!("{}-", std::process::id());
    for e in rd.flatten() {
      if e.file_name().to_string_lossy().starts_with(&me) {
        let _ = std::fs::remove_dir_all(e.path());
      }
    }
  }
}

#[derive(Debug, Clone)]
pub struct Out {
  pub status: Option<i32>,
  pub stdout: Vec<u8>,
  pub stderr: Vec<u8>,
  pub timed_out: bool,
  pub wall: Duration,
}

impl Out {
  pub fn stdout_str(&self) -> String {
    String::from_utf8_lossy(&self.stdout).into_owned()
  }
  pub fn stderr_str(&self) -> String {
    String::from_utf8_lossy(&self.stderr).into_owned()
  }
  pub fn json_lines(&self) -> Result<Vec<Value>, String> {
    let mut out = vec![];
    for (i, line) in self.stdout_str().lines().enumerate() {
      if line.trim().is_empty() {
        continue;
      }
      let v: Value = serde_json::from_str(line).map_err(|e| format!("line {i} is not JSON: {e}: {line:.200}"))?;
      out.push(v);
    }
    Ok(out)
  }
  /// stream style, strictly: every line is one JSON object, no empty line anywhere (only the
  /// line break that ends the output is allowed to be missing or present)
  pub fn json_lines_strict(&self) -> Result<Vec<Value>, String> {
    let s = self.stdout_str();
    let body = s.strip_suffix('\n').unwrap_or(&s);
    if body.is_empty() {
      return Ok(vec![]);
    }
    let mut out = vec![];
    for (i, line) in body.split('\n').enumerate() {
      let v: Value = serde_json::from_str(line).map_err(|e| format!("line {i} is not one JSON object: {e}: {line:.200?}"))?;
      if !v.is_object() {
        return Err(format!("line {i} is not a JSON object: {line:.200?}"));
      }
      out.push(v);
    }
    Ok(out)
  }
  pub fn json_array(&self) -> Result<Vec<Value>, String> {
    let s = self.stdout_str();
    let v: Value = serde_json::from_str(&s).map_err(|e| format!("output is not one JSON value: {e}: {:.200}", s))?;
    match v {
      Value::Array(a) => Ok(a),
      _ => Err("output is not a JSON array".into()),
    }
  }
  pub fn panicked(&self) -> bool {
    let e = self.stderr_str();
    e.contains("panicked at") || e.contains("stack overflow") || e.contains("RUST_BACKTRACE")
  }
}

pub const WATCHDOG: Duration = Duration::from_secs(20);

pub fn run_cmd(mut cmd: Command, stdin: Option<&[u8]>, timeout: Duration) -> Out {
  cmd.stdin(if stdin.is_some() { Stdio::piped() } else { Stdio::null() });
  cmd.stdout(Stdio::piped());
  cmd.stderr(Stdio::piped());
  cmd.env("NO_COLOR", "1");
  cmd.env_remove("RUST_BACKTRACE");
  let start = Instant::now();
  let mut child = cmd.spawn().expect("spawn sgv");
  if let Some(data) = stdin {
    let mut si = child.stdin.take().expect("stdin");
    let data = data.to_vec();
    std::thread::spawn(move || {
      let _ = si.write_all(&data);
    });
  }
  let mut so = child.stdout.take().expect("stdout");
  let mut se = child.stderr.take().expect("stderr");
  let t_out = std::thread::spawn(move || {
    let mut b = vec![];
    let _ = so.read_to_end(&mut b);
    b
  });
  let t_err = std::thread::spawn(move || {
    let mut b = vec![];
    let _ = se.read_to_end(&mut b);
    b
  });
  let mut timed_out = false;
  let status = loop {
    match child.try_wait() {
      Ok(Some(s)) => break s.code(),
      Ok(None) => {
        if start.elapsed() > timeout {
          timed_out = true;
          let _ = child.kill();
          let _ = child.wait();
          break None;
        }
        std::thread::sleep(Duration::from_millis(2));
      }
      Err(_) => break None,
    }
  };
  let stdout = t_out.join().unwrap_or_default();
  let stderr = t_err.join().unwrap_or_default();
  Out {
    status,
    stdout,
    stderr,
    timed_out,
    wall: start.elapsed(),
  }
}

pub fn sgv(args: &[&str], cwd: &Path, stdin: Option<&[u8]>) -> Out {
  sgv_env(args, cwd, stdin, &[])
}

/// Runs sgv; a watchdog expiry is retried once with a three times longer limit so that a
/// loaded machine does not turn into a verdict.
pub fn sgv_env(args: &[&str], cwd: &Path, stdin: Option<&[u8]>, env: &[(&str, &str)]) -> Out {
  let mk = || {
    let mut cmd = Command::new(sgv_path());
    cmd.args(args).current_dir(cwd);
    for (k, v) in env {
      cmd.env(k, v);
    }
    cmd
  };
  let out = run_cmd(mk(), stdin, WATCHDOG);
  if out.timed_out {
    return run_cmd(mk(), stdin, WATCHDOG * 3);
  }
  out
}

/// no retry: for checks where a hang is itself the subject (C11)
pub fn sgv_once(args: &[&str], cwd: &Path, stdin: Option<&[u8]>, timeout: Duration) -> Out {
  let mut cmd = Command::new(sgv_path());
  cmd.args(args).current_dir(cwd);
  run_cmd(cmd, stdin, timeout)
}

/// normalise a path printed by the CLI relative to the project root ("./a/b.js" -> "a/b.js")
pub fn norm_path(p: &str) -> String {
  p.trim_start_matches("./").to_string()
}

pub fn rec_range(v: &Value) -> Option<(usize, usize)> {
  let b = v.get("range")?.get("byteOffset")?;
  Some((b.get("start")?.as_u64()? as usize, b.get("end")?.as_u64()? as usize))
}
