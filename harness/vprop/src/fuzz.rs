//! Coverage-guided stage: the libFuzzer target in /verif/fuzz feeds byte strings to the same
//! generators and oracles the proptest stages use. The byte string *is* the choice vector:
//! proptest's pass-through RNG hands the bytes to the property's strategy, the resulting choice
//! is interpreted against the corpus and checked by the property's oracle. Coverage feedback
//! comes from ast-grep itself (the harness and ast-grep are compiled with sancov counters), so
//! the fuzzer is rewarded for choices that reach new matcher / rule / replacer code.
//!
//! A failing input found by libFuzzer is never reported as is: the parent decodes the bytes with
//! the non-instrumented build, lets proptest shrink the choice with the real (strict) check and
//! writes the usual replay file. An artifact that does not fail there is counted as
//! `fuzz_artifact_not_reproduced` and makes the run inconclusive, never a violation.

use crate::engine::*;
use proptest::strategy::{Strategy, ValueTree};
use proptest::test_runner::{Config, RngAlgorithm, TestCaseError, TestError, TestRng, TestRunner};
use serde::Serialize;
use serde_json::{json, Value};
use std::path::{Path, PathBuf};
use std::process::{Command, Stdio};

type RunFn = Box<dyn Fn(&[u8], &mut Stats, bool) -> Option<Violation> + Send + Sync>;

/// One property stage with the types erased: bytes in, optional failure out.
pub struct Erased {
  pub prop: &'static str,
  pub stage: &'static str,
  run: RunFn,
}

impl Erased {
  /// A stage driven through its proptest strategy by the pass-through RNG.
  pub fn generic<S, C>(
    prop: &'static str,
    stage: &'static str,
    make_strategy: impl Fn() -> S + Send + Sync + 'static,
    interpret: impl Fn(&S::Value, &mut Stats) -> Option<C> + Send + Sync + 'static,
    check: impl Fn(&C, &mut Stats) -> CheckResult + Send + Sync + 'static,
  ) -> Erased
  where
    S: Strategy,
    S::Value: Clone + std::fmt::Debug,
    C: Serialize,
  {
    let eval = move |v: &S::Value, st: &mut Stats| -> Option<(C, Fail)> {
      let case = match catch(|| interpret(v, st)) {
        Ok(Some(c)) => c,
        Ok(None) => {
          st.discard("uninterpretable choice");
          return None;
        }
        Err(p) => {
          st.label("generator_panic");
          st.note(format!("generator panic: {p}"));
          return None;
        }
      };
      let r = match catch(|| check(&case, st)) {
        Ok(r) => r,
        Err(p) => Err(Fail::new(panic_signature(&p), format!("panic: {p}"))),
      };
      match r {
        Ok(()) => None,
        Err(f) => Some((case, f)),
      }
    };
    let run = move |data: &[u8], st: &mut Stats, shrink: bool| -> Option<Violation> {
      // proptest's pass-through RNG yields zeros once the data is used up, and rand's rejection
      // sampling never accepts an all-zero stream for ranges that are not a power of two: pad the
      // input with a fixed pseudo-random tail so that the stream never runs dry.
      let mut padded = Vec::with_capacity(data.len() + tail().len());
      padded.extend_from_slice(data);
      padded.extend_from_slice(tail());
      let rng = TestRng::from_seed(RngAlgorithm::PassThrough, &padded);
      let config = Config {
        failure_persistence: None,
        max_shrink_iters: 2000,
        ..Config::default()
      };
      let mut runner = TestRunner::new_with_rng(config, rng);
      let strategy = make_strategy();
      let tree = match strategy.new_tree(&mut runner) {
        Ok(t) => t,
        Err(_) => {
          st.discard("strategy rejected the bytes");
          return None;
        }
      };
      let first = tree.current();
      let (case, f) = eval(&first, st)?;
      let to_violation = |case: &C, f: Fail| Violation {
        signature: f.signature,
        message: f.message,
        case: serde_json::to_value(case).unwrap_or(Value::Null),
      };
      if !shrink || f.signature.starts_with("inconclusive:") {
        return Some(to_violation(&case, f));
      }
      // shrink towards a minimal choice that fails with the same signature
      let want = f.signature.clone();
      let result = runner.run_one(tree, |v| {
        let mut scratch = Stats::new();
        match eval(&v, &mut scratch) {
          Some((_, g)) if g.signature == want => Err(TestCaseError::fail(g.signature)),
          _ => Ok(()),
        }
      });
      if let Err(TestError::Fail(_, minimal)) = result {
        let mut scratch = Stats::new();
        if let Some((c, g)) = eval(&minimal, &mut scratch) {
          return Some(to_violation(&c, g));
        }
      }
      Some(to_violation(&case, f))
    };
    Erased {
      prop,
      stage,
      run: Box::new(run),
    }
  }

  /// A stage with its own byte decoder (no shrinking).
  pub fn custom<C: Serialize>(
    prop: &'static str,
    stage: &'static str,
    decode: impl Fn(&[u8]) -> C + Send + Sync + 'static,
    check: impl Fn(&C, &mut Stats) -> CheckResult + Send + Sync + 'static,
  ) -> Erased {
    let run = move |data: &[u8], st: &mut Stats, _shrink: bool| -> Option<Violation> {
      let case = match catch(|| decode(data)) {
        Ok(c) => c,
        Err(p) => {
          st.label("generator_panic");
          st.note(format!("decoder panic: {p}"));
          return None;
        }
      };
      let r = match catch(|| check(&case, st)) {
        Ok(r) => r,
        Err(p) => Err(Fail::new(panic_signature(&p), format!("panic: {p}"))),
      };
      r.err().map(|f| Violation {
        signature: f.signature,
        message: f.message,
        case: serde_json::to_value(&case).unwrap_or(Value::Null),
      })
    };
    Erased {
      prop,
      stage,
      run: Box::new(run),
    }
  }

  pub fn run(&self, data: &[u8], st: &mut Stats, shrink: bool) -> Option<Violation> {
    (self.run)(data, st, shrink)
  }
}

/// The stages that have a fuzz entry. `in_target` selects the variant that runs inside the
/// libFuzzer process (no child processes, listed findings excluded by construction).
pub fn by_name(prop: &str, in_target: bool) -> Option<Erased> {
  Some(match prop {
    "C01" => crate::c01::erased(),
    "C02" => crate::c02::erased(),
    "C03" => crate::c03::erased(),
    "C04" => crate::c04::erased(),
    "C05" => crate::c05::erased(),
    "C06" => crate::c06::erased(),
    "C07" => crate::c07::erased(),
    "C10" => crate::c10::erased(),
    "C11" => crate::c11::erased(in_target),
    "C12" => crate::c12::erased(in_target),
    "C14" => crate::c14::erased(),
    "C19" => crate::c19::erased(),
    _ => return None,
  })
}

pub const FUZZABLE: &[&str] = &["C01", "C02", "C03", "C04", "C05", "C06", "C07", "C10", "C11", "C12", "C14", "C19"];

/// Entry point of the libFuzzer target. The property comes from VPROP_FUZZ_PROP.
pub fn entry(data: &[u8]) {
  struct Ctx {
    erased: Erased,
    known: Known,
  }
  static CTX: std::sync::OnceLock<Ctx> = std::sync::OnceLock::new();
  let ctx = CTX.get_or_init(|| {
    install_panic_hook();
    let prop = std::env::var("VPROP_FUZZ_PROP").unwrap_or_else(|_| "C11".into());
    let erased = by_name(&prop, true).unwrap_or_else(|| {
      eprintln!("no fuzz entry for {prop}");
      std::process::exit(2)
    });
    Ctx {
      erased,
      known: Known::load(&prop),
    }
  });
  let mut st = Stats::new();
  if let Some(v) = ctx.erased.run(data, &mut st, false) {
    if v.signature.starts_with("inconclusive:") || ctx.known.tolerated(&v.signature) {
      return;
    }
    eprintln!("VPROP-FUZZ-FAIL {} :: {}", v.signature, v.message.chars().take(800).collect::<String>());
    std::process::abort();
  }
}

// ---------------------------------------------------------------------------------------
// parent side

fn tail() -> &'static [u8] {
  static TAIL: std::sync::OnceLock<Vec<u8>> = std::sync::OnceLock::new();
  TAIL.get_or_init(|| {
    let mut state = 0x5eed_5eed_5eed_5eedu64;
    (0..(128 << 10) / 8).flat_map(|_| splitmix(&mut state).to_le_bytes()).collect()
  })
}

fn splitmix(state: &mut u64) -> u64 {
  *state = state.wrapping_add(0x9E37_79B9_7F4A_7C15);
  let mut z = *state;
  z = (z ^ (z >> 30)).wrapping_mul(0xBF58_476D_1CE4_E5B9);
  z = (z ^ (z >> 27)).wrapping_mul(0x94D0_49BB_1331_11EB);
  z ^ (z >> 31)
}

/// The committed, coverage-distilled corpus of earlier campaigns: one pack file per property
/// (u32 little-endian length + bytes, repeated).
fn committed_pack(prop: &str) -> PathBuf {
  verif_root().join("fuzz").join("corpus").join(format!("{prop}.pack"))
}

fn read_pack(prop: &str) -> Vec<(String, Vec<u8>)> {
  let Ok(all) = std::fs::read(committed_pack(prop)) else {
    return vec![];
  };
  let mut out = vec![];
  let mut at = 0;
  while at + 4 <= all.len() {
    let len = u32::from_le_bytes([all[at], all[at + 1], all[at + 2], all[at + 3]]) as usize;
    at += 4;
    if at + len > all.len() {
      break;
    }
    out.push((format!("pack-{:05}", out.len()), all[at..at + len].to_vec()));
    at += len;
  }
  out
}

fn write_pack(prop: &str, inputs: &[(String, Vec<u8>)]) {
  let mut all = vec![];
  for (_, d) in inputs {
    all.extend_from_slice(&(d.len() as u32).to_le_bytes());
    all.extend_from_slice(d);
  }
  let p = committed_pack(prop);
  let _ = std::fs::create_dir_all(p.parent().unwrap());
  let _ = std::fs::write(p, all);
}

fn read_inputs(dir: &Path, cap: usize) -> Vec<(String, Vec<u8>)> {
  let mut names: Vec<PathBuf> = std::fs::read_dir(dir)
    .map(|rd| rd.flatten().map(|e| e.path()).filter(|p| p.is_file()).collect())
    .unwrap_or_default();
  names.sort();
  names
    .into_iter()
    .take(cap)
    .filter_map(|p| Some((p.file_name()?.to_string_lossy().into_owned(), std::fs::read(&p).ok()?)))
    .collect()
}

/// Replay byte inputs through the (strict, non-instrumented) stage. `strict_fail`: a failure is
/// a violation unless its signature is a listed finding.
pub fn drive_bytes(cfg: &RunCfg, known: &Known, erased: &Erased, inputs: &[(String, Vec<u8>)], shrink: bool) -> Outcome {
  let workers = cfg.workers().min(inputs.len().max(1));
  let chunk = inputs.len().div_ceil(workers.max(1)).max(1);
  let strict = cfg.strict;
  let results: Vec<(Stats, Vec<Violation>)> = std::thread::scope(|scope| {
    let hs: Vec<_> = inputs
      .chunks(chunk)
      .map(|part| {
        std::thread::Builder::new()
          .stack_size(256 << 20)
          .spawn_scoped(scope, move || {
            let mut st = Stats::new();
            let mut vs = vec![];
            for (name, data) in part {
              if let Some(v) = erased.run(data, &mut st, shrink) {
                if v.signature.starts_with("inconclusive:") {
                  st.label("inconclusive");
                  st.note(format!("{}: {}", v.signature, v.message.chars().take(200).collect::<String>()));
                } else if !strict && known.tolerated(&v.signature) {
                  *st.excluded_known.entry(v.signature.clone()).or_insert(0) += 1;
                } else if vs.len() < 3 {
                  let mut v = v;
                  v.message = format!("{}\n(found by the coverage-guided stage, input {name})", v.message);
                  vs.push(v);
                }
              }
            }
            (st, vs)
          })
          .expect("spawn")
      })
      .collect();
    hs.into_iter().map(|h| h.join().expect("worker")).collect()
  });
  let mut stats = Stats::new();
  let mut violations = vec![];
  for (s, v) in results {
    stats.merge(s);
    violations.extend(v);
  }
  Outcome { stats, violations }
}

/// Quick tier: replay the committed, coverage-distilled corpus of earlier campaigns.
pub fn replay_committed(cfg: &RunCfg, report: &mut Report, known: &Known) {
  let Some(erased) = by_name(&cfg.prop, false) else { return };
  let inputs = read_pack(&cfg.prop);
  if inputs.is_empty() {
    return;
  }
  let o = drive_bytes(cfg, known, &erased, &inputs, true);
  report.absorb("fuzz-corpus-replay", o);
}

struct Built {
  bin: PathBuf,
}

fn build_target() -> Result<Built, String> {
  let fuzz_dir = verif_root().join("fuzz");
  let out = Command::new("cargo")
    // -O: no debug assertions (as in the harness build that decides the artifacts); overflow
    // checks stay on, as in the harness
    .args(["+nightly", "fuzz", "build", "-O", "--fuzz-dir"])
    .arg(&fuzz_dir)
    .arg("vfuzz")
    .env("CARGO_NET_OFFLINE", "true")
    .env("RUSTFLAGS", "--cfg ast_grep_verif -C overflow-checks=yes")
    .current_dir(&fuzz_dir)
    .stdin(Stdio::null())
    .output()
    .map_err(|e| format!("cannot start cargo fuzz: {e}"))?;
  if !out.status.success() {
    let err = String::from_utf8_lossy(&out.stderr);
    let tail: Vec<&str> = err.lines().filter(|l| l.contains("error")).take(5).collect();
    return Err(format!("cargo +nightly fuzz build failed: {}", tail.join(" | ")));
  }
  let bin = fuzz_dir.join("target/x86_64-unknown-linux-gnu/release/vfuzz");
  if !bin.exists() {
    return Err(format!("fuzz binary {} missing after build", bin.display()));
  }
  Ok(Built { bin })
}

/// Thorough tier: build the libFuzzer target from the current tree, run `jobs` seeded campaigns
/// of `runs` executions each over a fresh corpus directory, then decide every artifact with the
/// strict check and replay the grown corpus for the statistics.
pub fn campaign(cfg: &RunCfg, report: &mut Report, known: &Known, runs: u64) {
  let prop = cfg.prop.clone();
  let Some(erased) = by_name(&prop, false) else { return };
  let built = match build_target() {
    Ok(b) => b,
    Err(e) => {
      report.inconclusive.push(format!("coverage-guided stage not run: {e}"));
      return;
    }
  };
  let work = verif_root().join(".work").join(format!("fuzz-{}-{}", prop, std::process::id()));
  let _ = std::fs::remove_dir_all(&work);
  let corpus = work.join("corpus");
  let arts = work.join("artifacts");
  std::fs::create_dir_all(&corpus).expect("corpus dir");
  std::fs::create_dir_all(&arts).expect("artifact dir");
  // starting corpus: the committed distilled corpus + seeded random full-length inputs
  let mut n_seed = 0;
  for (name, data) in read_pack(&prop) {
    let _ = std::fs::write(corpus.join(format!("c-{name}")), data);
    n_seed += 1;
  }
  let mut state = fingerprint(&(cfg.seed, prop.as_str(), "fuzz-seed-corpus"));
  for i in 0..64 {
    let len = 64 + (splitmix(&mut state) % 2000) as usize;
    let data: Vec<u8> = (0..len).map(|_| splitmix(&mut state) as u8).collect();
    let _ = std::fs::write(corpus.join(format!("r-{i:02}")), data);
  }
  if prop == "C11" {
    for (i, y) in crate::c11::seed_documents().iter().enumerate() {
      let mut data = vec![3u8, 0u8];
      data.extend_from_slice(y.as_bytes());
      let _ = std::fs::write(corpus.join(format!("y-{i:02}")), data);
    }
  }
  let jobs = cfg.workers();
  let runs = ((runs as f64) * cfg.scale).max(100.0) as u64;
  let children: Vec<_> = (0..jobs)
    .map(|k| {
      let seed = (fingerprint(&(cfg.seed, prop.as_str(), k as u64)) % 0x7fff_fffe) + 1;
      let log = std::fs::File::create(work.join(format!("job-{k}.log"))).expect("log");
      let cmd = format!(
        "ulimit -s 1048576 2>/dev/null; exec {} {} -seed={} -runs={} -max_len=4096 -len_control=0 -detect_leaks=0 -timeout=120 -rss_limit_mb=12288 -print_final_stats=1 -artifact_prefix={}/j{}- ",
        built.bin.display(),
        corpus.display(),
        seed,
        runs,
        arts.display(),
        k
      );
      Command::new("sh")
        .arg("-c")
        .arg(cmd)
        .env("VPROP_FUZZ_PROP", &prop)
        .env("VERIF_ROOT", verif_root())
        .env("ASAN_OPTIONS", "detect_leaks=0:abort_on_error=0:allocator_may_return_null=1")
        .stdin(Stdio::null())
        .stdout(Stdio::null())
        .stderr(log)
        .spawn()
        .expect("spawn fuzz job")
    })
    .collect();
  let mut exits = vec![];
  for mut c in children {
    exits.push(c.wait().ok().and_then(|s| s.code()));
  }
  // statistics from the logs
  let mut execs = 0u64;
  let mut cov = 0u64;
  let mut ft = 0u64;
  let mut fails: Vec<String> = vec![];
  for k in 0..jobs {
    let log = std::fs::read_to_string(work.join(format!("job-{k}.log"))).unwrap_or_default();
    for l in log.lines() {
      if let Some(n) = l.strip_prefix("stat::number_of_executed_units:") {
        execs += n.trim().parse::<u64>().unwrap_or(0);
      }
      if l.contains(" cov: ") {
        let grab = |key: &str| l.split(key).nth(1).and_then(|r| r.split_whitespace().next()).and_then(|x| x.parse::<u64>().ok()).unwrap_or(0);
        cov = cov.max(grab(" cov: "));
        ft = ft.max(grab(" ft: "));
      }
      if l.starts_with("VPROP-FUZZ-FAIL") && fails.len() < 8 {
        fails.push(l.chars().take(300).collect());
      }
    }
  }
  let artifacts = read_inputs(&arts, 200);
  let (crashes, others): (Vec<_>, Vec<_>) = artifacts.into_iter().partition(|(n, _)| n.contains("crash-"));
  // decide every crash artifact with the strict check (shrinking the choice)
  let o = drive_bytes(cfg, known, &erased, &crashes, true);
  let reproduced = o.violations.len() + o.stats.excluded_known.values().sum::<u64>() as usize;
  let mut o = o;
  if !crashes.is_empty() && reproduced == 0 {
    o.stats.label_n("fuzz_artifact_not_reproduced", crashes.len() as u64);
    let keep = verif_root().join("replays").join("new");
    let _ = std::fs::create_dir_all(&keep);
    for (n, d) in crashes.iter().take(3) {
      let _ = std::fs::write(keep.join(format!("{prop}-fuzz-{n}.bin")), d);
    }
    report.inconclusive.push(format!(
      "{} libFuzzer crash artifact(s) do not fail the strict check (kept as replays/new/{prop}-fuzz-*.bin): {}",
      crashes.len(),
      fails.first().cloned().unwrap_or_default()
    ));
  }
  if !others.is_empty() {
    // timeouts / out-of-memory of the instrumented build are not verdicts
    o.stats.label_n("fuzz_timeout_or_oom_artifacts", others.len() as u64);
    o.stats.note(format!("non-crash artifacts: {:?}", others.iter().map(|(n, _)| n.as_str()).take(5).collect::<Vec<_>>()));
  }
  report.absorb("fuzz-artifacts", o);
  // replay the grown corpus for the statistics of what the campaign reached
  let grown = read_inputs(&corpus, 30_000);
  let o = drive_bytes(cfg, known, &erased, &grown, true);
  let corpus_size = grown.len();
  report.absorb("fuzz-corpus", o);
  report.extra.insert(
    "coverage_guided".into(),
    json!({
      "engine": "libFuzzer (cargo-fuzz, nightly, ASan) over the pass-through choice decoder",
      "jobs": jobs,
      "runs_per_job": runs,
      "executions": execs,
      "edge_coverage": cov,
      "features": ft,
      "seed_corpus_files": n_seed + 64,
      "final_corpus_files": corpus_size,
      "crash_artifacts": crashes.len(),
      "other_artifacts": others.len(),
      "job_exit_codes": exits,
    }),
  );
  if std::env::var("VPROP_FUZZ_SAVE").is_ok() {
    // distil: add to the committed corpus only inputs that increase coverage
    let dst = work.join("distilled");
    let _ = std::fs::create_dir_all(&dst);
    let _ = Command::new("sh")
      .arg("-c")
      .arg(format!("ulimit -s 1048576 2>/dev/null; exec {} -merge=1 -detect_leaks=0 -timeout=120 -rss_limit_mb=12288 {} {}", built.bin.display(), dst.display(), corpus.display()))
      .env("VPROP_FUZZ_PROP", &prop)
      .env("VERIF_ROOT", verif_root())
      .env("ASAN_OPTIONS", "detect_leaks=0")
      .stdout(Stdio::null())
      .stderr(Stdio::null())
      .status();
    let distilled = read_inputs(&dst, 6_000);
    if !distilled.is_empty() {
      write_pack(&prop, &distilled);
    }
  }
  let _ = std::fs::remove_dir_all(&work);
}

/// The coverage-guided part of a property's run: every tier replays the committed corpus; the
/// thorough tier also builds the target from the current tree and runs a fresh campaign.
pub fn stage(cfg: &RunCfg, report: &mut Report, known: &Known, runs_per_job: u64) {
  replay_committed(cfg, report, known);
  if cfg.tier == Tier::Thorough || std::env::var("VPROP_FUZZ").is_ok() {
    campaign(cfg, report, known, runs_per_job);
  }
}
