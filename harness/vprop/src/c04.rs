//! C04 — meta-variable bindings are coherent and failed alternatives leave no trace.
use crate::c03::{self, EnvView};
use crate::engine::*;
use crate::fail;
use crate::gen::{self, Corpus, SrcChoice, SrcOpts};
use crate::langs;
use crate::rules::*;
use crate::tsutil::{self, parse};
use ast_grep_config::{from_yaml_string, DeserializeEnv, GlobalRules};
use ast_grep_core::matcher::MatcherExt;
use ast_grep_core::Pattern;
use ast_grep_language::SupportLang;
use proptest::prelude::*;
use proptest::sample::Index;
use serde::{Deserialize, Serialize};
use serde_json::json;
use std::collections::{BTreeMap, BTreeSet};

pub const POOL: &[&str] = &["A", "B", "C"];

#[derive(Clone, Debug, Serialize, Deserialize)]
pub struct GlobalUtil {
  pub id: String,
  pub rule: GRule,
  pub constraints: Vec<(String, GRule)>,
}

#[derive(Clone, Debug, Serialize, Deserialize)]
pub struct Case {
  pub lang: String,
  pub source: String,
  pub rule: GRule,
  pub utils: Vec<(String, GRule)>,
  pub globals: Vec<GlobalUtil>,
  pub constraints: Vec<(String, GRule)>,
}

#[derive(Clone, Debug)]
pub struct Choice {
  src: SrcChoice,
  utils: Vec<RC>,
  global: Option<(RC, Option<(u8, RC)>)>,
  first: RC,
  rest: Vec<RC>,
  constraints: Vec<(u8, RC)>,
  wrap: u8,
}

fn pattern_rc() -> impl Strategy<Value = RC> {
  (
    any::<Index>(),
    prop::collection::vec(any::<Index>(), 1..=2),
    prop::option::weighted(0.15, (any::<Index>(), any::<Index>())),
    5u8..12,
    any::<u8>(),
  )
    .prop_map(|(node, holes, run, strict, var)| RC::Pattern {
      node,
      holes,
      run,
      strict,
      var,
    })
}

pub fn strategy(opts: &SrcOpts) -> BoxedStrategy<Choice> {
  // constraints that separate candidates: `^<token>$` over the 4-identifier pool of the
  // synthetic sources accepts some bindings and rejects others
  let constraint_rule = prop_oneof![
    1 => any::<Index>().prop_map(RC::Kind),
    3 => (any::<Index>(), 0u8..2).prop_map(|(i, f)| RC::Regex(i, f)),
    1 => (any::<Index>(), 2u8..6).prop_map(|(i, f)| RC::Regex(i, f)),
    2 => pattern_rc(),
  ];
  (
    gen::src_choice(opts),
    prop::collection::vec(rc_tree(2), 0..=2),
    prop::option::weighted(
      0.6,
      (
        prop_oneof![2 => pattern_rc().boxed(), 1 => rc_tree(2)],
        prop::option::weighted(0.8, (0u8..3, constraint_rule.clone())),
      ),
    ),
    pattern_rc(),
    prop::collection::vec(
      prop_oneof![
        3 => rc_tree(3),
        // a relational rule whose candidates are tested by a utility (the shape in which a
        // failed attempt of the utility can leak into the next candidate)
        2 => (0u8..4, any::<Index>(), any::<bool>()).prop_map(|(which, m, end)| RC::Rel {
          which,
          rule: Box::new(RC::Matches(m)),
          stop: if end { StopC::End } else { StopC::Neighbor },
          field: None,
        }),
      ],
      0..=3,
    ),
    prop::collection::vec((0u8..3, constraint_rule), 0..=2),
    0u8..6,
  )
    .prop_map(|(src, utils, global, first, rest, constraints, wrap)| Choice {
      src,
      utils,
      global,
      first,
      rest,
      constraints,
      wrap,
    })
    .boxed()
}

/// Scenario sources: statements of nested calls over f/g/h and the atoms a, b, 1, 2 in a
/// generated order, so that a failing-but-binding candidate precedes a succeeding one often.
#[derive(Clone, Debug)]
pub struct ScenChoice {
  lang: u8,
  stmts: Vec<Vec<(u8, u8)>>,
  inner: Option<Choice>,
}

pub fn scenario_strategy(opts: &SrcOpts) -> BoxedStrategy<ScenChoice> {
  (
    0u8..4,
    prop::collection::vec(prop::collection::vec((0u8..5, 0u8..10), 1..5), 1..4),
    strategy(opts),
  )
    .prop_map(|(lang, stmts, inner)| ScenChoice { lang, stmts, inner: Some(inner) })
    .boxed()
}

pub fn scenario_source(ch: &ScenChoice) -> (SupportLang, String) {
  let lang = [SupportLang::JavaScript, SupportLang::TypeScript, SupportLang::Python, SupportLang::Rust][ch.lang as usize % 4];
  // `a + 1` / `a - 1` / `a * 1` have the same named children and differ in an anonymous token only
  let atoms = ["a", "b", "1", "2", "g(a)", "a + 1", "a - 1", "a * 1", "a", ""];
  // `g(a)` as a callee gives curried calls `g(a)(b)`: a call that is the `function` field of another
  let funcs = ["g", "h", "g", "g(a)", "h(b)"];
  let mut body = String::new();
  for (i, st) in ch.stmts.iter().enumerate() {
    let args: Vec<String> = st.iter().map(|(f, a)| format!("{}({})", funcs[*f as usize % funcs.len()], atoms[*a as usize % atoms.len()])).collect();
    let indent = if lang == SupportLang::Rust { "    " } else { "" };
    let semi = if lang == SupportLang::Python { "" } else { ";" };
    let callee = if i % 2 == 0 { "f" } else { "k" };
    body.push_str(&format!("{indent}{callee}({}){semi}\n", args.join(", ")));
  }
  let text = if lang == SupportLang::Rust { format!("fn main() {{\n{body}}}\n") } else { body };
  (lang, text)
}

pub fn scenario_dict() -> Dict {
  Dict {
    patterns: vec![
      "g($X)", "h($X)", "$Y($X)", "f($$$XS)", "g($X)", "$X", "k($$$XS)", "g(g($X))", "f($X, $$$)", "f($$$, $X)",
      // bind first, fail later: a candidate can leave a binding behind before it is rejected
      "$Y(a)", "$Y(1)", "$Y(b)", "$Y(g($X))", "$Y(a + 1)",
      // one variable, two occurrences: the bound nodes must be the same code
      "f($X, $X)", "$Y($X, $X)", "f($Y($X), $Y($X))", "f($X, $$$, $X)", "$Y(g($X), h($X))", "f(g($X), $$$, g($X))",
    ],
    regexes: vec!["^a$", "^b$", "^1$", "^[a-z]$", "^g\\(a\\)$", "^g", "^\\d$", "^h", "^a \\+ 1$", "\\+"],
  }
}

pub fn interpret_scenario(ch: &ScenChoice, st: &mut Stats) -> Option<Case> {
  let (lang, text) = scenario_source(ch);
  let built = gen::Built {
    lang,
    text,
    origin: "scenario".into(),
    labels: vec![],
  };
  interpret_built(built, ch.inner.as_ref()?, st, Some(scenario_dict()))
}


// ---------------------------------------------------------------------------------------
// families: rule shapes in which an attempt binds a variable before it is rejected, built
// directly (the random rule trees reach each of them only now and then). The oracle is the
// same clean-attempt reference evaluator; nothing about the expected answer is written down.

#[derive(Clone, Debug)]
pub struct FamChoice {
  lang: u8,
  stmts: Vec<Vec<(u8, u8)>>,
  family: u8,
  rel: u8,
  rel2: u8,
  out: u8,
  bind: u8,
  bind2: u8,
  filt: u8,
  end: bool,
  vars: (u8, u8, u8),
  /// 1 / 2: the first relation (has / inside only) is restricted to the `function` / `arguments` field
  field: u8,
}

pub fn family_strategy() -> BoxedStrategy<FamChoice> {
  (
    (0u8..4, prop::collection::vec(prop::collection::vec((0u8..5, 0u8..10), 1..5), 1..4), 0u8..11),
    (0u8..4, 0u8..4, any::<u8>(), any::<u8>(), any::<u8>(), any::<u8>(), any::<bool>(), (0u8..3, 0u8..3, 0u8..3), 0u8..5),
  )
    .prop_map(|((lang, stmts, family), (rel, rel2, out, bind, bind2, filt, end, vars, field))| FamChoice {
      lang,
      stmts,
      family,
      rel,
      rel2,
      out,
      bind,
      bind2,
      filt,
      end,
      vars,
      field,
    })
    .boxed()
}

const OUTS: &[&str] = &["f($$$XS)", "$Y($$$XS)", "k($$$XS)", "f($X, $$$)", "f($$$, $X)", "$X", "f($X, $X)", "$Y($X, $$$)", "$X", "a", "$X"];
const BINDS: &[&str] = &["g($X)", "h($X)", "$Y($X)", "$Y(a)", "$Y(1)", "$Y(b)", "$Y(g($X))", "g(g($X))", "$Y(a + 1)", "$X", "g($$$XS)", "$Y($$$XS)", "h($$$XS)", "$Y"];
const FILTS: &[&str] = &["^g", "^h", "\\(a\\)$", "\\(b\\)$", "\\(1\\)$", "g\\(a\\)", "\\+", "^.\\(a", "^[a-z]\\([a-z]\\)$", "^k"];

fn fam_pattern(t: &str, x: &str, y: &str) -> GRule {
  let text = t.replace("$$$XS", &format!("$$${x}S")).replace("$X", &format!("${x}")).replace("$Y", &format!("${y}"));
  let mut singles = vec![];
  let mut multis = vec![];
  for (tok, _) in crate::c07::scan_template(&text) {
    match tok {
      crate::c07::Tok::Single(n) if !singles.contains(&n) => singles.push(n),
      crate::c07::Tok::Multi(n) if !n.is_empty() && !multis.contains(&n) => multis.push(n),
      _ => {}
    }
  }
  GRule::Pattern(PatLeaf {
    text,
    selector: None,
    strictness: None,
    singles,
    multis,
  })
}

pub fn interpret_family(ch: &FamChoice, st: &mut Stats) -> Option<Case> {
  let scen = ScenChoice {
    lang: ch.lang,
    stmts: ch.stmts.clone(),
    inner: None,
  };
  let (lang, text) = scenario_source(&scen);
  let pv = |k: u8| POOL[k as usize % POOL.len()];
  let out = fam_pattern(OUTS[ch.out as usize % OUTS.len()], pv(ch.vars.0), pv(ch.vars.0 + 1));
  let bind = fam_pattern(BINDS[ch.bind as usize % BINDS.len()], pv(ch.vars.1), pv(ch.vars.1 + 1));
  let bind2 = fam_pattern(BINDS[ch.bind2 as usize % BINDS.len()], pv(ch.vars.2), pv(ch.vars.2 + 1));
  let filt = GRule::Regex(FILTS[ch.filt as usize % FILTS.len()].to_string());
  let first_rel = std::cell::Cell::new(true);
  let rel_of = |which: u8, rule: GRule| {
    // `field` is only legal on has / inside; call nodes of the four languages have the fields
    // `function` and `arguments`
    let field = if first_rel.replace(false) && which % 4 < 2 {
      match ch.field {
        1 | 3 => Some("function".to_string()),
        2 | 4 => Some("arguments".to_string()),
        _ => None,
      }
    } else {
      None
    };
    let r = Box::new(Rel {
      rule,
      stop: if ch.end { Stop::End } else { Stop::Neighbor },
      field,
    });
    match which % 4 {
      0 => GRule::Has(r),
      1 => GRule::Inside(r),
      2 => GRule::Precedes(r),
      _ => GRule::Follows(r),
    }
  };
  let mut utils = vec![];
  let mut globals = vec![];
  let mut constraints: Vec<(String, GRule)> = vec![];
  let rule = match ch.family {
    0 => GRule::Obj(vec![out, rel_of(ch.rel, GRule::All(vec![bind, filt]))]),
    1 => {
      utils.push(("u0".to_string(), GRule::All(vec![bind, filt])));
      GRule::Obj(vec![out, rel_of(ch.rel, GRule::Matches("u0".into()))])
    }
    2 => GRule::Obj(vec![out, rel_of(ch.rel, GRule::Obj(vec![GRule::Regex("^[a-z]\\(".into()), GRule::Not(Box::new(bind))]))]),
    3 => GRule::All(vec![out, rel_of(ch.rel, bind)]),
    4 => GRule::Obj(vec![out, GRule::Any(vec![GRule::All(vec![rel_of(ch.rel, bind), rel_of(ch.rel2, filt)]), rel_of(ch.rel, bind2)])]),
    5 => {
      let defined = defined_singles(&bind);
      let constraints = defined.first().map(|v| vec![(v.clone(), GRule::Regex(["^a$", "^b$", "^1$", "^g", "^[a-z]$"][ch.filt as usize % 5].to_string()))]).unwrap_or_default();
      globals.push(GlobalUtil {
        id: "g0".into(),
        rule: bind,
        constraints,
      });
      GRule::Obj(vec![out, rel_of(ch.rel, GRule::Matches("g0".into()))])
    }
    6 => {
      if ch.rel % 4 == ch.rel2 % 4 {
        GRule::All(vec![out, rel_of(ch.rel, bind), rel_of(ch.rel2, bind2)])
      } else {
        GRule::Obj(vec![out, rel_of(ch.rel, bind), rel_of(ch.rel2, bind2)])
      }
    }
    // two constraints whose patterns share a variable that the rule itself does not bind: both
    // occurrences must be the same code
    10 => {
      constraints.push(("L".to_string(), bind));
      constraints.push(("R".to_string(), if ch.end { bind2 } else { GRule::All(vec![bind2, filt]) }));
      fam_pattern(["$Y($L, $R)", "$Y($R, $L)", "f($L, $R)", "$Y($L, $$$, $R)"][ch.out as usize % 4], "X", pv(ch.vars.0))
    }
    // the negated rule is itself the candidate test: a candidate rejected because the operand
    // matched must leave nothing behind for the next candidate
    8 => GRule::Obj(vec![out, rel_of(ch.rel, GRule::Not(Box::new(bind)))]),
    9 => GRule::Obj(vec![out, rel_of(ch.rel, GRule::Any(vec![GRule::Not(Box::new(bind)), GRule::All(vec![bind2, filt])]))]),
    _ => GRule::Obj(vec![
      out,
      rel_of(
        ch.rel,
        GRule::Obj(vec![
          bind,
          GRule::Nth {
            position: "1".into(),
            numeric: true,
            reverse: ch.end,
            of_rule: Some(Box::new(bind2)),
            simple: false,
          },
        ]),
      ),
    ]),
  };
  st.label(&format!("family_{}", ch.family));
  Some(Case {
    lang: langs::name(lang),
    source: text,
    rule,
    utils,
    globals,
    constraints,
  })
}

// ---------------------------------------------------------------------------------------
// renaming: a variable that occurs once cannot be in conflict with anything, so making it
// non-capturing (`$X` -> `$_X`) must not change which nodes a pattern matches. A difference
// means that a binding made during a trial that was given up (a sibling tried under `$$$`, a
// partially matched child) influenced the outcome.

#[derive(Clone, Debug, Serialize, Deserialize)]
pub struct RenCase {
  pub lang: String,
  pub source: String,
  pub pattern: String,
}

const REN_PATTERNS: &[&str] = &[
  "f($$$, $Y(1))", "f($$$, $Y(a))", "f($$$, g($X))", "f($$$, $Y(b), $$$)", "$Y($$$, g($X))", "f($Y($X), $$$)", "f($$$, g($X), h($Y))", "f($$$, $Y(g($X)))", "$Y($$$, $X(1))",
  "f($X, $$$, $Y(a))", "k($$$, $Y(2))", "f($$$, $Y(a + 1))", "$Y($$$, $X(a), $$$)", "f($$$A, g($X))", "k($$$, h($X), $$$)", "$Y($X(a), $$$)",
];

pub fn rename_strategy() -> BoxedStrategy<(u8, Vec<Vec<(u8, u8)>>, u8)> {
  (0u8..4, prop::collection::vec(prop::collection::vec((0u8..5, 0u8..10), 1..6), 1..4), any::<u8>()).boxed()
}

pub fn interpret_rename(ch: &(u8, Vec<Vec<(u8, u8)>>, u8), _st: &mut Stats) -> Option<RenCase> {
  let scen = ScenChoice {
    lang: ch.0,
    stmts: ch.1.clone(),
    inner: None,
  };
  let (lang, text) = scenario_source(&scen);
  Some(RenCase {
    lang: langs::name(lang),
    source: text,
    pattern: REN_PATTERNS[ch.2 as usize % REN_PATTERNS.len()].to_string(),
  })
}

pub fn check_rename(case: &RenCase, st: &mut Stats) -> CheckResult {
  let lang: SupportLang = case.lang.parse().map_err(|_| Fail::new("bad-case", "lang"))?;
  let dropped = case.pattern.replace("$$$A", "$$$_A").replace("$X", "$_X").replace("$Y", "$_Y");
  let (Ok(p), Ok(q)) = (Pattern::try_new(&case.pattern, lang), Pattern::try_new(&dropped, lang)) else {
    st.discard("pattern does not parse in this language");
    return Ok(());
  };
  let sg = parse(lang, &case.source);
  st.eval();
  let a: Vec<(usize, usize)> = sg.root().find_all(&p).map(|m| (m.range().start, m.range().end)).collect();
  let b: Vec<(usize, usize)> = sg.root().find_all(&q).map(|m| (m.range().start, m.range().end)).collect();
  if !b.is_empty() {
    st.label("renaming_case_with_matches");
    st.nontrivial(&(&case.lang, &case.source, &case.pattern));
  }
  if a != b {
    let only_dropped: Vec<_> = b.iter().filter(|r| !a.contains(r)).take(3).map(|r| &case.source[r.0..r.1]).collect();
    let only_named: Vec<_> = a.iter().filter(|r| !b.contains(r)).take(3).map(|r| &case.source[r.0..r.1]).collect();
    fail!(
      "C04:single-occurrence-variable-changes-the-verdict",
      "pattern {:?} and the same pattern with non-capturing variables {:?} match different nodes: only without captures {:?}, only with captures {:?}\nsource:\n{}",
      case.pattern,
      dropped,
      only_dropped,
      only_named,
      case.source
    );
  }
  Ok(())
}

pub fn interpret(corpus: &Corpus, opts: &SrcOpts, ch: &Choice, st: &mut Stats) -> Option<Case> {
  let built = gen::build_source(corpus, &ch.src, opts);
  interpret_built(built, ch, st, None)
}

fn interpret_built(built: gen::Built, ch: &Choice, st: &mut Stats, dict: Option<Dict>) -> Option<Case> {
  let lang = built.lang;
  let sg = parse(lang, &built.text);
  if tsutil::has_zero_width(sg.root().get_ts_node()) {
    st.discard("source has zero-width / MISSING nodes");
    return None;
  }
  let mut ctx = RuleCtx::new(lang, &built.text, &sg);
  ctx.var_pool = Some(POOL.to_vec());
  ctx.dict = dict;
  let mut globals = vec![];
  if let Some((g, c)) = &ch.global {
    let rule = ctx.interpret(g, 0);
    let defined = defined_singles(&rule);
    let constraints = c
      .iter()
      .filter(|_| !defined.is_empty())
      .map(|(v, r)| (defined[*v as usize % defined.len()].clone(), ctx.interpret(r, 0)))
      .collect();
    globals.push(GlobalUtil {
      id: "g0".into(),
      rule,
      constraints,
    });
  }
  let mut utils = vec![];
  for (i, u) in ch.utils.iter().enumerate() {
    // utilities may reference the global and earlier utilities
    if !globals.is_empty() && !ctx.util_names.contains(&"g0".to_string()) {
      ctx.util_names.push("g0".into());
    }
    let g = ctx.interpret(u, 0);
    let name = format!("u{i}");
    utils.push((name.clone(), g));
    ctx.util_names.push(name);
  }
  if !globals.is_empty() && !ctx.util_names.contains(&"g0".to_string()) {
    ctx.util_names.push("g0".into());
  }
  // the main rule: a kind-determining pattern first, then further keys
  let mut keys = vec![ctx.interpret(&ch.first, 0)];
  for r in &ch.rest {
    let g = ctx.interpret(r, 0);
    if !keys.iter().any(|k| k.key() == g.key()) && !matches!(g, GRule::Obj(_)) {
      keys.push(g);
    }
  }
  let first = keys.remove(0);
  let rule = match ch.wrap {
    // explicit `all` / `any` forms in addition to multi-key objects
    0 if !keys.is_empty() => GRule::All(std::iter::once(first).chain(keys).collect()),
    1 if !keys.is_empty() => GRule::All(vec![first, GRule::Any(keys)]),
    _ => {
      if keys.is_empty() {
        first
      } else {
        GRule::Obj(std::iter::once(first).chain(keys).collect())
      }
    }
  };
  let mut constraints: Vec<(String, GRule)> = vec![];
  let defined = defined_singles(&rule);
  for (v, r) in &ch.constraints {
    if defined.is_empty() {
      break;
    }
    let name = defined[*v as usize % defined.len()].clone();
    if !constraints.iter().any(|(n, _)| *n == name) {
      constraints.push((name, ctx.interpret(r, 0)));
    }
  }
  for l in &built.labels {
    st.label(l);
  }
  Some(Case {
    lang: langs::name(lang),
    source: built.text,
    rule,
    utils,
    globals,
    constraints,
  })
}

/// single-capture variables defined by the rule's own patterns (what check_var accepts as
/// constraint keys)
fn defined_singles(r: &GRule) -> Vec<String> {
  let mut out = BTreeSet::new();
  r.walk(&mut |x| {
    if let GRule::Pattern(p) = x {
      out.extend(p.singles.iter().cloned());
    }
  });
  out.into_iter().collect()
}

fn map_of(pairs: &[(String, GRule)]) -> serde_yaml::Value {
  let mut m = serde_yaml::Mapping::new();
  for (k, r) in pairs {
    m.insert(serde_yaml::Value::String(k.clone()), r.to_yaml());
  }
  serde_yaml::Value::Mapping(m)
}

pub fn config_yaml(case: &Case) -> String {
  let k = |s: &str| serde_yaml::Value::String(s.to_string());
  let mut m = serde_yaml::Mapping::new();
  m.insert(k("id"), k("main"));
  m.insert(k("language"), k(&case.lang));
  m.insert(k("rule"), case.rule.to_yaml());
  if !case.utils.is_empty() {
    m.insert(k("utils"), map_of(&case.utils));
  }
  if !case.constraints.is_empty() {
    m.insert(k("constraints"), map_of(&case.constraints));
  }
  serde_yaml::to_string(&serde_yaml::Value::Mapping(m)).unwrap()
}

pub fn globals_yaml(case: &Case) -> String {
  let k = |s: &str| serde_yaml::Value::String(s.to_string());
  let seq: Vec<serde_yaml::Value> = case
    .globals
    .iter()
    .map(|g| {
      let mut m = serde_yaml::Mapping::new();
      m.insert(k("id"), k(&g.id));
      m.insert(k("language"), k(&case.lang));
      m.insert(k("rule"), g.rule.to_yaml());
      if !g.constraints.is_empty() {
        m.insert(k("constraints"), map_of(&g.constraints));
      }
      serde_yaml::Value::Mapping(m)
    })
    .collect();
  serde_yaml::to_string(&serde_yaml::Value::Sequence(seq)).unwrap()
}

/// variable names with a positive occurrence (not only beneath `not`)
fn positive_vars(r: &GRule, utils: &BTreeMap<String, GRule>, under_not: bool, single: &mut BTreeSet<String>, multi: &mut BTreeSet<String>, depth: usize) {
  if depth > 12 {
    return;
  }
  match r {
    GRule::Pattern(p) => {
      if !under_not {
        single.extend(p.singles.iter().cloned());
        multi.extend(p.multis.iter().cloned());
      }
    }
    GRule::Nth { of_rule: Some(o), .. } => positive_vars(o, utils, under_not, single, multi, depth + 1),
    GRule::Inside(rel) | GRule::Has(rel) | GRule::Precedes(rel) | GRule::Follows(rel) => {
      positive_vars(&rel.rule, utils, under_not, single, multi, depth + 1)
      // variables of stop rules are never exported
    }
    GRule::All(v) | GRule::Any(v) | GRule::Obj(v) => v.iter().for_each(|x| positive_vars(x, utils, under_not, single, multi, depth + 1)),
    GRule::Not(x) => positive_vars(x, utils, true, single, multi, depth + 1),
    GRule::Matches(name) => {
      if let Some(u) = utils.get(name) {
        positive_vars(u, utils, under_not, single, multi, depth + 1)
      }
    }
    _ => {}
  }
}

pub fn check(case: &Case, st: &mut Stats) -> CheckResult {
  let lang: SupportLang = case.lang.parse().map_err(|_| Fail::new("bad-case", "lang"))?;
  let sg = parse(lang, &case.source);
  let root = sg.root().get_ts_node();
  if tsutil::has_zero_width(root.clone()) {
    st.discard("source has zero-width / MISSING nodes");
    return Ok(());
  }
  // ---- implementation
  let globals: GlobalRules<SupportLang> = if case.globals.is_empty() {
    GlobalRules::default()
  } else {
    let y = globals_yaml(case);
    let parsed = catch(|| ast_grep_config::from_str(&y).map(DeserializeEnv::<SupportLang>::parse_global_utils));
    match parsed {
      Ok(Ok(Ok(g))) => g,
      Ok(Ok(Err(e))) => {
        st.discard("global utility rejected at load");
        st.note(format!("global load error: {e:?}").chars().take(200).collect::<String>());
        return Ok(());
      }
      Ok(Err(e)) => {
        st.discard("global utility yaml rejected");
        st.note(format!("global yaml error: {e:?}").chars().take(200).collect::<String>());
        return Ok(());
      }
      Err(p) => fail!(panic_signature(&p), "panic while loading global utils: {p}\n{y}"),
    }
  };
  let yaml = config_yaml(case);
  let configs = match catch(|| from_yaml_string::<SupportLang>(&yaml, &globals)) {
    Ok(Ok(c)) => c,
    Ok(Err(e)) => {
      st.discard("rule rejected at load");
      st.note(format!("rule load error: {e:?}").chars().take(200).collect::<String>());
      return Ok(());
    }
    Err(p) => fail!(panic_signature(&p), "panic while loading rule: {p}\n{yaml}"),
  };
  let matcher = &configs[0].matcher;
  // ---- reference
  let mut ev = Evaluator::new(lang, &case.source, &sg);
  for (n, u) in &case.utils {
    ev.utils.insert(n.clone(), u.clone());
  }
  for g in &case.globals {
    ev.globals.insert(g.id.clone(), (g.rule.clone(), g.constraints.clone()));
  }
  let mut all_utils: BTreeMap<String, GRule> = case.utils.iter().cloned().collect();
  for g in &case.globals {
    all_utils.insert(g.id.clone(), g.rule.clone());
  }
  let mut pos_single = BTreeSet::new();
  let mut pos_multi = BTreeSet::new();
  positive_vars(&case.rule, &all_utils, false, &mut pos_single, &mut pos_multi, 0);
  for (_, c) in &case.constraints {
    positive_vars(c, &all_utils, false, &mut pos_single, &mut pos_multi, 0);
  }
  let all = tsutil::preorder(root);
  let mut matched = 0usize;
  for n in &all {
    // reference: rule, then the top-level constraints on the bound variables
    let mut rf = ev.eval(&case.rule, n, &REnv::default());
    if let Some(e) = &rf {
      let mut cur = e.clone();
      let mut ok = true;
      // one environment for all constraints, visited by variable name; only variables bound by
      // the rule itself are constrained
      let mut ordered: Vec<&(String, GRule)> = case.constraints.iter().filter(|(v, _)| e.single.contains_key(v)).collect();
      ordered.sort_by(|a, b| a.0.cmp(&b.0));
      for (var, c) in ordered {
        if let Some(bound) = cur.single.get(var).cloned() {
          match ev.eval(c, &bound, &cur) {
            Some(e2) => cur = e2,
            None => {
              ok = false;
              break;
            }
          }
        }
      }
      rf = ok.then_some(cur);
    }
    let im = matcher.match_node(sg.inner.adopt(n.clone()));
    if ev.stats.borrow().steps > ev.max_steps {
      st.discard("reference evaluator budget exceeded");
      return Ok(());
    }
    let ctx = || {
      format!(
        "node {}..{} ({}) {:?}\nrule:\n{}utils: {:?}\nglobals: {}constraints: {:?}",
        n.start_byte(),
        n.end_byte(),
        n.kind(),
        tsutil::text(&case.source, n).chars().take(80).collect::<String>(),
        case.rule.yaml_string(),
        case.utils.iter().map(|(k, v)| (k, v.yaml_string())).collect::<Vec<_>>(),
        if case.globals.is_empty() { "[]\n".to_string() } else { globals_yaml(case) },
        case.constraints.iter().map(|(k, v)| (k, v.yaml_string())).collect::<Vec<_>>(),
      )
    };
    match (&im, &rf) {
      (None, None) => {}
      (Some(_), None) | (None, Some(_)) => {
        let what = crate::c05::localise(lang, &sg, &ev, &case.utils, &case.rule, &all, 0).unwrap_or_else(|| "top".into());
        fail!(
          format!("C04:verdict:{what}"),
          "implementation {} but the clean-attempt reference {} on {}",
          if im.is_some() { "matches" } else { "rejects" },
          if rf.is_some() { "matches" } else { "rejects" },
          ctx()
        );
      }
      (Some(m), Some(e)) => {
        matched += 1;
        let env = m.get_env();
        for v in &pos_single {
          let i = env.get_match(v).map(|b| (b.range().start, b.range().end));
          let r = e.single.get(v).map(|b| (b.start_byte() as usize, b.end_byte() as usize));
          if i != r {
            fail!(
              "C04:exposed-single-binding",
              "${v} is bound to {:?} by the implementation, {:?} by the reference, on {}",
              i,
              r,
              ctx()
            );
          }
        }
        for v in &pos_multi {
          let i: Vec<(usize, usize)> = env
            .get_multiple_matches(v)
            .iter()
            .filter(|b| b.is_named())
            .map(|b| (b.range().start, b.range().end))
            .collect();
          let r: Vec<(usize, usize)> = e
            .multi
            .get(v)
            .map(|x| x.iter().filter(|b| b.is_named()).map(|b| (b.start_byte() as usize, b.end_byte() as usize)).collect())
            .unwrap_or_default();
          if i != r {
            fail!("C04:exposed-multi-binding", "$$${v} is bound to {:?} by the implementation, {:?} by the reference, on {}", i, r, ctx());
          }
        }
        // ---- instantiation check, independent of MetaVarEnv::insert: every pattern leaf of the
        // winning derivation must have an alignment consistent with the *reported* bindings
        let mut rep_single: BTreeMap<String, tree_sitter::Node> = BTreeMap::new();
        let mut rep_multi: BTreeMap<String, Vec<tree_sitter::Node>> = BTreeMap::new();
        for v in &pos_single {
          if let Some(b) = env.get_match(v) {
            rep_single.insert(v.clone(), b.get_ts_node());
          }
        }
        for v in &pos_multi {
          rep_multi.insert(v.clone(), env.get_multiple_matches(v).iter().map(|b| b.get_ts_node()).collect());
        }
        for (leaf, at) in &e.trace {
          // only leaves all of whose variables are exposed (not beneath `not`) can be checked
          if !leaf.singles.iter().all(|v| rep_single.contains_key(v)) || !leaf.multis.iter().all(|v| rep_multi.contains_key(v)) {
            continue;
          }
          let Some(p) = ev.pattern(leaf) else { continue };
          let strict = leaf.strictness.as_deref().unwrap_or("smart");
          let view = EnvView {
            single: &rep_single,
            multi: &rep_multi,
          };
          st.label("instantiation_checked");
          if !c03::legal_env(&case.source, &p.node, at, strict, view) {
            // would it be coherent if the named ellipses of this leaf were left unconstrained?
            let no_multi = BTreeMap::new();
            let relaxed_view = EnvView {
              single: &rep_single,
              multi: &no_multi,
            };
            let only_multi = !leaf.multis.is_empty() && c03::legal_env(&case.source, &p.node, at, strict, relaxed_view);
            fail!(
              if only_multi { "C04:incoherent-binding:named-ellipsis-occurrence-left-unmatched" } else { "C04:incoherent-binding" },
              "pattern {:?} took part in the match at {}..{} but has no alignment in which its variables sit on code structurally identical to the reported bindings {:?}; on {}",
              leaf.text,
              at.start_byte(),
              at.end_byte(),
              rep_single.iter().map(|(k, n)| (k, tsutil::text(&case.source, n))).collect::<Vec<_>>(),
              ctx()
            );
          }
        }
      }
    }
  }
  st.eval();
  st.label_n("node_evaluations", all.len() as u64);
  st.label(&format!("lang_{}", case.lang));
  let failed_bound = ev.stats.borrow().failed_attempts_with_bindings;
  if matched > 0 {
    st.label("has_match");
  }
  if !case.globals.is_empty() {
    st.label("with_global_util");
  }
  if !case.constraints.is_empty() {
    st.label("with_constraints");
  }
  if ev.stats.borrow().global_constraint_failures > 0 {
    st.label("global_constraint_failed_after_binding");
  }
  if ev.stats.borrow().global_success_after_failure > 0 {
    st.label("global_success_after_binding_failure");
  }
  if failed_bound > 0 {
    st.label("failed_attempt_had_bindings");
    st.nontrivial(&(&case.lang, &case.source, config_yaml(case), globals_yaml(case)));
    if st.wants_sample() && matched > 0 {
      st.sample(json!({"lang": case.lang, "config": config_yaml(case), "globals": if case.globals.is_empty() { String::new() } else { globals_yaml(case) },
        "source_head": case.source.chars().take(160).collect::<String>(), "matching_nodes": matched, "failed_attempts_with_bindings": failed_bound}));
    }
  }
  Ok(())
}

fn stage_opts() -> SrcOpts {
  let mut opts = crate::c05::small_opts().langs(&[
    SupportLang::JavaScript,
    SupportLang::TypeScript,
    SupportLang::Python,
    SupportLang::Rust,
  ]);
  opts.synth_weight = 7;
  opts
}

/// the same stage, driven by bytes (coverage-guided tier)
pub fn erased() -> crate::fuzz::Erased {
  let corpus: &'static Corpus = Box::leak(Box::new(Corpus::load()));
  let opts: &'static SrcOpts = Box::leak(Box::new(stage_opts()));
  crate::fuzz::Erased::generic("C04", "env", move || strategy(opts), move |c, st| interpret(corpus, opts, c, st), check)
}

pub fn run(cfg: &RunCfg) -> i32 {
  let mut report = Report::new(
    cfg,
    "case = (JS/TS/Python/Rust source from a 4-identifier synthetic grammar or the corpus, rule whose patterns share the variable pool {A,B,C} across all/any/not/relational/matches/nthChild.ofRule, 0-2 local utilities, optional global utility with a constraint, 0-2 top-level constraints); on EVERY node the implementation's verdict and exposed bindings are compared with the clean-attempt reference evaluator, and every pattern leaf of the winning derivation must admit an alignment consistent with the reported bindings (independent of MetaVarEnv::insert). Non-trivial = distinct case in which some attempt failed after having bound a variable.",
  );
  report.assume("variables that occur only beneath `not` are compared through the verdict only (the property leaves their export open)");
  report.assume("stop rules are evaluated with an empty environment on both sides");
  report.assume("constraints are applied to the variables the rule itself bound, in the order of the variable names, on one shared environment (MetaVarEnv::match_constraints); constraint patterns draw on the same variable pool");
  let known = Known::load(&cfg.prop);
  if let Some(path) = &cfg.replay {
    if read_replay(path).stage == "renaming" {
      return crate::replay_main::<RenCase>(cfg, path, check_rename);
    }
    return crate::replay_main::<Case>(cfg, path, check);
  }
  let corpus = Corpus::load();
  crate::replay_known_staged::<Case>(&mut report, &known, "renaming", false, check);
  crate::replay_known_staged::<RenCase>(&mut report, &known, "renaming", true, check_rename);
  let opts = stage_opts();
  let total = cfg.budget(12_000, 300_000);
  let o = drive(cfg, "env", total, &known, || strategy(&opts), |c, st| interpret(&corpus, &opts, c, st), check);
  report.absorb("env", o);
  let total = cfg.budget(12_000, 300_000);
  let o = drive(cfg, "scenarios", total, &known, || scenario_strategy(&opts), |c, st| interpret_scenario(c, st), check);
  report.absorb("scenarios", o);
  let total = cfg.budget(16_000, 300_000);
  let o = drive(cfg, "families", total, &known, family_strategy, interpret_family, check);
  report.absorb("families", o);
  let total = cfg.budget(8_000, 150_000);
  let o = drive(cfg, "renaming", total, &known, rename_strategy, interpret_rename, check_rename);
  report.absorb("renaming", o);
  report.floor("failed_attempt_had_bindings", 0.15, "evaluations");
  crate::fuzz::stage(cfg, &mut report, &known, 20000);
  report.finish()
}
