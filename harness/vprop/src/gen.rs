//! Shared generators: corpus loading, G-source (choice vector -> source text through
//! tree-aware mutations), G-synth (small statement/expression grammar rendered in 8 languages).
use crate::langs::{self, LANGS};
use crate::tsutil::{self, parse};
use ast_grep_language::SupportLang;
use proptest::prelude::*;
use proptest::sample::Index;
use std::path::Path;
use tree_sitter::Node as TsNode;

pub struct CorpusFile {
  pub name: String,
  pub text: String,
}
pub struct LangCorpus {
  pub lang: SupportLang,
  pub files: Vec<CorpusFile>,
}
pub struct Corpus {
  pub langs: Vec<LangCorpus>,
}

impl Corpus {
  pub fn load() -> Corpus {
    let root = crate::engine::verif_root().join("corpus");
    let mut out = vec![];
    for li in LANGS {
      let dir = root.join(li.dir);
      let mut files = vec![];
      if let Ok(rd) = std::fs::read_dir(&dir) {
        let mut paths: Vec<_> = rd.filter_map(|e| e.ok()).map(|e| e.path()).collect();
        paths.sort();
        for p in paths {
          if let Ok(text) = std::fs::read_to_string(&p) {
            if !text.is_empty() {
              files.push(CorpusFile {
                name: format!(
                  "{}/{}",
                  li.dir,
                  p.file_name().unwrap().to_string_lossy()
                ),
                text,
              });
            }
          }
        }
      }
      // smaller files first: shrinking moves to earlier (smaller) files
      files.sort_by_key(|f| (f.text.len(), f.name.clone()));
      if files.is_empty() {
        panic!("corpus for {} is empty (expected files in {:?})", li.dir, dir);
      }
      out.push(LangCorpus {
        lang: li.lang,
        files,
      });
    }
    Corpus { langs: out }
  }
  pub fn lang(&self, l: SupportLang) -> &LangCorpus {
    self.langs.iter().find(|c| c.lang == l).unwrap()
  }
}

// ---------------------------------------------------------------------------------------
// G-synth

pub const SYNTH_LANGS: &[SupportLang] = &[
  SupportLang::JavaScript,
  SupportLang::TypeScript,
  SupportLang::Python,
  SupportLang::Rust,
  SupportLang::Go,
  SupportLang::C,
  SupportLang::Java,
  SupportLang::Ruby,
];

pub const IDENTS: &[&str] = &["a", "b", "foo", "bar"];
pub const FUNCS: &[&str] = &["foo", "bar", "baz", "qux"];

#[derive(Clone, Debug)]
pub enum SynExpr {
  Ident(u8),
  Num(u8),
  Str(u8),
  Call(u8, Vec<SynExpr>),
  Array(Vec<SynExpr>),
  Bin(u8, Box<SynExpr>, Box<SynExpr>),
  Member(Box<SynExpr>, u8),
}

#[derive(Clone, Debug)]
pub enum SynStmt {
  Expr(SynExpr),
  Let(u8, SynExpr),
  Return(SynExpr),
  If(SynExpr, Vec<SynStmt>, Option<Vec<SynStmt>>),
  Comment(u8),
}

#[derive(Clone, Debug)]
pub struct SynProg {
  pub funcs: Vec<(u8, Vec<SynStmt>)>,
}

pub fn syn_expr() -> impl Strategy<Value = SynExpr> {
  let leaf = prop_oneof![
    3 => (0u8..4).prop_map(SynExpr::Ident),
    2 => (0u8..4).prop_map(SynExpr::Num),
    1 => (0u8..4).prop_map(SynExpr::Str),
  ];
  leaf.prop_recursive(4, 24, 6, |inner| {
    prop_oneof![
      4 => ((0u8..4), prop::collection::vec(inner.clone(), 0..5)).prop_map(|(f, a)| SynExpr::Call(f, a)),
      2 => prop::collection::vec(inner.clone(), 0..5).prop_map(SynExpr::Array),
      2 => ((0u8..3), inner.clone(), inner.clone()).prop_map(|(o, l, r)| SynExpr::Bin(o, Box::new(l), Box::new(r))),
      1 => (inner, 0u8..4).prop_map(|(o, m)| SynExpr::Member(Box::new(o), m)),
    ]
  })
}

pub fn syn_stmt() -> impl Strategy<Value = SynStmt> {
  let simple = prop_oneof![
    4 => syn_expr().prop_map(SynStmt::Expr),
    3 => ((0u8..4), syn_expr()).prop_map(|(n, e)| SynStmt::Let(n, e)),
    1 => syn_expr().prop_map(SynStmt::Return),
    1 => (0u8..4).prop_map(SynStmt::Comment),
  ];
  simple.prop_recursive(3, 16, 4, |inner| {
    (
      syn_expr(),
      prop::collection::vec(inner.clone(), 1..4),
      prop::option::of(prop::collection::vec(inner, 1..3)),
    )
      .prop_map(|(c, t, e)| SynStmt::If(c, t, e))
  })
}

pub fn syn_prog() -> impl Strategy<Value = SynProg> {
  prop::collection::vec(((0u8..4), prop::collection::vec(syn_stmt(), 1..6)), 1..3)
    .prop_map(|funcs| SynProg { funcs })
}

struct R {
  lang: SupportLang,
  out: String,
}

impl R {
  fn expr(&mut self, e: &SynExpr) {
    use SupportLang as L;
    match e {
      SynExpr::Ident(i) => self.out.push_str(IDENTS[*i as usize % 4]),
      SynExpr::Num(n) => self.out.push_str(&format!("{}", n)),
      SynExpr::Str(s) => {
        let body = ["x", "hello", "a b", "héllo"][*s as usize % 4];
        self.out.push('"');
        self.out.push_str(body);
        self.out.push('"');
      }
      SynExpr::Call(f, args) => {
        self.out.push_str(FUNCS[*f as usize % 4]);
        self.out.push('(');
        self.list(args);
        self.out.push(')');
      }
      SynExpr::Array(items) => match self.lang {
        L::Go => {
          self.out.push_str("[]any{");
          self.list(items);
          self.out.push('}');
        }
        L::C => {
          // C has no array expression; use a call so sibling lists stay dense
          self.out.push_str("arr(");
          self.list(items);
          self.out.push(')');
        }
        L::Java => {
          self.out.push_str("List.of(");
          self.list(items);
          self.out.push(')');
        }
        L::Rust => {
          self.out.push('[');
          self.list(items);
          self.out.push(']');
        }
        _ => {
          self.out.push('[');
          self.list(items);
          self.out.push(']');
        }
      },
      SynExpr::Bin(o, l, r) => {
        self.out.push('(');
        self.expr(l);
        self.out.push_str([" + ", " * ", " - "][*o as usize % 3]);
        self.expr(r);
        self.out.push(')');
      }
      SynExpr::Member(o, m) => {
        // keep the object simple so every language parses it
        match **o {
          SynExpr::Ident(_) | SynExpr::Call(..) | SynExpr::Member(..) => self.expr(o),
          _ => self.out.push_str("obj"),
        }
        self.out.push('.');
        self.out.push_str(["x", "y", "len", "foo"][*m as usize % 4]);
      }
    }
  }
  fn list(&mut self, items: &[SynExpr]) {
    for (i, it) in items.iter().enumerate() {
      if i > 0 {
        self.out.push_str(", ");
      }
      self.expr(it);
    }
  }
  fn indent(&mut self, d: usize) {
    for _ in 0..d {
      self.out.push_str("    ");
    }
  }
  fn block(&mut self, stmts: &[SynStmt], d: usize) {
    for s in stmts {
      self.stmt(s, d);
    }
  }
  fn stmt(&mut self, s: &SynStmt, d: usize) {
    use SupportLang as L;
    let semi = match self.lang {
      L::Python | L::Go | L::Ruby => "",
      _ => ";",
    };
    self.indent(d);
    match s {
      SynStmt::Expr(e) => {
        // C/Java/Rust/Go need call-like expression statements; wrap others
        match (self.lang, e) {
          (_, SynExpr::Call(..)) => self.expr(e),
          (L::Go | L::Java | L::Rust | L::C, _) => {
            self.out.push_str("use(");
            self.expr(e);
            self.out.push(')');
          }
          _ => self.expr(e),
        }
        self.out.push_str(semi);
        self.out.push('\n');
      }
      SynStmt::Let(n, e) => {
        let name = IDENTS[*n as usize % 4];
        match self.lang {
          L::JavaScript | L::TypeScript => self.out.push_str(&format!("let {name} = ")),
          L::Rust => self.out.push_str(&format!("let {name} = ")),
          L::Go => self.out.push_str(&format!("{name} = ")),
          L::C => self.out.push_str(&format!("int {name} = ")),
          L::Java => self.out.push_str(&format!("var {name} = ")),
          _ => self.out.push_str(&format!("{name} = ")),
        }
        self.expr(e);
        self.out.push_str(semi);
        self.out.push('\n');
      }
      SynStmt::Return(e) => {
        self.out.push_str("return ");
        self.expr(e);
        self.out.push_str(semi);
        self.out.push('\n');
      }
      SynStmt::Comment(c) => {
        let body = ["note", "todo: fix", "x", "naïve"][*c as usize % 4];
        let lc = langs::info(self.lang).line_comment.unwrap_or("//");
        self.out.push_str(&format!("{lc} {body}\n"));
      }
      SynStmt::If(c, t, e) => match self.lang {
        L::Python => {
          self.out.push_str("if ");
          self.expr(c);
          self.out.push_str(":\n");
          self.block(t, d + 1);
          if let Some(e) = e {
            self.indent(d);
            self.out.push_str("else:\n");
            self.block(e, d + 1);
          }
        }
        L::Ruby => {
          self.out.push_str("if ");
          self.expr(c);
          self.out.push('\n');
          self.block(t, d + 1);
          if let Some(e) = e {
            self.indent(d);
            self.out.push_str("else\n");
            self.block(e, d + 1);
          }
          self.indent(d);
          self.out.push_str("end\n");
        }
        L::Rust | L::Go => {
          self.out.push_str("if ");
          self.expr(c);
          self.out.push_str(" {\n");
          self.block(t, d + 1);
          self.indent(d);
          if let Some(e) = e {
            self.out.push_str("} else {\n");
            self.block(e, d + 1);
            self.indent(d);
          }
          self.out.push_str("}\n");
        }
        _ => {
          self.out.push_str("if (");
          self.expr(c);
          self.out.push_str(") {\n");
          self.block(t, d + 1);
          self.indent(d);
          if let Some(e) = e {
            self.out.push_str("} else {\n");
            self.block(e, d + 1);
            self.indent(d);
          }
          self.out.push_str("}\n");
        }
      },
    }
  }
}

pub fn render_synth(lang: SupportLang, p: &SynProg) -> String {
  use SupportLang as L;
  let mut r = R {
    lang,
    out: String::new(),
  };
  match lang {
    L::Go => r.out.push_str("package main\n\n"),
    L::Java => r.out.push_str("class A {\n"),
    _ => {}
  }
  let base = if lang == L::Java { 1 } else { 0 };
  for (i, (name, body)) in p.funcs.iter().enumerate() {
    let f = format!("{}{}", FUNCS[*name as usize % 4], i);
    r.indent(base);
    match lang {
      L::JavaScript => r.out.push_str(&format!("function {f}(a, b) {{\n")),
      L::TypeScript => r.out.push_str(&format!("function {f}(a: number, b: number) {{\n")),
      L::Python => r.out.push_str(&format!("def {f}(a, b):\n")),
      L::Rust => r.out.push_str(&format!("fn {f}(a: i32, b: i32) {{\n")),
      L::Go => r.out.push_str(&format!("func {f}(a int, b int) {{\n")),
      L::C => r.out.push_str(&format!("int {f}(int a, int b) {{\n")),
      L::Java => r.out.push_str(&format!("int {f}(int a, int b) {{\n")),
      L::Ruby => r.out.push_str(&format!("def {f}(a, b)\n")),
      _ => unreachable!(),
    }
    r.block(body, base + 1);
    r.indent(base);
    match lang {
      L::Python => {}
      L::Ruby => r.out.push_str("end\n"),
      _ => r.out.push_str("}\n"),
    }
    r.out.push('\n');
  }
  if lang == L::Java {
    r.out.push_str("}\n");
  }
  r.out
}

// ---------------------------------------------------------------------------------------
// G-source

#[derive(Clone, Debug)]
pub struct Mutn {
  pub kind: u8,
  pub a: Index,
  pub b: Index,
  pub c: u8,
}

#[derive(Clone, Debug)]
pub enum Origin {
  Corpus { lang: Index, file: Index, window: Index },
  Synth { lang: Index, prog: SynProg },
}

#[derive(Clone, Debug)]
pub struct SrcChoice {
  pub origin: Origin,
  pub muts: Vec<Mutn>,
}

#[derive(Clone, Debug)]
pub struct SrcOpts {
  pub langs: Vec<SupportLang>,
  /// allow mutations that are likely to create syntax errors
  pub allow_errors: bool,
  pub allow_crlf: bool,
  pub allow_multibyte: bool,
  pub max_bytes: usize,
  pub max_muts: usize,
  /// weight of synth origin out of 10 (only when the language list contains synth languages)
  pub synth_weight: u32,
}

impl SrcOpts {
  pub fn all_langs() -> SrcOpts {
    SrcOpts {
      langs: LANGS.iter().map(|l| l.lang).collect(),
      allow_errors: false,
      allow_crlf: true,
      allow_multibyte: true,
      max_bytes: 4000,
      max_muts: 4,
      synth_weight: 3,
    }
  }
  pub fn with_errors(mut self) -> Self {
    self.allow_errors = true;
    self
  }
  pub fn langs(mut self, l: &[SupportLang]) -> Self {
    self.langs = l.to_vec();
    self
  }
}

pub fn src_choice(opts: &SrcOpts) -> BoxedStrategy<SrcChoice> {
  let mutn = (0u8..12, any::<Index>(), any::<Index>(), any::<u8>())
    .prop_map(|(kind, a, b, c)| Mutn { kind, a, b, c });
  let corpus = (any::<Index>(), any::<Index>(), any::<Index>())
    .prop_map(|(lang, file, window)| Origin::Corpus { lang, file, window });
  let has_synth = opts.langs.iter().any(|l| SYNTH_LANGS.contains(l));
  let origin: BoxedStrategy<Origin> = if has_synth && opts.synth_weight > 0 {
    let synth = (any::<Index>(), syn_prog()).prop_map(|(lang, prog)| Origin::Synth { lang, prog });
    prop_oneof![
      (10 - opts.synth_weight.min(9)) => corpus,
      opts.synth_weight.min(9) => synth,
    ]
    .boxed()
  } else {
    corpus.boxed()
  };
  (origin, prop::collection::vec(mutn, 0..=opts.max_muts))
    .prop_map(|(origin, muts)| SrcChoice { origin, muts })
    .boxed()
}

#[derive(Clone, Debug)]
pub struct Built {
  pub lang: SupportLang,
  pub text: String,
  pub origin: String,
  pub labels: Vec<&'static str>,
}

fn named_nodes_sorted<'a>(root: TsNode<'a>) -> Vec<TsNode<'a>> {
  let mut v: Vec<TsNode> = tsutil::preorder(root)
    .into_iter()
    .skip(1)
    .filter(|n| n.is_named() && n.end_byte() > n.start_byte())
    .collect();
  v.sort_by_key(|n| (n.end_byte() - n.start_byte(), n.start_byte()));
  v
}

fn window(lang: SupportLang, text: &str, max: usize, w: &Index) -> String {
  if text.len() <= max {
    return text.to_string();
  }
  // choose a run of top-level children that fits
  let sg = parse(lang, text);
  let root = sg.root().get_ts_node();
  let kids = tsutil::children(&root);
  if kids.is_empty() {
    return text.chars().take(max / 4).collect();
  }
  let start_i = w.index(kids.len());
  let start = kids[start_i].start_byte() as usize;
  let mut end = kids[start_i].end_byte() as usize;
  for k in &kids[start_i..] {
    if (k.end_byte() as usize) - start > max {
      break;
    }
    end = k.end_byte() as usize;
  }
  if end - start > max {
    // single huge child: fall back to the first child that fits, else a prefix of lines
    if let Some(k) = kids
      .iter()
      .find(|k| ((k.end_byte() - k.start_byte()) as usize) <= max)
    {
      return format!("{}\n", &text[k.start_byte() as usize..k.end_byte() as usize]);
    }
    let mut cut = max;
    while !text.is_char_boundary(cut) {
      cut -= 1;
    }
    return text[..cut].to_string();
  }
  let mut s = text[start..end].to_string();
  s.push('\n');
  s
}

// includes characters whose UTF-8 encoding ends in 0xBF / 0x80 (edge values of the continuation
// byte range) and a BOM in the middle of a line
const MB: &[&str] = &["é", "ü", "日本", "😀", "ß", "¿", "ÿ", "😿", "\u{feff}", "À", "\u{7ff}", "\u{ffff}"];

/// apply one mutation; returns the label when the mutation applied
fn apply_mut(lang: SupportLang, text: &mut String, m: &Mutn, opts: &SrcOpts) -> Option<&'static str> {
  apply_mut_scoped(lang, text, m, opts, None)
}

/// like apply_mut, but only nodes strictly inside `scope` (byte span) are eligible
pub fn apply_mut_scoped(
  lang: SupportLang,
  text: &mut String,
  m: &Mutn,
  opts: &SrcOpts,
  scope: Option<(usize, usize)>,
) -> Option<&'static str> {
  let li = langs::info(lang);
  let sg = parse(lang, text);
  let root = sg.root().get_ts_node();
  let mut nodes = named_nodes_sorted(root.clone());
  if let Some((s, e)) = scope {
    nodes.retain(|n| {
      let (ns, ne) = (n.start_byte() as usize, n.end_byte() as usize);
      ns >= s && ne <= e && !(ns == s && ne == e)
    });
  }
  if nodes.is_empty() {
    return None;
  }
  match m.kind {
    // splice: replace a node by another node of the same kind
    0 | 1 => {
      let x = &nodes[m.a.index(nodes.len())];
      let same: Vec<&TsNode> = nodes
        .iter()
        .filter(|n| {
          n.kind_id() == x.kind_id()
            && n.id() != x.id()
            && tsutil::text(text, n) != tsutil::text(text, x)
            && (n.end_byte() - n.start_byte()) < 300
        })
        .collect();
      if same.is_empty() {
        return None;
      }
      let y = same[m.b.index(same.len())];
      let yt = tsutil::text(text, y).to_string();
      let r = x.start_byte() as usize..x.end_byte() as usize;
      text.replace_range(r, &yt);
      Some("mut_splice")
    }
    // delete a named sibling (with a directly following `,` or preceding `,`)
    2 => {
      let cands: Vec<&TsNode> = nodes
        .iter()
        .filter(|n| n.parent().map(|p| p.named_child_count() >= 2).unwrap_or(false))
        .collect();
      if cands.is_empty() {
        return None;
      }
      let x = cands[m.a.index(cands.len())];
      let mut s = x.start_byte() as usize;
      let mut e = x.end_byte() as usize;
      if let Some(nx) = x.next_sibling() {
        if !nx.is_named() && tsutil::text(text, &nx) == "," {
          e = nx.end_byte() as usize;
          // swallow one following space
          if text.as_bytes().get(e) == Some(&b' ') {
            e += 1;
          }
        } else if let Some(pv) = x.prev_sibling() {
          if !pv.is_named() && tsutil::text(text, &pv) == "," {
            s = pv.start_byte() as usize;
          }
        }
      } else if let Some(pv) = x.prev_sibling() {
        if !pv.is_named() && tsutil::text(text, &pv) == "," {
          s = pv.start_byte() as usize;
        }
      }
      text.replace_range(s..e, "");
      Some("mut_delete")
    }
    // duplicate a named sibling in a comma separated list
    3 => {
      let cands: Vec<&TsNode> = nodes
        .iter()
        .filter(|n| {
          let nx = n.next_sibling();
          let pv = n.prev_sibling();
          let is_comma = |o: &Option<TsNode>| {
            o.as_ref()
              .map(|s| !s.is_named() && tsutil::text(text, s) == ",")
              .unwrap_or(false)
          };
          (is_comma(&nx) || is_comma(&pv)) && (n.end_byte() - n.start_byte()) < 200
        })
        .collect();
      if cands.is_empty() {
        return None;
      }
      let x = cands[m.a.index(cands.len())];
      let t = tsutil::text(text, x).to_string();
      let at = x.end_byte() as usize;
      text.insert_str(at, &format!(", {t}"));
      Some("mut_duplicate")
    }
    // swap two named siblings
    4 => {
      let cands: Vec<&TsNode> = nodes
        .iter()
        .filter(|n| n.next_named_sibling().is_some() && (n.end_byte() - n.start_byte()) < 300)
        .collect();
      if cands.is_empty() {
        return None;
      }
      let x = cands[m.a.index(cands.len())];
      let y = x.next_named_sibling().unwrap();
      if y.end_byte() - y.start_byte() >= 300 {
        return None;
      }
      let xt = tsutil::text(text, x).to_string();
      let yt = tsutil::text(text, &y).to_string();
      let (xs, xe, ys, ye) = (
        x.start_byte() as usize,
        x.end_byte() as usize,
        y.start_byte() as usize,
        y.end_byte() as usize,
      );
      if xe > ys {
        return None;
      }
      text.replace_range(ys..ye, &xt);
      text.replace_range(xs..xe, &yt);
      Some("mut_swap")
    }
    // insert a block comment before a node (inside sibling lists)
    5 => {
      let (open, close) = li.block_comment?;
      let x = &nodes[m.a.index(nodes.len())];
      let body = ["c", "note", "x y", "é"][(m.c % 4) as usize];
      if !opts.allow_multibyte && body == "é" {
        return None;
      }
      let at = x.start_byte() as usize;
      text.insert_str(at, &format!("{open} {body} {close} "));
      Some("mut_block_comment")
    }
    // insert an own-line line comment before the line where a node starts
    6 => {
      let lc = li.line_comment?;
      if matches!(lang, SupportLang::Yaml | SupportLang::Haskell) && !opts.allow_errors {
        // still fine syntactically in both, keep
      }
      let x = &nodes[m.a.index(nodes.len())];
      let at = x.start_byte() as usize;
      let line_start = text[..at].rfind('\n').map(|i| i + 1).unwrap_or(0);
      let indent: String = text[line_start..]
        .chars()
        .take_while(|c| *c == ' ' || *c == '\t')
        .collect();
      let body = ["c", "note", "x y", "ü"][(m.c % 4) as usize];
      if !opts.allow_multibyte && body == "ü" {
        return None;
      }
      text.insert_str(line_start, &format!("{indent}{lc} {body}\n"));
      Some("mut_line_comment")
    }
    // CRLF
    7 => {
      if !opts.allow_crlf || text.contains('\r') {
        return None;
      }
      // only with 1/4 probability: CRLF changes every line
      if m.c % 4 != 0 {
        return None;
      }
      *text = text.replace('\n', "\r\n");
      Some("mut_crlf")
    }
    // multi-byte injection into a string or comment leaf
    8 => {
      if !opts.allow_multibyte {
        return None;
      }
      let cands: Vec<&TsNode> = nodes
        .iter()
        .filter(|n| {
          let k = n.kind();
          (k.contains("string") || k.contains("comment"))
            && n.end_byte() - n.start_byte() >= 3
            && n.named_child_count() == 0
        })
        .collect();
      if cands.is_empty() {
        return None;
      }
      let x = cands[m.a.index(cands.len())];
      let mut at = x.start_byte() as usize + 1 + m.b.index((x.end_byte() - x.start_byte() - 2) as usize);
      while !text.is_char_boundary(at) {
        at += 1;
      }
      // do not split an escape sequence
      if text.as_bytes().get(at.wrapping_sub(1)) == Some(&b'\\') {
        return None;
      }
      if m.c % 16 == 15 {
        // a long multi-byte run: positions later on this line are several KiB into the line
        text.insert_str(at, &"é".repeat(1500));
        return Some("mut_long_multibyte_line");
      }
      text.insert_str(at, MB[(m.c as usize) % MB.len()]);
      Some("mut_multibyte")
    }
    // trailing separator
    9 => {
      let cands: Vec<&TsNode> = nodes
        .iter()
        .filter(|n| {
          let pv_comma = n
            .prev_sibling()
            .map(|s| !s.is_named() && tsutil::text(text, &s) == ",")
            .unwrap_or(false);
          let nx_close = n
            .next_sibling()
            .map(|s| !s.is_named() && matches!(tsutil::text(text, &s), ")" | "]" | "}"))
            .unwrap_or(false);
          pv_comma && nx_close
        })
        .collect();
      if cands.is_empty() {
        return None;
      }
      let trailing_ok = matches!(
        lang,
        SupportLang::JavaScript
          | SupportLang::TypeScript
          | SupportLang::Tsx
          | SupportLang::Python
          | SupportLang::Rust
          | SupportLang::Ruby
          | SupportLang::Kotlin
          | SupportLang::Swift
          | SupportLang::Php
      );
      if !trailing_ok && !opts.allow_errors {
        return None;
      }
      let x = cands[m.a.index(cands.len())];
      text.insert(x.end_byte() as usize, ',');
      Some("mut_trailing_sep")
    }
    // byte range deletion (syntax errors)
    10 => {
      if !opts.allow_errors || text.len() < 4 {
        return None;
      }
      let (lo, hi) = scope.unwrap_or((0, text.len()));
      let mut s = lo + m.a.index((hi - lo).max(1));
      while !text.is_char_boundary(s) {
        s -= 1;
      }
      let mut e = (s + 1 + (m.c as usize % 12)).min(text.len());
      while !text.is_char_boundary(e) {
        e += 1;
      }
      text.replace_range(s..e, "");
      Some("mut_byte_delete")
    }
    // token insertion (syntax errors)
    _ => {
      if !opts.allow_errors {
        return None;
      }
      let toks = ["(", ")", "{", "}", ",", ";", "\"", " = ", "[", "]", " if ", "'"];
      let (lo, hi) = scope.unwrap_or((0, text.len()));
      let mut s = lo + m.a.index(hi - lo + 1);
      while !text.is_char_boundary(s) {
        s -= 1;
      }
      text.insert_str(s, toks[m.c as usize % toks.len()]);
      Some("mut_token_insert")
    }
  }
}


pub fn build_source(corpus: &Corpus, ch: &SrcChoice, opts: &SrcOpts) -> Built {
  let mut labels = vec![];
  let (lang, mut text, origin) = match &ch.origin {
    Origin::Corpus { lang, file, window: w } => {
      let l = opts.langs[lang.index(opts.langs.len())];
      let lc = corpus.lang(l);
      let f = &lc.files[file.index(lc.files.len())];
      let t = window(l, &f.text, opts.max_bytes, w);
      (l, t, f.name.clone())
    }
    Origin::Synth { lang, prog } => {
      let ls: Vec<SupportLang> = opts
        .langs
        .iter()
        .copied()
        .filter(|l| SYNTH_LANGS.contains(l))
        .collect();
      if ls.is_empty() {
        // no synthesisable language allowed here: fall back to the first corpus file
        let l = opts.langs[lang.index(opts.langs.len())];
        let f = &corpus.lang(l).files[0];
        (l, window(l, &f.text, opts.max_bytes, lang), f.name.clone())
      } else {
        let l = ls[lang.index(ls.len())];
        labels.push("from_synth");
        (l, render_synth(l, prog), "synth".to_string())
      }
    }
  };
  for m in &ch.muts {
    if text.len() > opts.max_bytes * 2 {
      break;
    }
    if let Some(l) = apply_mut(lang, &mut text, m, opts) {
      labels.push(l);
    }
  }
  if !text.is_ascii() {
    labels.push("multibyte");
  }
  if text.contains("\r\n") {
    labels.push("crlf");
  }
  Built {
    lang,
    text,
    origin,
    labels,
  }
}
